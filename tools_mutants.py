#!/usr/bin/env python3
"""Apply each catalogued mutant (mutants/catalogue.py) to a scratch copy of /repo and run the quick tier of the
checks that must catch it.  Usage: python3 tools_mutants.py [id-substring ...] [--budget S] [--jobs N] [--all-props]

Writes mutants/RESULTS.json (id -> property -> {rc, signatures}). Never touches /repo.
"""
import importlib.util
import json
import os
import re
import shutil
import subprocess
import sys
import tempfile

HERE = os.path.dirname(os.path.abspath(__file__))
spec = importlib.util.spec_from_file_location("catalogue", os.path.join(HERE, "mutants", "catalogue.py"))
cat = importlib.util.module_from_spec(spec)
spec.loader.exec_module(cat)


def main():
    args = [a for a in sys.argv[1:] if not a.startswith("--")]
    budget = "45"
    jobs = "8"
    for i, a in enumerate(sys.argv):
        if a == "--budget":
            budget = sys.argv[i + 1]
        if a == "--jobs":
            jobs = sys.argv[i + 1]
    args = [a for a in args if a not in (budget, jobs)]
    out_path = os.path.join(HERE, "mutants", "RESULTS.json")
    results = json.load(open(out_path)) if os.path.exists(out_path) else {}
    for m in cat.MUTANTS:
        if args and not any(a in m["id"] for a in args):
            continue
        tmp = tempfile.mkdtemp(prefix="vf-mut-")
        try:
            shutil.copytree("/repo/src", os.path.join(tmp, "src"), ignore=shutil.ignore_patterns("*.so", "__pycache__"))
            path = os.path.join(tmp, m["file"])
            s = open(path).read()
            edits = [dict(old=m["old"], new=m["new"])] + m.get("also", [])
            ok = True
            for e in edits:
                if e["old"] not in s:
                    print("%s: PATTERN NOT FOUND in %s" % (m["id"], m["file"]))
                    ok = False
                    break
                s = s.replace(e["old"], e["new"], 1)
            if not ok:
                results.setdefault(m["id"], {})["error"] = "pattern not found"
                continue
            open(path, "w").write(s)
            for prop in m["props"]:
                env = dict(os.environ, VERIF_REPO=tmp, VERIF_JOBS=jobs)
                p = subprocess.run([os.path.join(HERE, "check"), prop, "--tier", "quick", "--no-evidence", "--budget", budget],
                                   capture_output=True, text=True, env=env, cwd=HERE)
                sigs = re.findall(r"signature=(\S+)", p.stdout)
                known = re.findall(r"KNOWN-FINDING: .*?\[(\S+)\]", p.stdout)
                results.setdefault(m["id"], {})[prop] = {"rc": p.returncode, "signatures": sigs[:8], "known": known}
                results[m["id"]].pop("error", None)
                print("%-42s %s rc=%d %s" % (m["id"], prop, p.returncode, sigs[:3]))
                # replay files written for mutants are not evidence about /repo
                for f in re.findall(r"replay=(\S+)", p.stdout):
                    try:
                        os.unlink(f)
                    except OSError:
                        pass
        finally:
            shutil.rmtree(tmp, ignore_errors=True)
            json.dump(results, open(out_path, "w"), indent=1, sort_keys=True)


if __name__ == "__main__":
    main()
