#!/usr/bin/env python3
"""Re-validate filed seeded changes against the current checks and the current /repo HEAD.

usage: python3 tools_reseed.py all | <seed dir name> ...   [--jobs N]

For every seeded/<name>/ : make a scratch worktree of /repo under /tmp, apply patch.diff (a patch that no longer
applies because the repository moved on — e.g. a later "fix:" commit touched the same lines — is reported as such and
skipped), rebuild the C helpers when the patch touches them, run the quick tier of the checks that caught the change
when it was filed, and remove the worktree again.  The outcome goes to seeded/REVALIDATION.json; nothing here is
evidence for a property, it only tells whether the machinery still catches what it caught before.
"""

import json
import os
import re
import subprocess
import sys
from concurrent.futures import ThreadPoolExecutor

HERE = os.path.dirname(os.path.abspath(__file__))
REPO = os.environ.get("VERIF_REPO", "/repo")


def sh(cmd, cwd=None, env=None, timeout=3600):
    p = subprocess.run(cmd, shell=True, cwd=cwd, env=env, capture_output=True, text=True, timeout=timeout)
    return p.returncode, (p.stdout + p.stderr)


def one(name):
    d = os.path.join(HERE, "seeded", name)
    meta = json.load(open(os.path.join(d, "meta.json")))
    # every check that was run when the change was filed: the one of its own property first (a check that only caught
    # a defect of the base tree at filing time must not stand in for it)
    checks = sorted(set(meta.get("caught_by") or []) | set(meta.get("checks", {})), key=lambda c: (c != meta.get("property"), c))
    wt = "/tmp/reseed-%s" % name
    sh("git -C %s worktree remove --force %s" % (REPO, wt))
    rc, o = sh("git -C %s worktree add --detach %s HEAD" % (REPO, wt))
    out = {"name": name, "property": meta.get("property"), "checks": {}}
    try:
        if rc != 0:
            out["status"] = "worktree failed: " + o[-200:]
            return out
        rc, o = sh("git apply %s" % os.path.join(d, "patch.diff"), cwd=wt)
        if rc != 0:
            rc, o = sh("git apply --3way %s" % os.path.join(d, "patch.diff"), cwd=wt)
        if rc != 0:
            out["status"] = "patch no longer applies"
            return out
        if any(f.endswith(".c") for f in meta.get("patch_files", [])):
            sh("/venv/bin/python setup.py build_ext --inplace", cwd=wt)
        caught = []
        for c in checks:
            e = dict(os.environ, VERIF_REPO=wt)
            p = subprocess.run([os.path.join(HERE, "check"), c, "--tier", "quick", "--no-evidence"], capture_output=True, text=True, env=e, cwd=HERE)
            sigs = re.findall(r"signature=(\S+)", p.stdout)
            for f in re.findall(r"replay=(\S+)", p.stdout):
                try:
                    os.unlink(f)
                except OSError:
                    pass
            out["checks"][c] = {"rc": p.returncode, "signatures": sorted(set(sigs))[:6]}
            if p.returncode == 1:
                caught.append(c)
        out["caught_by"] = caught
        out["status"] = "caught" if caught else "MISSED"
        return out
    finally:
        sh("git -C %s worktree remove --force %s" % (REPO, wt))
        sh("rm -rf %s" % wt)


def main():
    args = [a for a in sys.argv[1:] if not a.startswith("--")]
    jobs = int(sys.argv[sys.argv.index("--jobs") + 1]) if "--jobs" in sys.argv else 2
    if "--jobs" in sys.argv:
        args = [a for a in args if a != str(jobs)]
    names = sorted(n for n in os.listdir(os.path.join(HERE, "seeded")) if os.path.exists(os.path.join(HERE, "seeded", n, "meta.json")))
    if args != ["all"]:
        names = [n for n in names if n in args]
    _, head = sh("git -C %s rev-parse --short HEAD" % REPO)
    _, vhead = sh("git -C %s rev-parse --short HEAD" % HERE)
    path = os.path.join(HERE, "seeded", "REVALIDATION.json")
    doc = {"results": {}}
    if os.path.exists(path):
        doc = json.load(open(path))
    with ThreadPoolExecutor(jobs) as ex:
        for r in ex.map(one, names):
            r["repo_head"] = head.strip()
            r["verif_head"] = vhead.strip()
            doc["results"][r["name"]] = r
            print(r["name"], r["status"], r.get("caught_by"), flush=True)
            json.dump(doc, open(path, "w"), indent=1, sort_keys=True)
    missed = [n for n in names if doc["results"][n]["status"] == "MISSED"]
    print("revalidated", len(names), "missed", missed)
    return 1 if missed else 0


if __name__ == "__main__":
    sys.exit(main())
