#!/usr/bin/env python3
"""Confirm and file a seeded property-breaking change produced by an independent sub-agent.

usage: python3 tools_seeded.py <PROP> [--needs "..."] [--checks C01,C10] [--budget 60] [--skip-tests]

The change is expected as uncommitted edits in the scratch worktree /tmp/seed-<PROP> together with demo_<PROP>.py.
Steps (all in scratch worktrees, never in /repo):
  1. repository test suite with the change applied            (must pass)
  2. demo with the change (must exit != 0) and without it (must exit 0)
  3. quick tier of the listed checks with VERIF_REPO=<worktree> (recorded: caught or missed)
Writes /verif/seeded/<PROP>/{patch.diff, demo_<PROP>.py, meta.json}.
"""
import json
import os
import re
import shutil
import subprocess
import sys

HERE = os.path.dirname(os.path.abspath(__file__))


def sh(cmd, cwd=None, env=None, timeout=3600):
    p = subprocess.run(cmd, shell=True, cwd=cwd, env=env, capture_output=True, text=True, timeout=timeout)
    return p.returncode, (p.stdout + p.stderr)


def main():
    prop = sys.argv[1]
    args = sys.argv[2:]

    def opt(name, default=None):
        return args[args.index(name) + 1] if name in args else default

    wt = opt("--worktree", "/tmp/seed-%s" % prop)
    checks = opt("--checks", prop).split(",")
    budget = opt("--budget", "70")
    needs = opt("--needs", "")
    out = os.path.join(HERE, "seeded", opt("--out", prop))
    os.makedirs(out, exist_ok=True)
    env = dict(os.environ, PYTHONPATH=os.path.join(wt, "src"))
    if "--rerun" in args:
        # run the checks again (after they were strengthened) and keep the first result
        mp = os.path.join(out, "meta.json")
        meta = json.load(open(mp))
        meta.setdefault("checks_first_run", meta.get("checks"))
        meta.setdefault("caught_by_first_run", meta.get("caught_by"))
        meta["checks"] = {}
        for c in checks:
            e = dict(os.environ, VERIF_REPO=wt)
            p = subprocess.run([os.path.join(HERE, "check"), c, "--tier", "quick", "--no-evidence", "--budget", budget], capture_output=True, text=True, env=e, cwd=HERE)
            sigs = re.findall(r"signature=(\S+)", p.stdout)
            for f in re.findall(r"replay=(\S+)", p.stdout):
                try:
                    os.unlink(f)
                except OSError:
                    pass
            meta["checks"][c] = {"rc": p.returncode, "signatures": sigs[:10], "summary": p.stdout.strip().splitlines()[-1][:300] if p.stdout.strip() else ""}
            print("check", c, "rc", p.returncode, sigs[:4])
        meta["caught_by"] = [c for c, v in meta["checks"].items() if v["rc"] == 1]
        meta["note"] = "checks re-run after the generators were widened (see DESIGN.md section 10); checks_first_run keeps the first result"
        json.dump(meta, open(mp, "w"), indent=1)
        print("refiled", out, "caught_by", meta["caught_by"])
        return 0
    rc, diff = sh("git diff", cwd=wt)
    if not diff.strip():
        print("no change in", wt)
        return 1
    open(os.path.join(out, "patch.diff"), "w").write(diff)
    demo = "demo_%s.py" % prop
    shutil.copy(os.path.join(wt, demo), os.path.join(out, demo))
    meta = {"property": prop, "needs_to_manifest": needs, "patch_files": re.findall(r"^\+\+\+ b/(\S+)", diff, re.M), "ran": {}}
    if any(f.endswith(".c") for f in meta["patch_files"]):
        sh("/venv/bin/python setup.py build_ext --inplace", cwd=wt)
    # 1. test suite with the change
    if "--skip-tests" not in args:
        rc, o = sh("/venv/bin/python -m pytest -q -p no:cacheprovider -x tests 2>&1 | tail -3", cwd=wt, env=env)
        tail = o.strip().splitlines()[-1] if o.strip() else ""
        meta["ran"]["test_suite_with_change"] = tail
        print("tests with change:", tail)
        if "passed" not in tail or "failed" in tail or "error" in tail:
            meta["rejected"] = "existing test suite does not pass with the change"
    # 2. demo with / without
    rc_with, o_with = sh("/venv/bin/python %s" % demo, cwd=wt, env=env, timeout=600)
    touches_c = any(f.endswith(".c") for f in meta["patch_files"])
    # (not `git stash`: the stash is shared by all worktrees of a repository, so two filings running at the
    # same time would swap their changes)
    patch_path = os.path.join(out, "patch.diff")
    sh("git checkout -- .", cwd=wt)
    try:
        if touches_c:
            sh("/venv/bin/python setup.py build_ext --inplace", cwd=wt)
        rc_without, o_without = sh("/venv/bin/python %s" % demo, cwd=wt, env=env, timeout=600)
    finally:
        sh("git apply %s" % patch_path, cwd=wt)
        if touches_c:
            sh("/venv/bin/python setup.py build_ext --inplace", cwd=wt)
    meta["ran"]["demo_with_change_rc"] = rc_with
    meta["ran"]["demo_without_change_rc"] = rc_without
    meta["ran"]["demo_with_change_output_tail"] = o_with.strip()[-400:]
    print("demo rc with change:", rc_with, " without:", rc_without)
    if rc_with == 0 or rc_without != 0:
        meta["rejected"] = meta.get("rejected", "") + " demo does not discriminate"
    # 3. our checks against the changed tree
    meta["checks"] = {}
    for c in checks:
        e = dict(os.environ, VERIF_REPO=wt)
        p = subprocess.run([os.path.join(HERE, "check"), c, "--tier", "quick", "--no-evidence", "--budget", budget], capture_output=True, text=True, env=e, cwd=HERE)
        sigs = re.findall(r"signature=(\S+)", p.stdout)
        for f in re.findall(r"replay=(\S+)", p.stdout):
            try:
                os.unlink(f)
            except OSError:
                pass
        meta["checks"][c] = {"rc": p.returncode, "signatures": sigs[:10], "summary": p.stdout.strip().splitlines()[-1][:300] if p.stdout.strip() else ""}
        print("check", c, "rc", p.returncode, sigs[:4])
    meta["caught_by"] = [c for c, v in meta["checks"].items() if v["rc"] == 1]
    json.dump(meta, open(os.path.join(out, "meta.json"), "w"), indent=1)
    print("filed", out, "caught_by", meta["caught_by"], "rejected" if meta.get("rejected") else "")
    return 0


if __name__ == "__main__":
    sys.exit(main())
