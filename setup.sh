#!/bin/sh
# Offline setup: optional third-party helpers into ./.deps (git-ignored). No engine requires them.
here=$(cd "$(dirname "$0")" && pwd)
cd "$here" || exit 1
mkdir -p evidence replays
if [ -d /opt/veriftools/wheels ]; then
  /venv/bin/pip install --quiet --no-index --find-links /opt/veriftools/wheels --target "$here/.deps" icontract >/dev/null 2>&1 || echo "setup: icontract not installed (optional)"
fi
/venv/bin/python -c "import cryptography, pylsqpack; print('setup ok')"
