#!/usr/bin/env python3
"""Regenerate MANIFEST.json from the set of implemented property modules (vf/props/cNN.py).
Run: python3 tools_manifest.py   (validates against the schema when jsonschema is importable)"""
import importlib.util, json, os, re, subprocess, sys

HERE = os.path.dirname(os.path.abspath(__file__))
props = [json.loads(l) for l in open(os.path.join(HERE, "properties.jsonl"))]
META = json.load(open(os.path.join(HERE, "manifest_meta.json")))
checks, na = [], []
for p in props:
    pid = p["id"]
    path = os.path.join(HERE, "vf", "props", pid.lower() + ".py")
    mp = os.path.join(HERE, "vf", "props", pid.lower() + ".meta.json")
    m = json.load(open(mp)) if os.path.exists(mp) else None
    if os.path.exists(path) and m and pid in META.get("accepted", []):
        checks.append({
            "property_id": pid,
            "quick_cmd": "./check %s --tier quick" % pid,
            "thorough_cmd": "./check %s --tier thorough" % pid,
            "evidence_file": "evidence/%s.json" % pid,
            "replay_cmd_template": "./check %s --replay {path}" % pid,
            "engine": m.get("engine", "vf.runner"),
            "level_claimed": {"category": m.get("category", "exploration"), "text": m["text"], "design_ref": "DESIGN.md §3/" + pid},
            "level_note": m["note"],
            "technique": m["technique"],
        })
    else:
        na.append({"property_id": pid, "reason": META.get("na_reasons", {}).get(pid, "check not built yet in this session (work in progress); see DESIGN.md §3/" + pid)})
man = {
    "version": 1,
    "setup_cmd": META["setup_cmd"],
    "hooks": META["hooks"],
    "engines": META["engines"],
    "checks": checks,
    "notes": META["notes"],
    "not_applicable": na,
}
json.dump(man, open(os.path.join(HERE, "MANIFEST.json"), "w"), indent=1)
try:
    import jsonschema
    jsonschema.validate(man, json.load(open("/root/.vp/MANIFEST.schema.json")))
    print("MANIFEST.json valid; claimed:", [c["property_id"] for c in checks])
except ImportError:
    print("written (jsonschema not importable here)")
