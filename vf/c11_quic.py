"""C11 / W3: illegal server flights wrapped in QUIC packets toward a real client QuicConnection.

The rogue server (vf.c11_adversary.RogueServer) answers the client's Initial with a ServerHello in an
Initial packet (server Initial keys, vf.refcrypto) and the chosen flight in Handshake packets protected
with the handshake secret it derived itself.  Oracle: HandshakeCompleted appears iff the flight has the
legal form (decided by the same reference Model as W1/W2, no victim feedback); a message whose type is
not permitted closes the connection with CRYPTO_ERROR + unexpected_message (0x10a); the client emits no
1-RTT packet on an illegal flight.
"""

from __future__ import annotations

import os
import random

from . import c11_adversary as A
from . import refcrypto as rc
from .frames import enc_varint, f_ack, f_crypto, f_padding
from .refwire import Tap

ADDR = ("192.0.2.1", 4433)
CRYPTO_UNEXPECTED_MESSAGE = 0x100 + 10


def tp(pid: int, value: bytes) -> bytes:
    return enc_varint(pid) + enc_varint(len(value)) + value


def long_packet(keys, ptype: str, dcid: bytes, scid: bytes, pn: int, payload: bytes) -> bytes:
    code = {"initial": 0, "handshake": 2}[ptype]
    pn_len = 2
    first = 0xC0 | (code << 4) | (pn_len - 1)
    hdr = bytes([first]) + rc.V1.to_bytes(4, "big") + bytes([len(dcid)]) + dcid + bytes([len(scid)]) + scid
    if ptype == "initial":
        hdr += enc_varint(0)
    hdr += enc_varint(pn_len + len(payload) + 16, 2)
    return rc.protect(keys, hdr, pn, pn_len, payload)


class Flight:
    def __init__(self, sc, res, case):
        from aioquic.quic.configuration import QuicConfiguration
        from aioquic.quic.connection import QuicConnection
        from .props import c11 as P

        self.P = P
        self.sc, self.res, self.case = sc, res, case
        suite = sc["suite"]
        self.psk = os.urandom(48 if suite == 0x1302 else 32)
        cfg = QuicConfiguration(is_client=True, alpn_protocols=["vf"], server_name="localhost")
        cfg.supported_versions = [rc.V1]
        cfg.load_verify_locations(cafile=P.CA_FILE)
        if sc["psk"] == "sel":
            cfg.session_ticket = P.make_ticket(suite, self.psk, False)
        self.client = QuicConnection(configuration=cfg)
        self.now = 0.0
        self.events = []
        self.views = []
        self.tap = Tap({"client": 8, "server": 8})
        self.client.connect(ADDR, now=self.now)
        self.pump()
        crypto = {}
        first = None
        for v in self.views:
            if v.ptype == "initial" and v.error is None:
                first = first or v
                for f in v.frames:
                    if f["name"] == "CRYPTO":
                        crypto[f["offset"]] = f["data"]
        if first is None:
            raise RuntimeError("harness: cannot read the client's Initial: %r" % [v.brief() for v in self.views])
        hello = b""
        for off in sorted(crypto):
            if off != len(hello):
                raise RuntimeError("harness: gap in the client's CRYPTO stream")
            hello += crypto[off]
        self.odcid, self.client_cid = first.dcid, first.scid
        self.scid = os.urandom(8)
        params = tp(0x00, self.odcid) + tp(0x0F, self.scid) + tp(0x04, enc_varint(1 << 20)) + tp(0x08, enc_varint(16)) + tp(0x0E, enc_varint(4))
        km = sc["key_mode"]
        self.adv = A.RogueServer(km, suite, sc["group"], psk=self.psk, alpn=b"vf", ee_extensions=A.ext(0x39, params))
        self.adv.recv_client_hello(hello)
        self.model = P.Model("client", psk_ok=False, verify=True)
        self.client_initial_largest = max(v.pn for v in self.views if v.ptype == "initial" and v.pn is not None)

    def pump(self):
        while True:
            ev = self.client.next_event()
            if ev is None:
                break
            self.events.append(ev)
        for data, _addr in self.client.datagrams_to_send(now=self.now):
            self.views.extend(self.tap.on_datagram("client", data, self.now))
        while True:
            ev = self.client.next_event()
            if ev is None:
                break
            self.events.append(ev)

    def deliver(self, dgram: bytes):
        self.now += 0.001
        self.client.receive_datagram(dgram, ADDR, now=self.now)
        self.pump()

    def run(self, symbols, batched=False):
        """batched: a caller that reads several datagrams from its socket before it transmits — every handshake message
        travels in a datagram of its own and all of them are handed to receive_datagram() back to back; the adversary
        keeps its transcript equal to what the victim accepted (a refused message is not hashed by either), so nothing
        but the victim's decision to refuse stands between the illegal flight and completion."""
        P, res, adv, m = self.P, self.res, self.adv, self.model
        # ---- ServerHello
        if self.sc["psk"] == "sel":
            sh = adv.server_hello(psk_index=0, seed_with_psk=True)
            if not adv.binder_ok:
                raise RuntimeError("harness: binder mismatch")
            m.psk_ok = True
        else:
            sh = adv.server_hello()
        m.s = "EE"
        suite_name = rc.SUITE_BY_CODE[adv.suite]
        self.tap.add_secret("CLIENT_HANDSHAKE_TRAFFIC_SECRET", adv.sched.c_hs)
        _c_init, s_init = rc.initial_keys(rc.V1, self.odcid)
        hs_keys = rc.Keys(suite_name, adv.sched.s_hs, rc.V1)
        # ---- flight, predicted by the model without feedback (first non-accept ends the connection)
        stream = b""
        pieces = []
        illegal = False
        first_bad = None
        for sym in symbols:
            spec = P.SYM[sym]
            t = spec["t"]
            facts = {}
            if t == P.T_CV:
                data = adv.certificate_verify()
                facts = {"sig_valid": adv.ident.key_matches_cert and m.clean, "chain_valid": adv.ident.cert_is_authentic}
            elif t == P.T_FIN:
                data = adv.finished()
                facts = {"mac_ok": m.clean}
            else:
                cp = adv.sched.checkpoint() if batched else None
                data = adv.typed(t)
            stream += data
            pieces.append(data)
            if first_bad is None or batched:
                pred = m.predict(t, facts)
                if pred["kind"] == "ACCEPT":
                    m.advance(t, pred, True)
                else:
                    if first_bad is None:
                        first_bad = (pred, m.state_name(), A.type_name(t))
                    if batched and pred["kind"] == "REFUSE" and t not in (P.T_CV, P.T_FIN):
                        adv.sched.restore(cp)  # refused: in nobody's transcript
                        if m.s != "POST":
                            illegal = True  # (a message after the legal flight has completed comes too late to matter)
                    else:
                        m.clean = False
        # exactly legal: must complete. legal prefix followed by more messages in the same delivery: either (the
        # alert for the trailing message may pre-empt the HandshakeCompleted event). anything else: must not complete.
        legal_prefix = m.s == "POST" and not illegal
        expect_complete = legal_prefix and first_bad is None
        # ---- packets
        payload = f_ack([(0, self.client_initial_largest)]) + f_crypto(0, sh)
        pkt = long_packet(s_init, "initial", self.client_cid, self.scid, 0, payload + f_padding(1200 - 60 - len(payload)))
        self.deliver(pkt)
        off = 0
        pn = 0
        chunk = 1000
        if batched:
            res.count("w3_batched_flights")
            pkts = []
            for piece in pieces:
                for o in range(0, len(piece), chunk):
                    part = piece[o : o + chunk]
                    pkts.append(long_packet(hs_keys, "handshake", self.client_cid, self.scid, pn, f_crypto(off, part) + f_padding(4)))
                    off += len(part)
                    pn += 1
            if batched == "coalesced":
                # ... or all of them coalesced into one UDP datagram (RFC 9000 12.2), every message in a packet of its own
                res.count("w3_coalesced_flights")
                self.now += 0.0001
                self.client.receive_datagram(b"".join(pkts), ADDR, now=self.now)
            else:
                for pkt in pkts:
                    self.now += 0.0001
                    self.client.receive_datagram(pkt, ADDR, now=self.now)
            self.pump()
        while not batched and off < len(stream):
            part = stream[off : off + chunk]
            self.deliver(long_packet(hs_keys, "handshake", self.client_cid, self.scid, pn, f_crypto(off, part) + f_padding(4)))
            off += len(part)
            pn += 1
        # ---- let the close (if any) surface as an event
        terminated = None
        for _ in range(8):
            terminated = next((e for e in self.events if type(e).__name__ == "ConnectionTerminated"), None)
            if terminated is not None or first_bad is None:
                break
            t = self.client.get_timer()
            if t is None:
                break
            self.now = max(self.now, t)
            self.client.handle_timer(now=self.now)
            self.pump()
        completed = any(type(e).__name__ == "HandshakeCompleted" for e in self.events)
        close_codes = [f["error_code"] for v in self.views if v.error is None for f in v.frames if f["name"] == "CONNECTION_CLOSE"]
        short = [v for v in self.views if v.ptype == "1rtt"]
        witness = {"scenario": self.sc, "seq": symbols, "events": [type(e).__name__ for e in self.events],
                   "terminated": repr(terminated), "close_codes": close_codes, "first_non_accept": first_bad,
                   "tls_state": self.client.tls.state.name, "client_packets": [v.brief() for v in self.views][-8:]}
        res.count("w3_flights")
        res.evaluations += 1
        res.count("w3_close_code:%s" % (hex(terminated.error_code) if terminated is not None else "none"))
        if legal_prefix and not expect_complete:
            res.count("obs_w3_legal_prefix_plus_trailing:" + ("completed" if completed else "not_completed"))
        if completed and not legal_prefix:
            res.violation("w3:handshake-completed-on-illegal-flight:psk_ok=%s%s" % (m.psk_ok, (":coalesced-packets" if batched == "coalesced" else ":batched-datagrams") if batched else ""),
                          "HandshakeCompleted after flight %s" % symbols, self.case, witness)
        if expect_complete and not completed:
            res.violation("w3:legal-flight-not-completed", "no HandshakeCompleted after %s" % symbols, self.case, witness)
        if completed and expect_complete:
            res.count("w3_completed_legal")
            res.count("completed_legal")
        if not legal_prefix and short:
            res.violation("w3:1rtt-packet-on-illegal-flight", "client emitted a short-header packet", self.case, witness)
        if first_bad is not None and not (expect_complete and completed):
            pred = first_bad[0]
            if pred["kind"] == "REFUSE":
                res.count("w3_refusals_checked")
                code = terminated.error_code if terminated is not None else None
                if code != CRYPTO_UNEXPECTED_MESSAGE:
                    res.violation("w3:refusal-close-code:%s:%s:%s" % (hex(code) if code is not None else "none", first_bad[1], first_bad[2]),
                                  "expected CRYPTO_ERROR+unexpected_message (0x10a)", self.case, witness)
                elif CRYPTO_UNEXPECTED_MESSAGE in close_codes:
                    res.count("w3_close_frame_0x10a_seen_on_wire")
            elif pred["kind"] == "FAIL":
                res.count("w3_verification_failures")
                if terminated is None:
                    res.violation("w3:unverified-accepted:%s:%s" % (first_bad[2], pred["reason"]), "no close after a message that must not verify",
                                  self.case, witness)
        res.nontrivial.add("w3:" + self.P.h(self.sc["key_mode"], self.sc["psk"], tuple(symbols[:]), completed,
                                            terminated.error_code if terminated is not None else None))
        return completed, witness


def run_w3(batch, res):
    from .props import c11 as P

    sc = P.scenario_details(batch["scenario"], batch["seed"])
    sc["suite"] = random.Random(batch["seed"]).choice([0x1301, 0x1302, 0x1303])
    k = len(P.CLIENT_ALPHABET)
    idxs = list(range(batch["lo"], batch["hi"], batch.get("stride", 1)))
    # always include the legal flights
    legal = [["EE", "FIN"]] if sc["psk"] == "sel" else [["EE", "CERT", "CV", "FIN"], ["EE", "CR", "CERT", "CV", "FIN"]]
    flights = [[P.CLIENT_ALPHABET[d] for d in P.seq_of(i, k)] for i in idxs]
    if batch["lo"] == 0:
        flights = legal + [f + ["EE"] for f in legal] + flights
    for n, symbols in enumerate(flights):
        case = {"gen": "w3_one", "scenario": sc, "seq": symbols}
        completed, witness = Flight(sc, res, case).run(symbols)
        Flight(sc, res, dict(case, batched=True)).run(symbols, batched=True)
        Flight(sc, res, dict(case, batched="coalesced")).run(symbols, batched="coalesced")
        if n < 2:
            res.sample({"gen": "w3", "scenario": {x: sc[x] for x in ("key_mode", "psk")}, "seq": symbols, "completed": completed,
                        "events": witness["events"], "terminated": witness["terminated"]}, limit=2)


def run_w3_one(batch, res):
    Flight(batch["scenario"], res, batch).run(batch["seq"], batched=batch.get("batched") or False)
