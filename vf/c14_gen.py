"""C14 workload generators that need no aioquic: the short-stream catalogue (exhaustive
splittings), short-stream pairs (all interleavings), the frame-level random case generator and
the splitting / interleaving schedule generators."""

from __future__ import annotations

import random

from .c14_lib import (
    Case,
    MiniQpack,
    Phase,
    T_DATA,
    T_HEADERS,
    T_MAX_PUSH_ID,
    T_PUSH_PROMISE,
    T_SETTINGS,
    T_WT,
    chunks_for,
    h3frame,
    merge_random,
    merge_round_robin,
    merge_sequential,
    stream_layout,
)
from .frames import enc_varint

EXH_MAX = 14  # streams up to this many bytes get all 2^(n-1) splittings

# ------------------------------------------------------------------ building blocks

REQ_LINES = [("s", 17), ("sn", 0, b"a")]  # :method GET, :authority a
RESP_LINES = [("s", 25)]  # :status 200
PP_LINES = [("s", 17), ("s", 23), ("s", 1), ("sn", 0, b"a")]  # a complete promised request


def settings_payload(pairs):
    return b"".join(enc_varint(k) + enc_varint(v) for k, v in pairs)


def control_stream(sender_is_client, pairs=((1, 4096), (7, 16)), max_push=8, extra=b""):
    b = enc_varint(0) + h3frame(T_SETTINGS, settings_payload(pairs))
    if sender_is_client and max_push is not None:
        b += h3frame(T_MAX_PUSH_ID, enc_varint(max_push))
    return b + extra


class Alloc:
    def __init__(self, recv_client):
        self.sender_is_client = not recv_client
        self._uni = 2 if self.sender_is_client else 3
        self._req = 0
        self._srv_bidi = 1

    def uni(self):
        v = self._uni
        self._uni += 4
        return v

    def req(self):
        v = self._req
        self._req += 4
        return v

    def own_bidi(self):
        """a bidirectional stream the sender opens itself (WebTransport)"""
        if self.sender_is_client:
            return self.req()
        v = self._srv_bidi
        self._srv_bidi += 4
        return v


# ------------------------------------------------------------------ short-stream catalogue


def _base_case(recv_client, wt=False, with_dyn=False):
    """control + encoder (+ decoder) streams of the sender as context; returns (case, alloc, mq, enc_sid)."""
    c = Case(recv_client, wt)
    al = Alloc(recv_client)
    ph = c.phases[0]
    ctl = al.uni()
    enc = al.uni()
    dec = al.uni()
    pairs = [(1, 4096), (7, 16)]
    if wt:
        pairs += [(0x33, 1), (0x2B603742, 1)]
    ph.add_stream(ctl, control_stream(al.sender_is_client, pairs))
    mq = MiniQpack()
    ph.add_stream(enc, enc_varint(2) + mq.take_enc())
    ph.add_stream(dec, enc_varint(3))
    return c, al, mq, enc


def short_catalog():
    """Deterministic list of items {case, target, orders, label}.  `target` is the key of the stream
    (<= EXH_MAX bytes) that receives every splitting; `orders` lists the context placements:
    'ref' (target at its sender-order position, everything else whole) and 'ctx-last' (target first,
    every other stream whole afterwards: a target that references the dynamic table is then blocked
    while it is being split and resumes when the encoder stream arrives)."""
    items = []

    def add(label, recv_client, body, kind="msg", fin=True, wt=False, dyn=None, orders=("ref",), truncs=False, pre=b""):
        """kind: msg (request / response stream), push, uni (body already carries the stream type),
        ownbidi (a bidirectional stream opened by the sender)."""
        bodies = [(label, body, fin)]
        if truncs:
            for n in range(0, len(body)):
                bodies.append(("%s|trunc%d" % (label, n), body[:n], True))
            bodies.append((label + "|open", body, False))
        for lab, bd, fn in bodies:
            if len(bd) > EXH_MAX:
                raise AssertionError("catalogue stream too long: %s %d" % (lab, len(bd)))
            c, al, mq, enc = _base_case(recv_client, wt)
            ph = c.phases[0]
            if dyn is not None:
                dyn(mq)
                ph.add_stream(enc, mq.take_enc())
            if kind == "msg":
                sid = al.req()
            elif kind == "ownbidi":
                sid = al.own_bidi()
            else:
                sid = al.uni()
            ph.add_stream(sid, bd, fn)
            c.label = lab
            items.append({"case": c, "target": sid, "orders": list(orders), "label": lab})

    mq0 = MiniQpack()
    REQ = h3frame(T_HEADERS, mq0.block(REQ_LINES))  # 8 bytes
    RESP = h3frame(T_HEADERS, mq0.block(RESP_LINES))  # 5 bytes
    TRL0 = h3frame(T_HEADERS, mq0.block([]))  # 4 bytes: empty field section (pylsqpack's decoder rejects it)
    TRL = h3frame(T_HEADERS, mq0.block([("s", 29)]))  # 5 bytes: trailer section "accept: */*"
    PP = h3frame(T_PUSH_PROMISE, enc_varint(3) + mq0.block(PP_LINES))
    assert len(REQ) == 8 and len(RESP) == 5 and len(TRL0) == 4 and len(TRL) == 5, (len(REQ), len(RESP), len(TRL0))

    def D(b, **kw):
        return h3frame(T_DATA, b, **kw)

    # --- requests (receiver = server)
    add("req", False, REQ, truncs=True)
    for k in range(0, 5):
        add("req+D%d" % k, False, REQ + D(b"abcde"[:k]), truncs=(k in (0, 4)))
    add("req+D0+D1", False, REQ + D(b"") + D(b"x"))
    add("req+D1+D0", False, REQ + D(b"x") + D(b""), truncs=True)
    add("req+G0+D1", False, REQ + h3frame(0x21, b"") + D(b"x"))
    add("req+D1+G1", False, REQ + D(b"x") + h3frame(0x21, b"z"), truncs=True)
    add("req+G2", False, REQ + h3frame(0x21, b"zz"))
    add("req+trl", False, REQ + TRL, truncs=True)
    add("req+emptytrl", False, REQ + TRL0)
    add("req+D2(len2)", False, REQ + D(b"xy", lsize=2))
    add("req+D1(type2)", False, REQ + D(b"x", tsize=2))
    add("req+G1(type2)", False, REQ + h3frame(0x21 + 0x1F * 5, b"q", tsize=2, lsize=2))
    add("req+reserved", False, REQ + h3frame(0x2, b""))
    add("req+settings", False, REQ + h3frame(T_SETTINGS, b""))
    add("D1-first", False, D(b"x") + REQ)
    add("resp+trl+D0", True, RESP + TRL + D(b""))
    add("req+PP", False, REQ + h3frame(T_PUSH_PROMISE, b"\x00"))
    add("req+D-declared-longer", False, REQ + D(b"abc", declared=5))  # F12 shape
    add("fin-only", False, b"")
    add("wtbidi", False, h3frame(T_WT, b"", declared=8) + b"hello"[:5], wt=True, truncs=True)
    add("req+wtbidi", False, REQ + enc_varint(T_WT) + enc_varint(4) + b"hi", wt=True)
    # --- responses (receiver = client)
    add("resp", True, RESP, truncs=True)
    for k in (0, 1, 2, 3, 5, 7):
        add("resp+D%d" % k, True, RESP + D(b"abcdefg"[:k]), truncs=(k == 7))
    add("resp+D2+D3", True, RESP + D(b"ab") + D(b"cde"), truncs=True)
    add("resp+D1+trl", True, RESP + D(b"x") + TRL, truncs=True)
    add("resp+D0+G0+trl", True, RESP + D(b"") + h3frame(0x21, b"") + TRL)
    add("resp+D2+trl", True, RESP + D(b"xy") + TRL)
    add("resp+trl+trl", True, RESP + TRL + TRL[:4])
    add("resp+G3+D2", True, RESP + h3frame(0x21, b"abc") + D(b"xy"))
    add("resp+D3+G0", True, RESP + D(b"abc") + h3frame(0x21, b""))
    add("resp+D(len8)", True, RESP + D(b"", lsize=8))
    add("resp+D-declared-longer", True, RESP + D(b"abcd", declared=9), truncs=True)
    add("PP", True, PP)
    add("PP-trunc", True, PP[:-2])
    add("resp+reserved9", True, RESP + h3frame(0x9, b"ab") + D(b"z"))
    add("wtbidi-srv", True, enc_varint(T_WT) + enc_varint(0) + b"abcdef", kind="ownbidi", wt=True)
    # --- push streams (receiver = client)
    add("push", True, enc_varint(1) + enc_varint(2) + RESP + D(b"abc"), kind="uni", truncs=True)
    add("push(id2)", True, enc_varint(1) + enc_varint(5, 2) + RESP + D(b"abcd"), kind="uni")
    add("push+G", True, enc_varint(1) + enc_varint(0) + RESP + D(b"a") + h3frame(0x21, b""), kind="uni")
    add("push(type2)", True, enc_varint(1, 2) + enc_varint(7) + RESP + D(b"xy", lsize=2), kind="uni")
    # --- WebTransport unidirectional, GREASE and unknown unidirectional streams
    for rc in (False, True):
        add("wtuni/%d" % rc, rc, enc_varint(0x54) + enc_varint(4) + b"payload", kind="uni", wt=True, truncs=not rc)
        add("wtuni(sid2)/%d" % rc, rc, enc_varint(0x54) + enc_varint(8, 2) + b"pl", kind="uni", wt=True)
        add("grease-uni/%d" % rc, rc, enc_varint(0x21) + b"\x00\x04junk", kind="uni")
        add("grease-uni8/%d" % rc, rc, enc_varint(0x21 + 0x1F * 1000000007, 8) + b"\x01\x00", kind="uni", truncs=rc)
        add("fin-only-uni/%d" % rc, rc, b"", kind="uni")
    # --- a second control stream / decoder stream etc. are connection errors (one fault)
    add("second-control", False, control_stream(True, ((1, 0),), None), kind="uni")
    add("second-encoder", True, enc_varint(2) + b"\x3f\xe1\x1f", kind="uni")
    # --- control stream as target: replace the context control stream by a custom short one
    for rc in (False, True):
        for lab, body, fin in (
            ("ctl", control_stream(not rc, ((1, 100), (7, 8)), 7), False),
            ("ctl+G", control_stream(not rc, ((7, 2),), None, h3frame(0x21, b"gg") + h3frame(0x7, b"\x00")), False),
            ("ctl-fin", control_stream(not rc, ((7, 2),), None), True),
            ("ctl-no-settings", enc_varint(0) + h3frame(0x7, b"\x00"), False),
            ("ctl-settings-twice", enc_varint(0) + h3frame(T_SETTINGS, b"") + h3frame(T_SETTINGS, b""), False),
            ("ctl-data", enc_varint(0) + h3frame(T_SETTINGS, b"\x07\x02") + h3frame(T_DATA, b"x"), False),
            ("ctl-reserved-setting", enc_varint(0) + h3frame(T_SETTINGS, b"\x02\x00"), False),
        ):
            if len(body) > EXH_MAX:
                raise AssertionError(lab)
            c = Case(rc)
            al = Alloc(rc)
            sid = al.uni()
            c.phases[0].add_stream(sid, body, fin)
            # a request/response after it so that something observable follows
            c.phases[0].add_stream(al.req(), (RESP if rc else REQ) + D(b"k"), True)
            c.label = "%s/%d" % (lab, rc)
            items.append({"case": c, "target": sid, "orders": ["ref", "ctx-first"], "label": c.label})

    # --- dynamic table: response / request referencing inserted entries; target = message stream
    def dyn1(mq):
        mq.insert(b"x-a", b"b")

    def dyn2(mq):
        mq.insert(b"x-a", b"b")
        mq.insert(b"x-a", b"c", dyn_name=0)

    for rc in (False, True):
        mq = MiniQpack()
        dyn2(mq)
        first = REQ_LINES if not rc else RESP_LINES
        H1 = h3frame(T_HEADERS, mq.block(first + [("d", 0)]))
        H2 = h3frame(T_HEADERS, mq.block(first + [("d", 1), ("d", 0)]))
        TR = h3frame(T_HEADERS, mq.block([("d", 1)]))
        room = EXH_MAX - len(H1)
        add("dyn/%d" % rc, rc, H1, dyn=dyn2, orders=("ref", "ctx-last"), truncs=True)
        add("dyn+D/%d" % rc, rc, H1 + D(b"abcd"[: max(0, room - 2)]), dyn=dyn2, orders=("ref", "ctx-last"))
        if len(H1) + 2 + len(TR) <= EXH_MAX:
            add("dyn+D0+dyntrl/%d" % rc, rc, H1 + D(b"") + TR, dyn=dyn2, orders=("ref", "ctx-last"))
        if len(H2) + 3 <= EXH_MAX:
            add("dyn2+D1/%d" % rc, rc, H2 + D(b"q"), dyn=dyn2, orders=("ref", "ctx-last"))
        if len(H1) + 2 <= EXH_MAX:
            add("dyn+G0/%d" % rc, rc, H1 + h3frame(0x21, b""), dyn=dyn2, orders=("ref", "ctx-last"))
        if len(H1) + 4 <= EXH_MAX:
            add("dyn+D-declared-longer/%d" % rc, rc, H1 + D(b"ab", declared=4), dyn=dyn2, orders=("ref", "ctx-last"))
    # push promise / push stream with dynamic references (receiver = client)
    mq = MiniQpack()
    mq.insert(b":authority", b"a", static_name=0)
    PPD = h3frame(T_PUSH_PROMISE, enc_varint(1) + mq.block([("s", 17), ("s", 23), ("s", 1), ("d", 0)]))

    def dyn_auth(m):
        m.insert(b":authority", b"a", static_name=0)

    add("dynPP", True, PPD, dyn=dyn_auth, orders=("ref", "ctx-last"))
    mq = MiniQpack()
    dyn1(mq)
    add("dynpush", True, enc_varint(1) + enc_varint(1) + h3frame(T_HEADERS, mq.block(RESP_LINES + [("d", 0)])) + D(b"abc"),
        kind="uni", dyn=dyn1, orders=("ref", "ctx-last"))

    # --- encoder stream as target, with a stream that references it delivered before (blocked) or after
    for rc in (False, True):
        for nins in (1, 2):
            c = Case(rc)
            al = Alloc(rc)
            ph = c.phases[0]
            ctl, enc, dec = al.uni(), al.uni(), al.uni()
            ph.add_stream(ctl, control_stream(al.sender_is_client))
            mq = MiniQpack()
            mq.insert(b"x-a", b"b")
            if nins == 2:
                mq.insert(b"x-a", b"c", dyn_name=0)
            encb = enc_varint(2) + mq.take_enc()
            assert len(encb) <= EXH_MAX, len(encb)
            ph.add_stream(enc, encb)
            first = REQ_LINES if not rc else RESP_LINES
            s1 = al.req()
            ph.add_stream(s1, h3frame(T_HEADERS, mq.block(first + [("d", 0)])) + D(b"one"), True)
            if nins == 2:
                s2 = al.req()
                ph.add_stream(s2, h3frame(T_HEADERS, mq.block(first + [("d", 1)])) + D(b"two") + h3frame(T_HEADERS, mq.block([("d", 0)])), True)
            c.label = "enc-target%d/%d" % (nins, rc)
            items.append({"case": c, "target": enc, "orders": ["ref", "ctx-first"], "label": c.label})
    return items


def short_random_item(rng: random.Random):
    """A random stream of <= EXH_MAX bytes (request / response / push stream built from tiny frames, possibly
    truncated, possibly referencing the dynamic table) in the same item format as the catalogue."""
    rc = rng.random() < 0.5
    c, al, mq, enc = _base_case(rc)
    ph = c.phases[0]
    use_dyn = rng.random() < 0.4
    if use_dyn:
        mq.insert(b"x-a", b"b")
        if rng.random() < 0.5:
            mq.insert(b"x-a", b"c", dyn_name=0)
        ph.add_stream(enc, mq.take_enc())
    first = RESP_LINES if rc else REQ_LINES
    push = rc and rng.random() < 0.25
    pre = b""
    if push:
        pre = enc_varint(1) + enc_varint(rng.randrange(0, 8), rng.choice([None, None, 2]))
    budget = rng.randint(len(pre) + 5, EXH_MAX)

    def hdr():
        lines = list(first)
        if use_dyn and rng.random() < 0.8:
            lines.append(("d", rng.randrange(len(mq.entries))))
        return h3frame(T_HEADERS, mq.block(lines))

    def trl():
        return h3frame(T_HEADERS, mq.block([("d", 0)] if use_dyn and rng.random() < 0.6 else [("s", 29)]))

    body = bytearray(pre)
    if rng.random() < 0.9:
        body += hdr()
    for _ in range(6):
        r = rng.random()
        if r < 0.45:
            k = rng.choice([0, 0, 1, 1, 2, 3])
            f = h3frame(T_DATA, bytes(rng.getrandbits(8) for _ in range(k)), tsize=rng.choice([None, None, None, 2]), lsize=rng.choice([None, None, 2]))
        elif r < 0.65:
            f = h3frame(rng.choice([0x21, 0x21, 0x40, 0x9]), bytes(rng.getrandbits(8) for _ in range(rng.choice([0, 0, 1, 2]))))
        elif r < 0.8:
            f = trl()
        elif r < 0.88:
            f = h3frame(T_DATA, b"ab", declared=rng.choice([3, 5]))  # payload cut short by the end of the stream
        elif r < 0.93:
            f = h3frame(rng.choice([0x2, 0x4, 0x7]), b"")
        else:
            f = hdr()
        if len(body) + len(f) > budget:
            break
        body += f
    body = bytes(body)
    if rng.random() < 0.25 and len(body) > 2:
        body = body[: rng.randrange(1, len(body))]
    fin = rng.random() < 0.85
    sid = al.uni() if push else al.req()
    ph.add_stream(sid, body, fin)
    c.label = "rand-short:%s%s%s/%d" % ("push" if push else "msg", ",dyn" if use_dyn else "", "" if fin else ",open", rc)
    return {"case": c, "target": sid, "orders": ["ref", "ctx-last"] if use_dyn else ["ref"], "label": c.label}


def item_cost(item):
    c = item["case"]
    d, f = c.full_streams()[item["target"]]
    n = len(d)
    return (1 << max(0, n - 1)) * (2 if f and n else 1) * len(item["orders"])


def exh_schedules(item):
    """(order label, mask, fin_alone, schedule) for every splitting of the target."""
    c = item["case"]
    ph = c.phases[0]
    tgt = item["target"]
    n = len(ph.data[tgt])
    fin = ph.fin[tgt]
    others = [k for k in ph.keys() if k != tgt]
    whole = {k: chunks_for(len(ph.data[k]), ph.fin[k], (), False) for k in others}
    keys = ph.keys()
    pos = keys.index(tgt) if tgt in keys else 0
    for order in item["orders"]:
        if order == "ref":
            before, after = keys[:pos], keys[pos + 1 :]
        elif order == "ctx-last":
            before, after = [], others
        else:  # ctx-first
            before, after = others, []
        pre = merge_sequential(whole, before)
        post = merge_sequential(whole, after)
        for mask in range(1 << max(0, n - 1)):
            cuts = [i + 1 for i in range(n - 1) if mask >> i & 1]
            for fin_alone in ((False, True) if fin and n else (False,)):
                mid = [[tgt, a, b] for a, b in chunks_for(n, fin, cuts, fin_alone)]
                yield order, mask, fin_alone, [pre + mid + post]


# ------------------------------------------------------------------ pairs of short streams


def pair_catalog():
    """Cases whose *second phase* holds two short streams A, B; every (splitting A, splitting B,
    interleaving) is a delivery.  Phase 1 (context) is delivered whole."""
    out = []
    mq0 = MiniQpack()
    REQ = h3frame(T_HEADERS, mq0.block(REQ_LINES))
    RESP = h3frame(T_HEADERS, mq0.block(RESP_LINES))

    def D(b, **kw):
        return h3frame(T_DATA, b, **kw)

    for rc in (False, True):
        first = REQ_LINES if not rc else RESP_LINES
        # (encoder-stream insert, message stream that references it)
        c = Case(rc)
        al = Alloc(rc)
        p1 = c.phases[0]
        ctl, enc, dec = al.uni(), al.uni(), al.uni()
        mq = MiniQpack()
        p1.add_stream(ctl, control_stream(al.sender_is_client))
        p1.add_stream(enc, enc_varint(2) + mq.take_enc())
        p2 = Phase()
        c.phases.append(p2)
        mq.insert(b"k", b"v")
        p2.add_stream(enc, mq.take_enc())
        s = al.req()
        p2.add_stream(s, h3frame(T_HEADERS, mq.block(first + [("d", 0)])), True)
        c.label = "pair:enc+msg/%d" % rc
        out.append({"case": c, "a": enc, "b": s, "label": c.label})
        # (message stream, message stream) sharing one dynamic entry, encoder stream in phase 1
        c = Case(rc)
        al = Alloc(rc)
        p1 = c.phases[0]
        ctl, enc, dec = al.uni(), al.uni(), al.uni()
        mq = MiniQpack()
        mq.insert(b"k", b"v")
        p1.add_stream(ctl, control_stream(al.sender_is_client))
        p1.add_stream(enc, enc_varint(2) + mq.take_enc())
        p2 = Phase()
        c.phases.append(p2)
        sa, sb = al.req(), al.req()
        p2.add_stream(sa, h3frame(T_HEADERS, mq.block(first + [("d", 0)])), True)
        p2.add_stream(sb, (REQ if not rc else RESP) + D(b"z"), True)
        c.label = "pair:msg+msg/%d" % rc
        out.append({"case": c, "a": sa, "b": sb, "label": c.label})
        # (control stream, message stream)
        c = Case(rc)
        al = Alloc(rc)
        c.phases.append(Phase())
        p2 = c.phases[1]
        ctl = al.uni()
        p2.add_stream(ctl, control_stream(al.sender_is_client, ((7, 2),), None))
        s = al.req()
        p2.add_stream(s, (REQ if not rc else RESP) + D(b""), True)
        c.label = "pair:ctl+msg/%d" % rc
        out.append({"case": c, "a": ctl, "b": s, "label": c.label})
    # push promise on a response + the push stream (receiver = client)
    c = Case(True)
    al = Alloc(True)
    p1 = c.phases[0]
    ctl, enc, dec = al.uni(), al.uni(), al.uni()
    mq = MiniQpack()
    mq.insert(b":authority", b"a", static_name=0)
    p1.add_stream(ctl, control_stream(False))
    p1.add_stream(enc, enc_varint(2) + mq.take_enc())
    p2 = Phase()
    c.phases.append(p2)
    s = al.req()
    p2.add_stream(s, h3frame(T_PUSH_PROMISE, enc_varint(0) + mq.block([("s", 17), ("s", 23), ("s", 1), ("d", 0)])), True)
    ps = al.uni()
    p2.add_stream(ps, enc_varint(1) + enc_varint(0) + RESP + D(b"p"), True)
    c.label = "pair:pp+push"
    out.append({"case": c, "a": s, "b": ps, "label": c.label})
    return out


def count_pair(item):
    """number of (splitting A, splitting B, interleaving) combinations, FIN riding on the last chunk
    or alone"""
    from math import comb

    ph = item["case"].phases[-1]
    tot = 0
    la, lb = len(ph.data[item["a"]]), len(ph.data[item["b"]])
    fa, fb = ph.fin[item["a"]], ph.fin[item["b"]]
    for ka in range(1, la + 1):
        for kb in range(1, lb + 1):
            for ea in ((0, 1) if fa else (0,)):
                for eb in ((0, 1) if fb else (0,)):
                    tot += comb(la - 1, ka - 1) * comb(lb - 1, kb - 1) * comb(ka + ea + kb + eb, ka + ea)
    return tot


# ------------------------------------------------------------------ frame-level random cases

SPECIAL = (0, 1, 63, 64, 16383, 16384)
NAMES = [b"x-a", b"x-trace-id", b"accept-language", b"k", b"cache-control", b"x-%s" % (b"n" * 40)]


def _payload(rng, n):
    return bytes(rng.getrandbits(8) for _ in range(n)) if n < 64 else (bytes(rng.getrandbits(8) for _ in range(32)) * (n // 32 + 1))[:n]


def _grease_type(rng):
    return 0x21 + 0x1F * rng.choice([0, 1, 2, 5, 1000, 1 << 20, (1 << 40) + 7])


def _vs(rng, v, wide=0.15):
    """varint size: mostly minimal, sometimes wider"""
    if rng.random() >= wide:
        return None
    m = 1 if v < 64 else 2 if v < 16384 else 4 if v < (1 << 30) else 8
    return rng.choice([s for s in (1, 2, 4, 8) if s >= m])


def _value(rng, n=None):
    if n is None:
        n = rng.choice([0, 1, 2, 5, 12, 30, 100])
    if n == 0:
        return b""
    body = bytes(rng.choice(b"abcdefghijklmnopqrstuvwxyz0123456789-_=;, /") for _ in range(n))
    if body[0] in b" \t":
        body = b"x" + body[1:]
    if body[-1] in b" \t":
        body = body[:-1] + b"x"
    return body


def gen_frames_case(rng: random.Random):
    """One frame-level case (single phase).  At most one stream carries a deliberate protocol error
    (case.faults == 1); FIN placement inside a frame is a shape, not a fault."""
    rc = rng.random() < 0.5
    wt = rng.random() < 0.35
    c = Case(rc, wt)
    al = Alloc(rc)
    ph = c.phases[0]
    mq = MiniQpack()
    ctl, enc, dec = al.uni(), al.uni(), al.uni()
    tags = set()
    fault = rng.choice([None] * 30 + ["data-first", "headers-after-trailers", "reserved-frame", "content-length", "bad-qpack",
                                      "short-headers", "second-control", "control-fin", "settings-twice", "no-settings",
                                      "uppercase-name", "enc-garbage", "empty-datagram", "pp-from-client"])
    pairs = [(1, 4096), (7, 16)]
    if wt:
        pairs += [(0x33, 1), (0x2B603742, 1)]
    if rng.random() < 0.5:
        pairs.append((0x21 + 0x1F * rng.randrange(1, 1000), rng.randrange(0, 1 << 20)))
    rng.shuffle(pairs)
    ctlb = enc_varint(0, _vs(rng, 0))
    if fault == "no-settings":
        ctlb += h3frame(0x7, b"\x00")
        c.faults = 1
    ctlb += h3frame(T_SETTINGS, settings_payload(pairs), tsize=_vs(rng, 4), lsize=_vs(rng, 20))
    if fault == "settings-twice":
        ctlb += h3frame(T_SETTINGS, b"")
        c.faults = 1
    if al.sender_is_client and rng.random() < 0.8:
        ctlb += h3frame(T_MAX_PUSH_ID, enc_varint(rng.choice([0, 8, 100, 70000])))
    for _ in range(rng.choice([0, 0, 1, 3])):
        ctlb += h3frame(rng.choice([_grease_type(rng), 0x7, 0x3]), _payload(rng, rng.choice([0, 1, 2, 70])), tsize=None)
    ph.add_stream(ctl, ctlb, fault == "control-fin")
    if fault == "control-fin":
        c.faults = 1
    ph.add_stream(enc, enc_varint(2, _vs(rng, 2)) + mq.take_enc())
    ph.add_stream(dec, enc_varint(3))
    if fault == "second-control":
        ph.add_stream(al.uni(), control_stream(al.sender_is_client, ((7, 1),), None))
        c.faults = 1

    dyn_streams = 0

    def header_lines(kind, body_len=None, allow_dyn=True, pad_to=None):
        nonlocal dyn_streams
        if kind == "req":
            lines = [("s", rng.choice([17, 20])), ("s", 23), ("sn", 0, b"example.org"), rng.choice([("s", 1), ("sn", 1, b"/p/" + _value(rng, 6))])]
            if rng.random() < 0.2:
                lines = [("s", 17), ("sn", 0, b"a")]
        elif kind == "resp":
            lines = [("s", rng.choice([25, 27]))]
        else:
            lines = []
        used_dyn = False
        for _ in range(rng.choice([0, 1, 2, 4, 9])):
            r = rng.random()
            name = rng.choice(NAMES)
            if r < 0.35 and allow_dyn:
                # insert (if room) and reference
                val = _value(rng)
                if mq.room(name, val) and rng.random() < 0.7:
                    sn = None
                    dn = None
                    cands = [i for i, e in enumerate(mq.entries) if e[0] == name]
                    if cands and rng.random() < 0.5:
                        dn = rng.choice(cands)
                    idx = mq.insert(name, val, dyn_name=dn)
                    lines.append(("d", idx))
                    used_dyn = True
                elif mq.entries:
                    lines.append(("d", rng.randrange(len(mq.entries))))
                    used_dyn = True
            elif r < 0.45 and allow_dyn and mq.entries:
                i = rng.randrange(len(mq.entries))
                lines.append(("dn", i, _value(rng)))
                used_dyn = True
            elif r < 0.6:
                lines.append(rng.choice([("s", 29), ("s", 53), ("sn", 95, _value(rng, 9)), ("sn", 5, b"a=b; c=" + _value(rng, 5))]))
            else:
                lines.append(("l", name, _value(rng)))
        if kind == "trl" and not lines:
            lines.append(("s", 29))  # an empty field section is rejected by pylsqpack's decoder
        if body_len is not None:
            lines.append(("sn", 4, b"%d" % body_len))
        if fault == "uppercase-name" and kind in ("req", "resp") and c.faults == 0:
            lines.append(("l", b"X-Upper", b"1"))
            c.faults = 1
        if pad_to is not None:
            cur = len(mq.block(lines))
            need = pad_to - cur
            if need >= 6:
                # literal line with literal name "p": 1 + 1 + len(varint(n)) + n
                for n in range(max(0, need - 8), need):
                    ln = ("l", b"p", b"v" * n)
                    if len(mq.block(lines + [ln])) == pad_to:
                        lines.append(ln)
                        break
        if used_dyn:
            dyn_streams += 1
        return lines

    def message(kind, allow_pp=False):
        """frames of one request / response (+ list of push ids promised)"""
        out = bytearray()
        promised = []
        n_data = rng.choice([0, 1, 1, 2, 3, 6])
        datas = []
        for _ in range(n_data):
            ln = rng.choice(SPECIAL) if rng.random() < 0.45 else rng.choice([2, 5, 100, 1000, 1200, 5000])
            datas.append(ln)
        total = sum(datas)
        cl = None
        if rng.random() < 0.3:
            cl = total
        if fault == "content-length" and c.faults == 0:
            cl = total + 1
            c.faults = 1
        if fault == "data-first" and c.faults == 0:
            out += h3frame(T_DATA, b"early")
            c.faults = 1
        pad = rng.choice([None] * 6 + [63, 64, 16383, 16384])
        if fault == "short-headers" and c.faults == 0:
            out += h3frame(T_HEADERS, rng.choice([b"", b"\x00"]))
            c.faults = 1
        elif fault == "bad-qpack" and c.faults == 0:
            # Required Insert Count 0: the garbage can never block, so its fate does not depend on the order
            out += h3frame(T_HEADERS, b"\x00" + _payload(rng, rng.choice([2, 3, 9, 40])))
            c.faults = 1
        else:
            blk = mq.block(header_lines(kind, cl, allow_dyn=dyn_streams < 10, pad_to=pad))
            if pad in (63, 64, 16383, 16384) and len(blk) == pad:
                tags.add("H%d" % pad)
            out += h3frame(T_HEADERS, blk, tsize=_vs(rng, 1), lsize=_vs(rng, len(blk)))
        for ln in datas:
            r = rng.random()
            if r < 0.25:
                out += h3frame(_grease_type(rng), _payload(rng, rng.choice([0, 1, 63, 64, 300])))
                tags.add("grease-frame")
            elif r < 0.35:
                out += h3frame(T_DATA, b"")
                tags.add("D0-between")
            elif r < 0.42 and allow_pp and len(promised) < 3:
                pid = rng.randrange(0, 8)
                promised.append(pid)
                out += h3frame(T_PUSH_PROMISE, enc_varint(pid, _vs(rng, pid, 0.3)) + mq.block(header_lines("req", allow_dyn=dyn_streams < 10)))
                tags.add("push-promise")
            elif r < 0.46:
                out += h3frame(rng.choice([0x6, 0x8, 0x9]), _payload(rng, rng.choice([0, 5])))
                tags.add("h2-reserved-ignored")
            out += h3frame(T_DATA, _payload(rng, ln), tsize=_vs(rng, 0), lsize=_vs(rng, ln))
            tags.add("D%d" % ln if ln in SPECIAL else "Dn")
        if rng.random() < 0.35:
            out += h3frame(T_HEADERS, mq.block(header_lines("trl", allow_dyn=dyn_streams < 10)))
            tags.add("trailers")
            if fault == "headers-after-trailers" and c.faults == 0:
                out += h3frame(T_HEADERS, mq.block([]))
                c.faults = 1
        if fault == "reserved-frame" and c.faults == 0:
            out += h3frame(rng.choice([0x2, 0x3, 0x4, 0x7, 0xD, 0xE]), b"")
            c.faults = 1
        if rng.random() < 0.15:
            out += h3frame(_grease_type(rng), _payload(rng, rng.choice([0, 3])))
            tags.add("grease-last")
        if fault == "pp-from-client" and kind == "req" and c.faults == 0:
            out += h3frame(T_PUSH_PROMISE, enc_varint(0) + mq.block(PP_LINES))
            c.faults = 1
        return bytes(out), promised

    def finish(sid, body):
        """choose where the stream ends"""
        r = rng.random()
        if r < 0.62 or not body:
            ph.add_stream(sid, body, True)
            tags.add("fin-boundary")
        elif r < 0.72:
            ph.add_stream(sid, body, False)
            tags.add("no-fin")
        else:
            lay = stream_layout(sid, body)
            frames = lay[2]
            if frames:
                f = rng.choice(frames)
                if rng.random() < 0.4 and f["ps"] is not None and f["ps"] - f["hs"] >= 2:
                    cut = rng.randrange(f["hs"] + 1, f["ps"])
                    tags.add("fin-in-header")
                elif f["ps"] is not None and f["end"] > f["ps"]:
                    cut = rng.randrange(f["ps"], f["end"])
                    tags.add("fin-in-payload")
                else:
                    cut = f["end"]
                ph.add_stream(sid, body[:cut], True)
            else:
                ph.add_stream(sid, body, True)

    n_msgs = rng.choice([1, 1, 2, 3, 5])
    kind = "resp" if rc else "req"
    promised_all = []
    for _ in range(n_msgs):
        sid = al.req()
        body, promised = message(kind, allow_pp=rc)
        promised_all += promised
        # flush encoder instructions *after* deciding the message so that encoder bytes for this
        # message sit before it in sender order (reference = never blocked)
        ph.add_stream(enc, mq.take_enc())
        finish(sid, body)
    if rc:
        for pid in promised_all[:3] + ([rng.randrange(0, 9)] if rng.random() < 0.3 else []):
            sid = al.uni()
            body, _ = message("resp")
            ph.add_stream(enc, mq.take_enc())
            finish(sid, enc_varint(1, _vs(rng, 1, 0.3)) + enc_varint(pid, _vs(rng, pid, 0.3)) + body)
            tags.add("push-stream")
    for _ in range(rng.choice([0, 0, 1, 2]) if wt else 0):
        sess = rng.choice([0, 4, 8, 400, 1 << 20])
        n = rng.choice([0, 1, 10, 1200, 20000])
        if rng.random() < 0.5:
            sid = al.uni()
            ph.add_stream(sid, enc_varint(0x54, rng.choice([2, 4])) + enc_varint(sess, _vs(rng, sess, 0.3)) + _payload(rng, n), rng.random() < 0.8)
            tags.add("wt-uni")
        else:
            sid = al.own_bidi()
            pre = b""
            ph.add_stream(sid, pre + enc_varint(T_WT, rng.choice([2, 4, 8])) + enc_varint(sess, _vs(rng, sess, 0.3)) + _payload(rng, n), rng.random() < 0.8)
            tags.add("wt-bidi")
    for _ in range(rng.choice([0, 0, 1, 2])):
        t = _grease_type(rng)
        ph.add_stream(al.uni(), enc_varint(t, _vs(rng, t, 0.5)) + _payload(rng, rng.choice([0, 1, 9, 500])), rng.random() < 0.5)
        tags.add("grease-uni")
    for _ in range(rng.choice([0, 0, 0, 1, 3])):
        q = rng.choice([0, 1, 100, 1 << 20])
        ph.add_dgram(enc_varint(q, _vs(rng, q, 0.3)) + _payload(rng, rng.choice([0, 1, 100, 1100])))
        tags.add("datagram")
    if fault == "empty-datagram":
        ph.add_dgram(rng.choice([b"", b"\x40", b"\xc0\x00\x00"]))
        c.faults = 1
    if fault == "enc-garbage":
        ph.add_stream(enc, bytes([0x3F]) + b"\xff" * 12)
        c.faults = 1
    if dyn_streams:
        tags.add("dyn")
    c.label = "frames:" + ",".join(sorted(tags)) + (";fault=%s" % fault if c.faults else "")
    return c


# ------------------------------------------------------------------ schedules for long cases


def _structure_points(key, data):
    lay = stream_layout(key, data)
    pts = set()
    if lay[1]:
        pts.add(lay[1])
    for f in lay[2]:
        for p in (f["hs"], f["ts"], f["ps"], f["end"]):
            if p is not None:
                pts.add(p)
    return sorted(pts)


def _bytewise_cuts(key, data, limit=5000):
    n = len(data)
    if n <= limit:
        return list(range(1, n))
    cuts = set()
    for p in _structure_points(key, data):
        cuts.update(range(max(1, p - 24), min(n, p + 24)))
    cuts.update(range(1, 200))
    cuts.update(range(max(1, n - 200), n))
    cuts.update(range(200, n, 997))
    return sorted(cuts)


def _random_cuts(rng, key, data):
    n = len(data)
    if n <= 1:
        return []
    r = rng.random()
    if r < 0.12:
        return []
    if r < 0.3:
        return sorted({rng.randrange(1, n) for _ in range(rng.choice([1, 2, 3]))})
    if r < 0.6:
        cuts = set()
        for p in _structure_points(key, data):
            if rng.random() < 0.6:
                q = p + rng.choice([0, 0, 1, -1, 2, -2])
                if 0 < q < n:
                    cuts.add(q)
        return sorted(cuts)
    mean = rng.choice([1.5, 4, 40, 1000])
    cuts = []
    p = 0
    while True:
        p += max(1, int(rng.expovariate(1.0 / mean)) + 1)
        if p >= n or len(cuts) > 6000:
            break
        cuts.append(p)
    return cuts


def _kinds(case):
    full = case.full_streams()
    return {k: stream_layout(k, d)[0] for k, (d, f) in full.items()}


def long_schedules(case: Case, rng: random.Random, n_random: int):
    """yield (label, schedule).  Fixed deliveries first (the DESIGN's 'always included' list), then
    n_random random splittings x interleavings."""
    kinds = _kinds(case)

    def order_variant(ph, name):
        keys = ph.keys()
        encs = [k for k in keys if k != "dg" and kinds.get(k) in ("qenc",)]
        rest = [k for k in keys if k not in encs]
        if name == "ref":
            return keys
        if name == "enc-last":
            return rest + encs
        if name == "enc-first":
            return encs + rest
        if name == "reversed":
            return list(reversed(keys))
        if name == "uni-last":
            uni = [k for k in keys if k != "dg" and k % 4 in (2, 3)]
            return [k for k in keys if k not in uni] + uni
        ks = list(keys)
        rng.shuffle(ks)
        return ks

    def build(cutter, fin_alone, merger):
        sched = []
        for ph in case.phases:
            per = {}
            for k in ph.keys():
                if k == "dg":
                    per[k] = [(1, False)] * len(ph.dgs)
                else:
                    d = ph.data[k]
                    fa = fin_alone(k) if callable(fin_alone) else fin_alone
                    per[k] = chunks_for(len(d), ph.fin[k], cutter(k, d), fa)
            sched.append(merger(ph, per))
        return sched

    whole = lambda k, d: ()
    bytew = lambda k, d: _bytewise_cuts(k, d)
    fixed = [
        ("bytewise/seq", bytew, False, lambda ph, per: merge_sequential(per, order_variant(ph, "ref"))),
        ("bytewise/rr", bytew, False, lambda ph, per: merge_round_robin(per, order_variant(ph, "ref"))),
        ("bytewise/enc-last/fin-alone", bytew, True, lambda ph, per: merge_sequential(per, order_variant(ph, "enc-last"))),
        ("whole/enc-last", whole, False, lambda ph, per: merge_sequential(per, order_variant(ph, "enc-last"))),
        ("whole/enc-first", whole, False, lambda ph, per: merge_sequential(per, order_variant(ph, "enc-first"))),
        ("whole/reversed", whole, False, lambda ph, per: merge_sequential(per, order_variant(ph, "reversed"))),
        ("whole/fin-alone", whole, True, lambda ph, per: merge_sequential(per, order_variant(ph, "ref"))),
        ("whole/uni-last/fin-alone", whole, True, lambda ph, per: merge_sequential(per, order_variant(ph, "uni-last"))),
    ]
    for lab, cutter, fa, merger in fixed:
        yield lab, build(cutter, fa, merger)
    for i in range(n_random):
        cache = {}

        def cutter(k, d, cache=cache):
            return _random_cuts(rng, k, d)

        fa_p = rng.choice([0.0, 0.3, 1.0])
        fa = lambda k: rng.random() < fa_p
        m = rng.random()
        if m < 0.3:
            name = rng.choice(["ref", "enc-last", "enc-first", "reversed", "uni-last", "shuffle"])
            merger = lambda ph, per, name=name: merge_sequential(per, order_variant(ph, name))
            lab = "rand/seq-" + name
        elif m < 0.45:
            merger = lambda ph, per: merge_round_robin(per, order_variant(ph, "shuffle"))
            lab = "rand/rr"
        else:
            st = rng.choice([0.0, 0.5, 0.9])
            name = rng.choice(["ref", "enc-last"])

            def merger(ph, per, st=st, name=name):
                if name == "enc-last":
                    # random merge of everything but the encoder stream, which follows
                    keys = order_variant(ph, "enc-last")
                    encs = [k for k in keys if kinds.get(k) == "qenc"]
                    rest = [k for k in keys if k not in encs]
                    return merge_random(per, rest, rng, st) + merge_sequential(per, encs)
                return merge_random(per, ph.keys(), rng, st)

            lab = "rand/mix%.1f-%s" % (st, name)
        yield lab, build(cutter, fa, merger)
