"""C15 — independent validator ``V`` for HTTP/3 header blocks.

Written ONLY from the sentences of the property statement (properties.jsonl, C15), before
reading aioquic's validate_* functions; shares no code with aioquic and imports nothing.

Statement, sentence by sentence -> rule id:

  "lower-case names"                                   name-upper        (any byte 0x41..0x5A)
  "free of control, space"                             name-ctl-space    (any byte <= 0x20, or 0x7F)
  "and non-ASCII characters"                           name-non-ascii    (any byte >= 0x80)
  "values free of NUL, CR and LF"                      value-nul / value-cr / value-lf
  "and of leading or trailing whitespace"              value-lead-ws / value-trail-ws (SP, HTAB)
  "all pseudo-headers before regular headers"          pseudo-after-regular
  "with none repeated"                                 pseudo-repeated
  "or unknown"                                         pseudo-unknown
  "a :method on requests"                              method-missing
  "a :status on responses"                             status-missing
  "and none on trailers"                               pseudo-in-trailers
  "a declared content-length equals the number of body bytes delivered"   (see declared_length)

Three-valued: ``judge(kind, headers)`` returns (broken, either) where *broken* is the list of
rule ids that the block definitely breaks (must be rejected) and *either* the list of things
the statement is silent about (observations only). A block is "V-valid" iff broken == [].

kind: "request" | "push_promise" (a promised request) | "response" | "push_response" | "trailers"
headers: list of (name: bytes, value: bytes)
"""

from __future__ import annotations

REQUEST_KINDS = ("request", "push_promise")
RESPONSE_KINDS = ("response", "push_response")
TRAILER_KINDS = ("trailers",)

# pseudo-headers the HTTP/3 specification defines for each message kind; ":protocol"
# (extended CONNECT) is something the statement does not talk about -> either
REQUEST_PSEUDO = (b":method", b":scheme", b":authority", b":path")
RESPONSE_PSEUDO = (b":status",)
EITHER_PSEUDO = (b":protocol",)

WS = (0x20, 0x09)


def name_rules(name: bytes) -> list:
    broken = []
    for c in name:
        if 0x41 <= c <= 0x5A:
            if "name-upper" not in broken:
                broken.append("name-upper")
        elif c <= 0x20 or c == 0x7F:
            if "name-ctl-space" not in broken:
                broken.append("name-ctl-space")
        elif c >= 0x80:
            if "name-non-ascii" not in broken:
                broken.append("name-non-ascii")
    return broken


def value_rules(value: bytes) -> list:
    broken = []
    if b"\x00" in value:
        broken.append("value-nul")
    if b"\r" in value:
        broken.append("value-cr")
    if b"\n" in value:
        broken.append("value-lf")
    if value:  # an empty value has no whitespace at all
        if value[0] in WS:
            broken.append("value-lead-ws")
        if value[-1] in WS:
            broken.append("value-trail-ws")
    return broken


def is_pseudo(name: bytes) -> bool:
    return name[:1] == b":"


def judge(kind: str, headers) -> tuple:
    broken, either = [], []

    def b(rule):
        if rule not in broken:
            broken.append(rule)

    def e(rule):
        if rule not in either:
            either.append(rule)

    seen_regular = False
    seen_pseudo = []
    for name, value in headers:
        name = bytes(name)
        value = bytes(value)
        for r in name_rules(name):
            b(r)
        for r in value_rules(value):
            b(r)
        if name == b"":
            e("empty-name")
        if b":" in name[1:]:
            e("colon-inside-name")
        if is_pseudo(name):
            if kind in TRAILER_KINDS:
                b("pseudo-in-trailers")
            if seen_regular:
                b("pseudo-after-regular")
            if name in seen_pseudo:
                b("pseudo-repeated")
            seen_pseudo.append(name)
            if name in EITHER_PSEUDO:
                e("protocol-pseudo")
            elif kind in REQUEST_KINDS:
                if name not in REQUEST_PSEUDO:
                    b("pseudo-unknown")
            elif kind in RESPONSE_KINDS:
                if name not in RESPONSE_PSEUDO:
                    b("pseudo-unknown")
            # trailers: every pseudo-header is already broken by pseudo-in-trailers
        else:
            seen_regular = True
            if name == b"transfer-encoding":
                e("transfer-encoding")
            if name == b"content-length":
                if declared_length([(name, value)]) [0] != "decimal":
                    e("content-length-non-decimal")
    if kind in REQUEST_KINDS:
        if b":method" not in seen_pseudo:
            b("method-missing")
        for p in (b":scheme", b":authority", b":path"):
            if p not in seen_pseudo:
                e("missing-" + p[1:].decode())
    elif kind in RESPONSE_KINDS:
        if b":status" not in seen_pseudo:
            b("status-missing")
    if sum(1 for n, _ in headers if bytes(n) == b"content-length") > 1:
        e("content-length-repeated")
    return broken, either


def declared_length(headers) -> tuple:
    """('none', None) | ('decimal', n) | ('other', None).

    'decimal' = exactly one content-length header whose value is one or more ASCII digits
    and nothing else. Anything else that is called content-length ('+5', '', '5,5', two
    headers, ...) is 'other': the statement does not say how such a declaration reads.
    """
    vals = [bytes(v) for n, v in headers if bytes(n) == b"content-length"]
    if not vals:
        return ("none", None)
    if len(vals) > 1:
        return ("other", None)
    v = vals[0]
    if len(v) >= 1 and all(0x30 <= c <= 0x39 for c in v):
        n = 0
        for c in v:
            n = n * 10 + (c - 0x30)
        return ("decimal", n)
    return ("other", None)
