"""C07 helpers: everything the oracle knows, derived from the wire only.

* `wire_transport_parameters(pair)`  — reads both endpoints' QUIC transport parameters out of
  the TLS messages carried by the CRYPTO frames of the handshake datagrams (independent TLS /
  transport-parameter parsing, vf.refwire for packet protection). No aioquic code.
* `RecvModel` — the receiver's obligations: limits R has put on the wire (transport parameters +
  every MAX_DATA / MAX_STREAM_DATA / MAX_STREAMS frame R emitted) and what the peer P has sent
  (per-stream highest offset, final size).  `classify()` says for one injected frame whether R
  must accept it, must close (and with which error codes), or whether the property is silent.
* `reachable(obj)` — generic walk over gc.get_referents summing payload bytes, per top-level
  attribute of the connection object.
"""

from __future__ import annotations

import gc
import types

from . import frames as F
from .refwire import Tap

VARINT_MAX = (1 << 62) - 1

# RFC 9000 section 20.1 (hard-coded on purpose: the oracle does not read aioquic's enum)
FLOW_CONTROL_ERROR = 0x3
STREAM_LIMIT_ERROR = 0x4
STREAM_STATE_ERROR = 0x5
FINAL_SIZE_ERROR = 0x6
FRAME_ENCODING_ERROR = 0x7
CONNECTION_ID_LIMIT_ERROR = 0x9
PROTOCOL_VIOLATION = 0xA
CRYPTO_BUFFER_EXCEEDED = 0xD
LIMIT_CODES = {FLOW_CONTROL_ERROR, STREAM_LIMIT_ERROR, STREAM_STATE_ERROR, FINAL_SIZE_ERROR}
CODE_NAME = {
    0x0: "NO_ERROR", 0x1: "INTERNAL_ERROR", 0x3: "FLOW_CONTROL_ERROR", 0x4: "STREAM_LIMIT_ERROR",
    0x5: "STREAM_STATE_ERROR", 0x6: "FINAL_SIZE_ERROR", 0x7: "FRAME_ENCODING_ERROR", 0x9: "CONNECTION_ID_LIMIT_ERROR",
    0xA: "PROTOCOL_VIOLATION", 0xD: "CRYPTO_BUFFER_EXCEEDED",
}


def code_name(c):
    if c is None:
        return "none"
    return CODE_NAME.get(c, "0x%x" % c)


# ------------------------------------------------------------------ transport parameters from the wire

TP_NAMES = {
    0x04: "initial_max_data", 0x05: "initial_max_stream_data_bidi_local", 0x06: "initial_max_stream_data_bidi_remote",
    0x07: "initial_max_stream_data_uni", 0x08: "initial_max_streams_bidi", 0x09: "initial_max_streams_uni",
    0x0E: "active_connection_id_limit",
}


def _reassemble(chunks):
    """chunks: list of (offset, bytes) -> contiguous prefix from offset 0"""
    out = bytearray()
    for off, data in sorted(chunks):
        if off > len(out):
            break
        out[off : off + len(data)] = data
    return bytes(out)


def _tls_messages(stream: bytes):
    pos = 0
    while pos + 4 <= len(stream):
        typ = stream[pos]
        ln = int.from_bytes(stream[pos + 1 : pos + 4], "big")
        if pos + 4 + ln > len(stream):
            break
        yield typ, stream[pos + 4 : pos + 4 + ln]
        pos += 4 + ln


def _extensions(body: bytes, pos: int):
    total = int.from_bytes(body[pos : pos + 2], "big")
    pos += 2
    end = pos + total
    out = {}
    while pos + 4 <= end:
        et = int.from_bytes(body[pos : pos + 2], "big")
        el = int.from_bytes(body[pos + 2 : pos + 4], "big")
        out[et] = body[pos + 4 : pos + 4 + el]
        pos += 4 + el
    return out


def _parse_tp(blob: bytes) -> dict:
    r = F.Reader(blob)
    out = {}
    while not r.eof():
        pid = r.varint()
        val = r.take(r.varint())
        if pid in TP_NAMES:
            out[TP_NAMES[pid]] = F.Reader(val).varint() if val else 0
    return out


def wire_transport_parameters(pair) -> dict:
    """{'client': {...}, 'server': {...}} read from pair.wire (datagrams of the handshake)."""
    tap = Tap({"client": pair.ccfg.connection_id_length, "server": pair.scfg.connection_id_length})
    tap.add_keylog(pair.keylog.getvalue())
    if pair.client_odcid is not None:
        tap.initial_dcids.append(pair.client_odcid)
        tap.client_odcid = pair.client_odcid
    chunks = {}
    for sender, data in pair.wire:
        for v in tap.on_datagram(sender, data, 0.0):
            if v.error:
                continue
            for f in v.frames:
                if f["name"] == "CRYPTO":
                    chunks.setdefault((sender, v.ptype), []).append((f["offset"], f["data"]))
    out = {"client": {}, "server": {}}
    for typ, body in _tls_messages(_reassemble(chunks.get(("client", "initial"), []))):
        if typ == 1:  # ClientHello
            pos = 2 + 32
            pos += 1 + body[pos]  # session id
            pos += 2 + int.from_bytes(body[pos : pos + 2], "big")  # cipher suites
            pos += 1 + body[pos]  # compression
            ext = _extensions(body, pos)
            if 0x39 in ext:
                out["client"] = _parse_tp(ext[0x39])
    for typ, body in _tls_messages(_reassemble(chunks.get(("server", "handshake"), []))):
        if typ == 8:  # EncryptedExtensions
            ext = _extensions(body, 0)
            if 0x39 in ext:
                out["server"] = _parse_tp(ext[0x39])
    return out


# ------------------------------------------------------------------ the receiver's obligations


class StreamState:
    __slots__ = ("highest", "final", "reset", "tainted", "r_send_done", "got")

    def __init__(self):
        self.highest = 0  # highest offset P has sent (accepted frames only)
        self.final = None  # final size P has declared
        self.reset = False
        self.got = []  # disjoint sorted [start, stop) P has sent, to know when the stream is complete
        self.tainted = False  # an 'either' frame was sent on it / R may have discarded it
        self.r_send_done = False  # R has put FIN or RESET_STREAM for this stream on the wire

    def add_range(self, a, b):
        if b <= a:
            return
        rs = self.got + [[a, b]]
        rs.sort()
        out = [rs[0]]
        for s, e in rs[1:]:
            if s <= out[-1][1]:
                out[-1][1] = max(out[-1][1], e)
            else:
                out.append([s, e])
        self.got = out

    def recv_complete(self):
        if self.reset:
            return True
        if self.final is None:
            return False
        if self.final == 0:
            return True
        return len(self.got) == 1 and self.got[0][0] == 0 and self.got[0][1] >= self.final


class Verdict:
    __slots__ = ("kind", "codes", "why", "tags")

    def __init__(self, kind, codes=(), why="", tags=()):
        self.kind = kind  # "accept" | "reject" | "either"
        self.codes = set(codes)
        self.why = why
        self.tags = tuple(tags)

    def __repr__(self):
        return "Verdict(%s %s %s)" % (self.kind, sorted(code_name(c) for c in self.codes), self.why)


class RecvModel:
    """victim_is_client: role of R. tp: R's transport parameters as read from the wire."""

    def __init__(self, victim_is_client: bool, tp: dict):
        self.r_is_client = victim_is_client
        self.tp = dict(tp)
        self.max_data = tp["initial_max_data"]
        self.max_streams = {False: tp["initial_max_streams_bidi"], True: tp["initial_max_streams_uni"]}  # key: uni?
        self.max_stream_data = {}  # sid -> value from MAX_STREAM_DATA frames
        self.streams = {}  # sid -> StreamState (streams P has touched and R accepted)
        self.r_opened = set()  # R-initiated streams R has used on the wire
        self.conn_lo = 0  # bytes counted against max_data: certain
        self.conn_hi = 0  # ... if every 'either' frame was accounted
        self.raises = 0
        self.resets = 0  # RESET_STREAM frames of P that R let pass
        self.closed = None

    # ---- stream id helpers
    def r_initiated(self, sid):
        return (sid & 1 == 0) == self.r_is_client

    @staticmethod
    def uni(sid):
        return bool(sid & 2)

    def initial_stream_limit(self, sid):
        if self.uni(sid):
            return self.tp["initial_max_stream_data_uni"]
        if self.r_initiated(sid):
            return self.tp["initial_max_stream_data_bidi_local"]
        return self.tp["initial_max_stream_data_bidi_remote"]

    def stream_limit(self, sid):
        return max(self.initial_stream_limit(sid), self.max_stream_data.get(sid, 0))

    # ---- what R emitted
    def on_r_frames(self, frames):
        for f in frames:
            n = f["name"]
            if n == "MAX_DATA":
                if f["maximum"] > self.max_data:
                    self.max_data = f["maximum"]
                    self.raises += 1
            elif n == "MAX_STREAM_DATA":
                if f["maximum"] > self.stream_limit(f["stream_id"]):
                    self.raises += 1
                self.max_stream_data[f["stream_id"]] = max(self.max_stream_data.get(f["stream_id"], 0), f["maximum"])
            elif n == "MAX_STREAMS_BIDI":
                if f["maximum"] > self.max_streams[False]:
                    self.max_streams[False] = f["maximum"]
                    self.raises += 1
            elif n == "MAX_STREAMS_UNI":
                if f["maximum"] > self.max_streams[True]:
                    self.max_streams[True] = f["maximum"]
                    self.raises += 1
            elif n == "STREAM":
                self.r_opened.add(f["stream_id"])
                if f["fin"] and f["stream_id"] in self.streams:
                    self.streams[f["stream_id"]].r_send_done = True
                elif f["fin"]:
                    self.streams.setdefault(f["stream_id"], StreamState()).r_send_done = True
            elif n == "RESET_STREAM":
                self.r_opened.add(f["stream_id"])
                self.streams.setdefault(f["stream_id"], StreamState()).r_send_done = True
            elif n in ("CONNECTION_CLOSE", "CONNECTION_CLOSE_APP"):
                if self.closed is None:
                    self.closed = f["error_code"]

    def on_r_cycled(self):
        """R ran a send cycle: finished streams may have been discarded from now on."""
        for sid, st in self.streams.items():
            if st.recv_complete():
                # receive-only stream of R: its send half is finished from the start
                if (self.uni(sid) and not self.r_initiated(sid)) or st.r_send_done:
                    st.tainted = True

    # ---- classification of one frame P is about to send
    def _creation(self, sid, need_recv, need_send=False):
        """Checks tied to the stream id. Returns (violated codes, tags)."""
        codes, tags = set(), []
        if need_recv and self.uni(sid) and self.r_initiated(sid):
            codes.add(STREAM_STATE_ERROR)
            tags.append("send-only-stream")
            return codes, tags
        if need_send and self.uni(sid) and not self.r_initiated(sid):
            codes.add(STREAM_STATE_ERROR)
            tags.append("receive-only-stream")
            return codes, tags
        if sid in self.streams and not self.r_initiated(sid):
            return codes, tags
        if self.r_initiated(sid):
            if sid not in self.r_opened:
                codes.add(STREAM_STATE_ERROR)
                tags.append("wrong-initiator")
            return codes, tags
        if sid // 4 + 1 > self.max_streams[self.uni(sid)]:
            codes.add(STREAM_LIMIT_ERROR)
            tags.append("stream-count")
        return codes, tags

    def classify(self, op) -> Verdict:
        """op: dict(kind=STREAM|RESET_STREAM|STOP_SENDING|STREAM_DATA_BLOCKED|NOISE, sid, off, len, fin, final)"""
        kind = op["kind"]
        if kind == "NOISE":
            return Verdict("accept", why="flow-control-neutral frame")
        sid = op["sid"]
        st = self.streams.get(sid)
        if kind in ("STOP_SENDING", "STREAM_DATA_BLOCKED"):
            codes, tags = self._creation(sid, need_recv=kind == "STREAM_DATA_BLOCKED", need_send=kind == "STOP_SENDING")
            if st is not None and st.tainted:
                return Verdict("either", codes, "stream may be discarded", tags)
            if codes:
                return Verdict("reject", codes, ",".join(tags), tags)
            return Verdict("accept", why="stream id within limits", tags=tags)

        if kind == "STREAM":
            end = op["off"] + op["len"]
            if end > VARINT_MAX:
                # RFC 9000 19.8: FRAME_ENCODING_ERROR or FLOW_CONTROL_ERROR; whatever else is wrong with the
                # frame, R must not accept it
                return Verdict("reject", {FRAME_ENCODING_ERROR, FLOW_CONTROL_ERROR, STREAM_STATE_ERROR, STREAM_LIMIT_ERROR, FINAL_SIZE_ERROR}, "offset+length>2^62-1", ("over-varint",))
            new_final = end if op["fin"] else None
        else:
            end = op["final"]
            new_final = end
        codes, tags = self._creation(sid, need_recv=True)
        tags = list(tags)
        if st is not None and st.tainted:
            return Verdict("either", LIMIT_CODES, "stream tainted/possibly discarded", tags + ["tainted"])
        if codes:
            # a frame that is wrong on several counts may be rejected with any matching code
            more = self._limit_codes(sid, st, end, new_final, kind)[0]
            return Verdict("reject", codes | more, ",".join(tags), tags)
        codes, tags2, unsure = self._limit_codes(sid, st, end, new_final, kind)
        tags += tags2
        if codes:
            return Verdict("reject", codes, ",".join(tags), tags)
        if unsure:
            return Verdict("either", unsure, ",".join(tags), tags)
        return Verdict("accept", why=",".join(tags), tags=tags)

    def _limit_codes(self, sid, st, end, new_final, kind):
        """(violated-for-sure codes, tags, codes R may or may not use)"""
        codes, tags, unsure = set(), [], set()
        highest = st.highest if st is not None else 0
        final = st.final if st is not None else None
        lim = self.stream_limit(sid)
        if end > lim:
            codes.add(FLOW_CONTROL_ERROR)
            tags.append("over-stream-limit")
        elif end == lim:
            tags.append("at-stream-limit")
        delta = max(0, end - highest)
        if self.conn_lo + delta > self.max_data:
            codes.add(FLOW_CONTROL_ERROR)
            tags.append("over-conn-limit")
        elif self.conn_hi + delta > self.max_data:
            unsure.add(FLOW_CONTROL_ERROR)
            tags.append("conn-limit-uncertain")
        elif delta and self.conn_hi + delta == self.max_data:
            tags.append("at-conn-limit")
        if final is not None:
            if end > final:
                codes.add(FINAL_SIZE_ERROR)
                tags.append("beyond-final-size")
            elif new_final is not None and new_final != final:
                codes.add(FINAL_SIZE_ERROR)
                tags.append("final-size-changed")
            elif new_final is not None:
                tags.append("final-size-repeated")
        elif new_final is not None and new_final < highest:
            # RFC: FINAL_SIZE_ERROR; property text only speaks about sizes *beyond*: either
            unsure.add(FINAL_SIZE_ERROR)
            tags.append("final-size-below-received")
        if st is not None and st.reset:
            tags.append("after-reset")
        elif final is not None:
            tags.append("after-fin")
        return codes, tags, unsure

    # ---- bookkeeping once R accepted (did not close on) the frame
    def apply(self, op, verdict):
        kind = op["kind"]
        if kind == "NOISE":
            return
        sid = op["sid"]
        if kind in ("STOP_SENDING", "STREAM_DATA_BLOCKED"):
            if verdict.kind == "accept" and not self.r_initiated(sid):
                self.streams.setdefault(sid, StreamState())
            return
        if self.r_initiated(sid) and self.uni(sid):
            return
        st = self.streams.setdefault(sid, StreamState())
        end = op["off"] + op["len"] if kind == "STREAM" else op["final"]
        if end > VARINT_MAX:
            return
        delta = max(0, end - st.highest)
        if verdict.kind == "accept":
            self.conn_lo += delta
            self.conn_hi += delta
            st.highest = max(st.highest, end)
            if kind == "STREAM":
                st.add_range(op["off"], end)
                if op["fin"]:
                    st.final = end
            else:
                st.final = end
                st.reset = True
                self.resets += 1
        else:
            # 'either' frame that R let pass: we no longer know what R thinks of this stream
            st.tainted = True
            self.conn_hi += delta
            st.highest = max(st.highest, end)


# ------------------------------------------------------------------ generic reachable-bytes walk

_SKIP_TYPES = (
    type, types.ModuleType, types.FunctionType, types.BuiltinFunctionType, types.CodeType, types.MethodDescriptorType,
    types.WrapperDescriptorType, types.GetSetDescriptorType, types.MemberDescriptorType, property, staticmethod, classmethod,
)


def _walk(root, seen, skip_instances):
    nbytes = 0
    nobj = 0
    stack = [root]
    while stack:
        o = stack.pop()
        i = id(o)
        if i in seen:
            continue
        seen.add(i)
        if isinstance(o, _SKIP_TYPES) or isinstance(o, skip_instances):
            continue
        nobj += 1
        if isinstance(o, (bytes, bytearray, str)):
            nbytes += len(o)
            continue
        if isinstance(o, (int, float, bool, type(None))):
            nbytes += 8
            continue
        if isinstance(o, (list, tuple, set, frozenset)) or type(o).__name__ == "deque":
            nbytes += 8 * len(o)
        elif isinstance(o, dict):
            nbytes += 16 * len(o)
        stack.extend(gc.get_referents(o))
    return nbytes, nobj


def reachable(conn, first=()) -> dict:
    """{attr: (payload bytes, objects)} per attribute of conn.__dict__ (attributes named in `first` are
    walked first, then the others in attribute order); an object shared between attributes is charged to
    the first one that reaches it. '*' = totals."""
    import logging

    skip = (logging.Logger, logging.LoggerAdapter, logging.Handler)
    seen = {id(conn), id(conn.__dict__)}
    out = {}
    tb = to = 0
    d = vars(conn)
    order = [k for k in first if k in d] + [k for k in d if k not in first]
    for name in order:
        val = d[name]
        b, o = _walk(val, seen, skip)
        out[name] = (b, o)
        tb += b
        to += o
    out["*"] = (tb, to)
    return out
