"""C17 — independent reference codec, written from the RFCs (bytes/int only, no aioquic code).

  RFC 9000 §16 (varints), §17 (long/short headers, Version Negotiation, Retry), §18 (transport
  parameters), §19.3 (ACK); RFC 9369 (QUIC v2 type codes); RFC 9001 §5.8 (Retry integrity tag, via
  vf.refcrypto); RFC 9368 (version_information); RFC 9221 (max_datagram_frame_size);
  RFC 8446 §4 (handshake messages and the extensions aioquic's dataclasses model), RFC 6066 §3
  (server_name), RFC 7301 (ALPN).

Values are plain dicts / lists / tuples / bytes / ints.

Encoders record the position of every length field they write (`W.lens`), so that a harness
can lie about each of them. Decoders are STRICT and bounded: every length-prefixed field is
parsed through a sub-reader that cannot see past its declared end. A rejection carries one
of four classes:

  truncated      the *input* ends before the field does
  overrun        "inner-length-exceeds-enclosing-field": a field (or a length prefix) needs
                 more bytes than the enclosing length-prefixed field declared
  trailing       a length-prefixed field has bytes left over after its content
  illegal        the bytes parse but the value is one the RFC forbids and whose meaning is
                 ambiguous (duplicate extension / parameter, unknown version, ...)

Range / cardinality rules whose violation leaves the value unambiguous (e.g. an empty
cipher-suite list, ack_delay_exponent > 20) are returned as non-fatal `notes`.
"""

from __future__ import annotations

from contextlib import contextmanager

from .frames import VARINT_MAX, enc_varint, f_ack
from .refcrypto import retry_tag

TRUNC = "truncated"
OVERRUN = "inner-length-exceeds-enclosing-field"
TRAIL = "trailing-bytes"
ILLEGAL = "illegal-value"

V1 = 0x00000001
V2 = 0x6B3343CF


class Reject(Exception):
    def __init__(self, cls, where, detail="", ext=None):
        super().__init__("%s at %s %s" % (cls, where, detail))
        self.cls = cls
        self.where = where
        self.detail = detail
        self.ext = ext  # name of the enclosing TLS extension, if any


class Unrepresentable(ValueError):
    """The reference encoder cannot represent the value (field too long / int out of range)."""


# ------------------------------------------------------------------ strict bounded reader


class SR:
    def __init__(self, data, pos=0, end=None, parent=None, name="input"):
        self.d = data
        self.pos = pos
        self.end = len(data) if end is None else end
        self.parent = parent
        self.name = name

    def path(self):
        out = []
        r = self
        while r is not None:
            out.append(r.name)
            r = r.parent
        return "/".join(reversed(out))

    def ext(self):
        r = self
        while r is not None:
            if r.name.startswith("ext:"):
                return r.name[4:]
            r = r.parent
        return None

    def remaining(self):
        return self.end - self.pos

    def _need(self, n, what):
        if n < 0 or self.pos + n > self.end:
            if self.parent is None:
                raise Reject(TRUNC, self.path(), what)
            raise Reject(OVERRUN, self.path(), what, ext=self.ext())

    def u(self, n, what="uint"):
        self._need(n, "%s%d" % (what, 8 * n))
        v = int.from_bytes(self.d[self.pos : self.pos + n], "big")
        self.pos += n
        return v

    def take(self, n, what="bytes"):
        self._need(n, "%s(%d)" % (what, n))
        v = bytes(self.d[self.pos : self.pos + n])
        self.pos += n
        return v

    def varint(self, what="varint"):
        self._need(1, what)
        ln = 1 << (self.d[self.pos] >> 6)
        self._need(ln, what)
        v = int.from_bytes(self.d[self.pos : self.pos + ln], "big") & ((1 << (8 * ln - 2)) - 1)
        self.pos += ln
        return v

    def sub(self, n, name):
        self._need(n, "field %s of length %d" % (name, n))
        r = SR(self.d, self.pos, self.pos + n, self, name)
        self.pos += n
        return r

    def vec(self, lenbytes, name):
        """length-prefixed vector: returns the bounded sub-reader for its content"""
        return self.sub(self.u(lenbytes, name + ".len"), name)

    def done(self):
        if self.pos != self.end:
            raise Reject(TRAIL, self.path(), "%d bytes left" % (self.end - self.pos), ext=self.ext())


# ------------------------------------------------------------------ annotated writer


class W:
    def __init__(self):
        self.b = bytearray()
        self.lens = []  # (offset, nbytes, "fixed"|"varint", name)

    def u(self, v, n):
        if not isinstance(v, int) or v < 0 or v >> (8 * n):
            raise Unrepresentable("uint%d %r" % (8 * n, v))
        self.b += int(v).to_bytes(n, "big")

    def raw(self, data):
        self.b += bytes(data)

    @contextmanager
    def vec(self, n, name):
        at = len(self.b)
        self.b += bytes(n)
        yield
        ln = len(self.b) - at - n
        if ln >> (8 * n):
            raise Unrepresentable("%s: %d bytes do not fit a %d-byte length" % (name, ln, n))
        self.b[at : at + n] = ln.to_bytes(n, "big")
        self.lens.append((at, n, "fixed", name))

    def opaque(self, n, name, data):
        with self.vec(n, name):
            self.raw(data)

    def varint(self, v, size=None):
        try:
            self.b += enc_varint(v, size)
        except (ValueError, AssertionError, TypeError) as exc:
            raise Unrepresentable("varint %r" % (v,)) from exc

    def varvec(self, name, body, size=None):
        at = len(self.b)
        self.varint(len(body), size)
        self.lens.append((at, len(self.b) - at, "varint", name))
        self.b += body

    def bytes(self):
        return bytes(self.b)


# ------------------------------------------------------------------ integers


def ref_varint(v, size=None):
    """RFC 9000 §16, shortest encoding unless size is given. Raises Unrepresentable."""
    if not isinstance(v, int) or v < 0 or v > VARINT_MAX:
        raise Unrepresentable("varint %r" % (v,))
    return enc_varint(v, size)


def ref_varint_size(v):
    return len(ref_varint(v))


def ref_uint(v, nbytes):
    if not isinstance(v, int) or v < 0 or v >> (8 * nbytes):
        raise Unrepresentable("uint%d %r" % (8 * nbytes, v))
    return v.to_bytes(nbytes, "big")


def dec_varint(data):
    """returns (value, consumed)"""
    r = SR(data)
    v = r.varint()
    return v, r.pos


def dec_uint(data, nbytes):
    r = SR(data)
    return r.u(nbytes), r.pos


# ------------------------------------------------------------------ ACK (RFC 9000 §19.3)


def enc_ack(ranges, delay):
    """ranges: inclusive (lo, hi), disjoint and non-adjacent. Returns the frame WITHOUT the type byte."""
    for lo, hi in ranges:
        if lo < 0 or hi < lo or hi > VARINT_MAX:
            raise Unrepresentable("ack range")
    if delay < 0 or delay > VARINT_MAX:
        raise Unrepresentable("ack delay")
    return f_ack(list(ranges), delay)[1:]


def dec_ack(data):
    """data WITHOUT the type byte. returns (ascending inclusive ranges, delay, consumed)"""
    r = SR(data)
    largest = r.varint("largest")
    delay = r.varint("delay")
    count = r.varint("count")
    first = r.varint("first")
    if first > largest:
        raise Reject(ILLEGAL, "ack", "first range larger than largest acknowledged")
    ranges = [(largest - first, largest)]
    smallest = largest - first
    for _ in range(count):
        gap = r.varint("gap")
        ln = r.varint("range")
        hi = smallest - gap - 2
        if hi < 0 or ln > hi:
            raise Reject(ILLEGAL, "ack", "range below zero")
        smallest = hi - ln
        ranges.append((smallest, hi))
    ranges.reverse()
    return ranges, delay, r.pos


# ------------------------------------------------------------------ packet headers (RFC 9000 §17, RFC 9369 §3.2)

LONG_TYPE_CODE = {
    V1: {"initial": 0, "zero_rtt": 1, "handshake": 2, "retry": 3},
    V2: {"initial": 1, "zero_rtt": 2, "handshake": 3, "retry": 0},
}
LONG_TYPE_NAME = {v: {c: n for n, c in m.items()} for v, m in LONG_TYPE_CODE.items()}


def _cid(b, what):
    if len(b) > 255:
        raise Unrepresentable(what + " longer than 255")
    return bytes([len(b)]) + bytes(b)


def enc_long_header(version, ptype, dcid, scid, token=b"", length=0, pn=0, pn_len=2,
                    length_size=None, token_len_size=None, reserved=0, type_code=None, fixed=1):
    """Header up to and including the packet number. `length` is the value of the Length field."""
    code = LONG_TYPE_CODE[version][ptype] if type_code is None else type_code
    first = 0x80 | (0x40 if fixed else 0) | (code << 4) | ((reserved & 3) << 2) | (pn_len - 1)
    out = bytes([first]) + ref_uint(version, 4) + _cid(dcid, "dcid") + _cid(scid, "scid")
    if ptype == "initial":
        out += ref_varint(len(token), token_len_size) + bytes(token)
    out += ref_varint(length, length_size)
    out += (pn & ((1 << (8 * pn_len)) - 1)).to_bytes(pn_len, "big")
    return out


def enc_short_header(dcid, pn=0, pn_len=2, spin=0, key_phase=0, reserved=0, fixed=1):
    first = (0x40 if fixed else 0) | (spin << 5) | ((reserved & 3) << 3) | (key_phase << 2) | (pn_len - 1)
    return bytes([first]) + bytes(dcid) + (pn & ((1 << (8 * pn_len)) - 1)).to_bytes(pn_len, "big")


def enc_retry(version, dcid, scid, token, odcid, unused=0):
    """RFC 9000 §17.2.5 + RFC 9001 §5.8 / RFC 9369 §3.3.3"""
    first = 0x80 | 0x40 | (LONG_TYPE_CODE[version]["retry"] << 4) | (unused & 0x0F)
    body = bytes([first]) + ref_uint(version, 4) + _cid(dcid, "dcid") + _cid(scid, "scid") + bytes(token)
    if len(odcid) > 255:
        raise Unrepresentable("odcid")
    return body + retry_tag(version, bytes(odcid), body)


def enc_version_negotiation(dcid, scid, versions, first_byte=0x80):
    out = bytes([first_byte | 0x80]) + bytes(4) + _cid(dcid, "dcid") + _cid(scid, "scid")
    for v in versions:
        out += ref_uint(v, 4)
    return out


def dec_header(data, short_dcid_len=0):
    """Strict header decode of the first packet in a datagram.

    returns dict(form, version, ptype, dcid, scid, token, tag, versions, first, length,
                 pn_offset, packet_length, notes)
    packet_length counts from the first byte to the end of the packet (RFC 9000 §17.2: Length
    covers packet number + payload); for Retry / VN / short it is the rest of the datagram.
    """
    r = SR(data)
    first = r.u(1, "first")
    h = {"first": first, "version": None, "scid": b"", "token": b"", "tag": b"", "versions": [],
         "length": None, "notes": []}
    if first & 0x80:
        h["form"] = "long"
        version = r.u(4, "version")
        h["version"] = version
        dl = r.u(1, "dcid.len")
        if version != 0 and dl > 20:
            raise Reject(ILLEGAL, "header", "dcid length %d" % dl)
        h["dcid"] = r.take(dl, "dcid")
        sl = r.u(1, "scid.len")
        if version != 0 and sl > 20:
            raise Reject(ILLEGAL, "header", "scid length %d" % sl)
        h["scid"] = r.take(sl, "scid")
        if version == 0:
            h["ptype"] = "version_negotiation"
            while r.remaining():
                h["versions"].append(r.u(4, "supported_version"))
            if not h["versions"]:
                h["notes"].append("version negotiation without versions")
            h["pn_offset"] = None
            h["packet_length"] = r.pos
            return h
        if version not in LONG_TYPE_NAME:
            raise Reject(ILLEGAL, "header", "unknown version 0x%x" % version)
        if not first & 0x40:
            raise Reject(ILLEGAL, "header", "fixed bit is zero")
        ptype = LONG_TYPE_NAME[version][(first >> 4) & 3]
        h["ptype"] = ptype
        if ptype == "retry":
            if r.remaining() < 16:
                raise Reject(TRUNC, "header", "retry shorter than its integrity tag")
            h["token"] = r.take(r.remaining() - 16, "retry token")
            h["tag"] = r.take(16, "tag")
            h["pn_offset"] = None
            h["packet_length"] = r.pos
            return h
        if ptype == "initial":
            h["token"] = r.take(r.varint("token.len"), "token")
        length = r.varint("length")
        h["length"] = length
        h["pn_offset"] = r.pos
        if length > r.remaining():
            raise Reject(TRUNC, "header", "Length %d exceeds the datagram" % length)
        h["packet_length"] = r.pos + length
        return h
    h["form"] = "short"
    if not first & 0x40:
        raise Reject(ILLEGAL, "header", "fixed bit is zero")
    h["ptype"] = "one_rtt"
    h["dcid"] = r.take(short_dcid_len, "dcid")
    h["pn_offset"] = r.pos
    h["packet_length"] = len(data)
    return h


def retry_tag_valid(version, packet, odcid):
    return len(packet) >= 16 and retry_tag(version, bytes(odcid), bytes(packet[:-16])) == bytes(packet[-16:])


# ------------------------------------------------------------------ transport parameters (RFC 9000 §18)

# id -> (name, kind). Names follow RFC 9000 §18.2 (which aioquic's dataclass also uses).
TP = {
    0x00: ("original_destination_connection_id", "bytes"),
    0x01: ("max_idle_timeout", "int"),
    0x02: ("stateless_reset_token", "bytes"),
    0x03: ("max_udp_payload_size", "int"),
    0x04: ("initial_max_data", "int"),
    0x05: ("initial_max_stream_data_bidi_local", "int"),
    0x06: ("initial_max_stream_data_bidi_remote", "int"),
    0x07: ("initial_max_stream_data_uni", "int"),
    0x08: ("initial_max_streams_bidi", "int"),
    0x09: ("initial_max_streams_uni", "int"),
    0x0A: ("ack_delay_exponent", "int"),
    0x0B: ("max_ack_delay", "int"),
    0x0C: ("disable_active_migration", "flag"),
    0x0D: ("preferred_address", "preferred_address"),
    0x0E: ("active_connection_id_limit", "int"),
    0x0F: ("initial_source_connection_id", "bytes"),
    0x10: ("retry_source_connection_id", "bytes"),
    0x11: ("version_information", "version_information"),  # RFC 9368 §3
    0x20: ("max_datagram_frame_size", "int"),  # RFC 9221 §3
    0x0C37: ("quantum_readiness", "bytes"),  # non-RFC extension known to aioquic: opaque bytes
}
TP_ID = {name: i for i, (name, _) in TP.items()}


def _enc_tp_value(kind, v):
    if kind == "int":
        return ref_varint(v)
    if kind == "bytes":
        return bytes(v)
    if kind == "flag":
        return b""
    if kind == "preferred_address":
        a4, p4 = v["ipv4"] if v["ipv4"] is not None else (bytes(4), 0)
        a6, p6 = v["ipv6"] if v["ipv6"] is not None else (bytes(16), 0)
        if len(a4) != 4 or len(a6) != 16 or len(v["stateless_reset_token"]) != 16:
            raise Unrepresentable("preferred_address field sizes")
        return (bytes(a4) + ref_uint(p4, 2) + bytes(a6) + ref_uint(p6, 2)
                + _cid(v["connection_id"], "connection_id") + bytes(v["stateless_reset_token"]))
    if kind == "version_information":
        out = ref_uint(v["chosen_version"], 4)
        for x in v["available_versions"]:
            out += ref_uint(x, 4)
        return out
    raise AssertionError(kind)


def enc_transport_parameters(params, order=None, unknown=(), len_size=None):
    """params: {name: value}; absent / None / flag False = not sent. order: list of ids.
    unknown: extra (id, bytes) pairs. Returns (bytes, lens)."""
    items = []
    for pid, (name, kind) in TP.items():
        v = params.get(name)
        if v is None or (kind == "flag" and not v):
            continue
        items.append((pid, _enc_tp_value(kind, v)))
    items.extend((pid, bytes(b)) for pid, b in unknown)
    if order is not None:
        pool = list(items)
        items = []
        for pid in order:
            for k, it in enumerate(pool):
                if it[0] == pid:
                    items.append(pool.pop(k))
                    break
        items.extend(pool)
    w = W()
    for pid, body in items:
        w.varint(pid)
        w.varvec("tp:0x%x" % pid, body, len_size)
    return w.bytes(), w.lens


def dec_transport_parameters(data):
    """returns (params {name: value}, meta {order, unknown, notes})"""
    r = SR(data)
    out = {}
    order = []
    unknown = []
    notes = []
    seen = set()
    while r.remaining():
        pid = r.varint("id")
        ln = r.varint("length")
        body = r.sub(ln, "tp:0x%x" % pid)
        if pid in seen:
            raise Reject(ILLEGAL, body.path(), "duplicate transport parameter")
        seen.add(pid)
        order.append(pid)
        if pid not in TP:
            unknown.append((pid, body.take(ln)))
            continue
        name, kind = TP[pid]
        if kind == "int":
            v = body.varint(name)
        elif kind == "bytes":
            v = body.take(ln)
        elif kind == "flag":
            v = True
        elif kind == "preferred_address":
            a4, p4 = body.take(4, "ipv4"), body.u(2, "port")
            a6, p6 = body.take(16, "ipv6"), body.u(2, "port")
            cid = body.take(body.u(1, "cid.len"), "cid")
            v = {"ipv4": (a4, p4), "ipv6": (a6, p6), "connection_id": cid,
                 "stateless_reset_token": body.take(16, "token")}
            if not 1 <= len(cid) <= 20:
                notes.append("preferred_address connection id length %d" % len(cid))
        else:
            chosen = body.u(4, "chosen_version")
            avail = []
            while body.remaining():
                avail.append(body.u(4, "available_version"))
            if chosen == 0 or 0 in avail:
                raise Reject(ILLEGAL, body.path(), "version 0 in version_information")
            v = {"chosen_version": chosen, "available_versions": avail}
        body.done()
        out[name] = v
        # RFC 9000 §18.2 / §7.4 value rules: the value is unambiguous, so only noted
        if name == "stateless_reset_token" and len(v) != 16:
            notes.append("stateless_reset_token length")
        elif kind == "bytes" and name.endswith("connection_id") and len(v) > 20:
            notes.append(name + " longer than 20")
        elif name == "max_udp_payload_size" and v < 1200:
            notes.append("max_udp_payload_size < 1200")
        elif name == "ack_delay_exponent" and v > 20:
            notes.append("ack_delay_exponent > 20")
        elif name == "max_ack_delay" and v >= 1 << 14:
            notes.append("max_ack_delay >= 2^14")
        elif name == "active_connection_id_limit" and v < 2:
            notes.append("active_connection_id_limit < 2")
        elif name.startswith("initial_max_streams") and v > 1 << 60:
            notes.append(name + " > 2^60")
    return out, {"order": order, "unknown": unknown, "notes": notes}


# ------------------------------------------------------------------ TLS 1.3 handshake messages (RFC 8446 §4)

HS_TYPE = {
    "client_hello": 1, "server_hello": 2, "new_session_ticket": 4, "encrypted_extensions": 8,
    "certificate": 11, "certificate_request": 13, "certificate_verify": 15, "finished": 20,
}
EXT_NAME = {
    0: "server_name", 10: "supported_groups", 13: "signature_algorithms", 16: "alpn",
    41: "pre_shared_key", 42: "early_data", 43: "supported_versions",
    45: "psk_key_exchange_modes", 51: "key_share",
}
# which extensions have a dedicated field in the message's value model (the rest is opaque)
MODELLED = {
    "client_hello": (51, 43, 13, 10, 45, 0, 16, 42, 41),
    "server_hello": (43, 51, 41),
    "encrypted_extensions": (16, 42),
    "certificate_request": (13,),
    "new_session_ticket": (42,),
}
LEGACY_VERSION = 0x0303


def ext_name(t):
    return EXT_NAME.get(t, "0x%04x" % t)


# -- extension bodies: encode


def _w_u_list(w, lenbytes, name, items, itembytes):
    with w.vec(lenbytes, name):
        for x in items:
            w.u(x, itembytes)


def _w_key_share_entry(w, entry):
    w.u(entry[0], 2)
    w.opaque(2, "key_exchange", entry[1])


def _w_alpn_list(w, names):
    with w.vec(2, "protocol_name_list"):
        for n in names:
            w.opaque(1, "protocol_name", n)


def _enc_ext_body(msg, t, v, w):
    if t == 0:  # RFC 6066 §3
        with w.vec(2, "server_name_list"):
            w.u(0, 1)
            w.opaque(2, "host_name", v)
    elif t == 10:
        _w_u_list(w, 2, "named_group_list", v, 2)
    elif t == 13:
        _w_u_list(w, 2, "supported_signature_algorithms", v, 2)
    elif t == 16:
        _w_alpn_list(w, v if msg == "client_hello" else [v])
    elif t == 41:
        if msg == "client_hello":
            with w.vec(2, "identities"):
                for ident, age in v["identities"]:
                    w.opaque(2, "identity", ident)
                    w.u(age, 4)
            with w.vec(2, "binders"):
                for b in v["binders"]:
                    w.opaque(1, "binder", b)
        else:
            w.u(v, 2)
    elif t == 42:
        if msg == "new_session_ticket":
            w.u(v, 4)
    elif t == 43:
        if msg == "client_hello":
            _w_u_list(w, 1, "versions", v, 2)
        else:
            w.u(v, 2)
    elif t == 45:
        _w_u_list(w, 1, "ke_modes", v, 1)
    elif t == 51:
        if msg == "client_hello":
            with w.vec(2, "client_shares"):
                for e in v:
                    _w_key_share_entry(w, e)
        else:
            _w_key_share_entry(w, v)
    else:
        raise AssertionError(t)


_FIELD = {
    "client_hello": {51: "key_share", 43: "supported_versions", 13: "signature_algorithms",
                     10: "supported_groups", 45: "psk_key_exchange_modes", 0: "server_name",
                     16: "alpn_protocols", 42: "early_data", 41: "pre_shared_key"},
    "server_hello": {43: "supported_version", 51: "key_share", 41: "pre_shared_key"},
    "encrypted_extensions": {16: "alpn_protocol", 42: "early_data"},
    "certificate_request": {13: "signature_algorithms"},
    "new_session_ticket": {42: "max_early_data_size"},
}


def _present(msg, t, v):
    x = v.get(_FIELD[msg][t])
    if t == 42 and msg != "new_session_ticket":
        return bool(x)
    return x is not None


def _enc_extensions(msg, v, w, order):
    items = []  # (type, modelled?, value)
    for t in MODELLED[msg]:
        if t == 41 and msg == "client_hello":
            continue
        if _present(msg, t, v):
            items.append((t, True, v[_FIELD[msg][t]]))
    for t, body in v.get("other_extensions") or []:
        items.append((t, False, body))
    if msg == "client_hello" and _present(msg, 41, v):
        items.append((41, True, v["pre_shared_key"]))  # RFC 8446 §4.2.11: MUST be last
    if order is not None:
        pool = list(items)
        items = []
        for t in order:
            for k, it in enumerate(pool):
                if it[0] == t:
                    items.append(pool.pop(k))
                    break
        items.extend(pool)
    with w.vec(2, "extensions"):
        for t, modelled, val in items:
            w.u(t, 2)
            with w.vec(2, "ext:" + ext_name(t)):
                if modelled:
                    _enc_ext_body(msg, t, val, w)
                else:
                    w.raw(val)


def enc_handshake(msg, v, order=None):
    """returns (bytes, lens). order: extension types in emission order (default: model order,
    pre_shared_key last)."""
    w = W()
    w.u(HS_TYPE[msg], 1)
    with w.vec(3, "msg"):
        if msg == "client_hello":
            w.u(LEGACY_VERSION, 2)
            if len(v["random"]) != 32:
                raise Unrepresentable("random")
            w.raw(v["random"])
            w.opaque(1, "legacy_session_id", v["legacy_session_id"])
            _w_u_list(w, 2, "cipher_suites", v["cipher_suites"], 2)
            _w_u_list(w, 1, "legacy_compression_methods", v["legacy_compression_methods"], 1)
            _enc_extensions(msg, v, w, order)
        elif msg == "server_hello":
            w.u(LEGACY_VERSION, 2)
            if len(v["random"]) != 32:
                raise Unrepresentable("random")
            w.raw(v["random"])
            w.opaque(1, "legacy_session_id_echo", v["legacy_session_id"])
            w.u(v["cipher_suite"], 2)
            w.u(v["compression_method"], 1)
            _enc_extensions(msg, v, w, order)
        elif msg == "encrypted_extensions":
            _enc_extensions(msg, v, w, order)
        elif msg == "certificate_request":
            w.opaque(1, "certificate_request_context", v["request_context"])
            _enc_extensions(msg, v, w, order)
        elif msg == "certificate":
            w.opaque(1, "certificate_request_context", v["request_context"])
            with w.vec(3, "certificate_list"):
                for cert, exts in v["certificates"]:
                    w.opaque(3, "cert_data", cert)
                    w.opaque(2, "entry_extensions", exts)
        elif msg == "certificate_verify":
            w.u(v["algorithm"], 2)
            w.opaque(2, "signature", v["signature"])
        elif msg == "finished":
            w.raw(v["verify_data"])
        elif msg == "new_session_ticket":
            w.u(v["ticket_lifetime"], 4)
            w.u(v["ticket_age_add"], 4)
            w.opaque(1, "ticket_nonce", v["ticket_nonce"])
            w.opaque(2, "ticket", v["ticket"])
            _enc_extensions(msg, v, w, order)
        else:
            raise AssertionError(msg)
    return w.bytes(), w.lens


# -- extension bodies: decode


def _r_u_list(r, lenbytes, name, itembytes):
    lst = r.vec(lenbytes, name)
    out = []
    while lst.remaining():
        out.append(lst.u(itembytes, name + ".item"))
    return out


def _r_key_share_entry(r):
    g = r.u(2, "group")
    return (g, r.vec(2, "key_exchange").take_all())


def _take_all(self):
    return self.take(self.remaining())


SR.take_all = _take_all


def _r_alpn_list(r, notes):
    lst = r.vec(2, "protocol_name_list")
    out = []
    while lst.remaining():
        n = lst.vec(1, "protocol_name").take_all()
        if not n:
            notes.append("empty ALPN protocol name")
        out.append(n)
    if not out:
        notes.append("empty ALPN protocol name list")
    return out


def _dec_ext_body(msg, t, r, notes):
    if t == 0:
        lst = r.vec(2, "server_name_list")
        names = []
        while lst.remaining():
            nt = lst.u(1, "name_type")
            if nt != 0:
                raise Reject(ILLEGAL, lst.path(), "unknown name_type %d" % nt, ext=lst.ext())
            names.append(lst.vec(2, "host_name").take_all())
        if len(names) != 1:
            raise Reject(ILLEGAL, lst.path(), "%d host names" % len(names), ext=lst.ext())
        if not names[0]:
            notes.append("empty host name")
        return names[0]
    if t == 10:
        v = _r_u_list(r, 2, "named_group_list", 2)
        if not v:
            notes.append("empty named_group_list")
        return v
    if t == 13:
        v = _r_u_list(r, 2, "supported_signature_algorithms", 2)
        if not v:
            notes.append("empty signature_algorithms")
        return v
    if t == 16:
        v = _r_alpn_list(r, notes)
        if msg == "client_hello":
            return v
        if len(v) != 1:
            raise Reject(ILLEGAL, r.path(), "EncryptedExtensions ALPN with %d names" % len(v), ext=r.ext())
        return v[0]
    if t == 41:
        if msg != "client_hello":
            return r.u(2, "selected_identity")
        ids = r.vec(2, "identities")
        identities = []
        while ids.remaining():
            ident = ids.vec(2, "identity").take_all()
            identities.append((ident, ids.u(4, "obfuscated_ticket_age")))
        bs = r.vec(2, "binders")
        binders = []
        while bs.remaining():
            binders.append(bs.vec(1, "binder").take_all())
        if not identities or not binders or any(len(b) < 32 for b in binders) or any(not i for i, _ in identities):
            notes.append("pre_shared_key cardinalities")
        return {"identities": identities, "binders": binders}
    if t == 42:
        if msg == "new_session_ticket":
            return r.u(4, "max_early_data_size")
        return True
    if t == 43:
        if msg != "client_hello":
            return r.u(2, "selected_version")
        v = _r_u_list(r, 1, "versions", 2)
        if not v:
            notes.append("empty supported_versions")
        return v
    if t == 45:
        v = _r_u_list(r, 1, "ke_modes", 1)
        if not v:
            notes.append("empty ke_modes")
        return v
    if t == 51:
        if msg != "client_hello":
            e = _r_key_share_entry(r)
            if not e[1]:
                notes.append("empty key_exchange")
            return e
        lst = r.vec(2, "client_shares")
        out = []
        while lst.remaining():
            e = _r_key_share_entry(lst)
            if not e[1]:
                notes.append("empty key_exchange")
            out.append(e)
        return out
    raise AssertionError(t)


def _dec_extensions(msg, r, v, meta):
    lst = r.vec(2, "extensions")
    seen = set()
    order = meta["ext_order"]
    v["other_extensions"] = []
    while lst.remaining():
        t = lst.u(2, "extension_type")
        body = lst.vec(2, "ext:" + ext_name(t))
        if t in seen:
            raise Reject(ILLEGAL, body.path(), "duplicate extension", ext=ext_name(t))
        if msg == "client_hello" and 41 in seen:
            raise Reject(ILLEGAL, body.path(), "pre_shared_key is not the last extension", ext=ext_name(t))
        seen.add(t)
        order.append(t)
        if t in MODELLED[msg]:
            v[_FIELD[msg][t]] = _dec_ext_body(msg, t, body, meta["notes"])
            body.done()
        else:
            v["other_extensions"].append((t, body.take_all()))


def dec_handshake(msg, data):
    """Strict decode of ONE handshake message at the start of data.
    returns (value, meta {ext_order, notes, consumed})"""
    root = SR(data)
    t = root.u(1, "msg_type")
    if t != HS_TYPE[msg]:
        raise Reject(ILLEGAL, "input", "handshake type %d is not %s" % (t, msg))
    r = root.vec(3, "msg")
    meta = {"ext_order": [], "notes": []}
    notes = meta["notes"]
    if msg in ("client_hello", "server_hello"):
        ver = r.u(2, "legacy_version")
        if ver != LEGACY_VERSION:
            raise Reject(ILLEGAL, r.path(), "legacy_version 0x%04x" % ver)
        v = {"random": r.take(32, "random"), "legacy_session_id": r.vec(1, "legacy_session_id").take_all()}
        if len(v["legacy_session_id"]) > 32:
            notes.append("legacy_session_id longer than 32")
        if msg == "client_hello":
            v["cipher_suites"] = _r_u_list(r, 2, "cipher_suites", 2)
            v["legacy_compression_methods"] = _r_u_list(r, 1, "legacy_compression_methods", 1)
            if not v["cipher_suites"] or not v["legacy_compression_methods"]:
                notes.append("empty cipher_suites / compression methods")
            v.update(alpn_protocols=None, early_data=False, key_share=None, pre_shared_key=None,
                     psk_key_exchange_modes=None, server_name=None, signature_algorithms=None,
                     supported_groups=None, supported_versions=None)
        else:
            v["cipher_suite"] = r.u(2, "cipher_suite")
            v["compression_method"] = r.u(1, "legacy_compression_method")
            v.update(key_share=None, pre_shared_key=None, supported_version=None)
        _dec_extensions(msg, r, v, meta)
    elif msg == "encrypted_extensions":
        v = {"alpn_protocol": None, "early_data": False}
        _dec_extensions(msg, r, v, meta)
    elif msg == "certificate_request":
        v = {"request_context": r.vec(1, "certificate_request_context").take_all(), "signature_algorithms": None}
        _dec_extensions(msg, r, v, meta)
    elif msg == "certificate":
        v = {"request_context": r.vec(1, "certificate_request_context").take_all(), "certificates": []}
        lst = r.vec(3, "certificate_list")
        while lst.remaining():
            cert = lst.vec(3, "cert_data").take_all()
            if not cert:
                notes.append("empty cert_data")
            v["certificates"].append((cert, lst.vec(2, "entry_extensions").take_all()))
    elif msg == "certificate_verify":
        v = {"algorithm": r.u(2, "algorithm"), "signature": r.vec(2, "signature").take_all()}
    elif msg == "finished":
        v = {"verify_data": r.take_all()}
    elif msg == "new_session_ticket":
        v = {"ticket_lifetime": r.u(4, "ticket_lifetime"), "ticket_age_add": r.u(4, "ticket_age_add"),
             "ticket_nonce": r.vec(1, "ticket_nonce").take_all(), "ticket": r.vec(2, "ticket").take_all(),
             "max_early_data_size": None}
        if not v["ticket"]:
            notes.append("empty ticket")
        _dec_extensions(msg, r, v, meta)
    else:
        raise AssertionError(msg)
    r.done()
    meta["consumed"] = root.pos
    return v, meta
