"""E3: two real QuicConnections on a virtual clock and a hostile in-memory network.

The driver is the only caller of the public sans-IO API and does what the documentation
prescribes: after connect / receive_datagram / handle_timer / an application call it drains
next_event(), calls datagrams_to_send(now), then get_timer() and schedules handle_timer at
that deadline (plus a seeded lateness >= 0).  Every emitted datagram is shown to the
independent wire tap (vf.refwire.Tap) and gets a *fate* that depends only on
(direction, datagram index) and the seed, never on content.
"""

from __future__ import annotations

import heapq
import io
import math
import os
import random

from .common import Violation, exc_signature, exc_witness, prf_bytes
from .refwire import Tap

CERTS = os.path.join(os.path.dirname(os.path.abspath(__file__)), "certs")
CLIENT_ADDR = ("1.2.3.4", 1234)
CLIENT_ADDR2 = ("1.2.3.5", 4321)
PROBE_ADDR = ("1.2.3.7", 7777)  # source of forged path probes (op "forge" with from_alt); what the server sends there is blackholed
CLIENT_ADDR3 = ("1.2.3.6", 5678)  # after a second rebinding (fates["rebind_again_after"])
SERVER_ADDR = ("2.3.4.5", 4433)


def client_addr(k: int):
    """0: the client's address, 1: its address after rebinding, >=2: spoofed third-party addresses."""
    if k == 0:
        return CLIENT_ADDR
    if k == 1:
        return CLIENT_ADDR2
    if k == -1:
        return CLIENT_ADDR3
    return ("6.6.6.%d" % (k % 250), 6000 + k)

V1 = 0x00000001
V2 = 0x6B3343CF


class ApiRaised(Exception):
    def __init__(self, endpoint, call, exc):
        super().__init__("%s.%s raised %r" % (endpoint, call, exc))
        self.endpoint, self.call, self.exc = endpoint, call, exc


class Monitor:
    """Base class: override what you need. `evaluations` must count real oracle evaluations."""

    name = "monitor"

    def __init__(self):
        self.evaluations = 0

    def attach(self, sim):
        self.sim = sim

    def on_event(self, ep, event, t):
        pass

    def on_datagram_out(self, ep, rec, t):
        """rec: DatagramRecord (data, addr, views, index)"""

    def on_deliver(self, ep, rec, from_addr, t, altered=False):
        """called just before ep.receive_datagram"""

    def after_deliver(self, ep, rec, from_addr, t, altered=False):
        pass

    def before_send(self, ep, t):
        """called just before datagrams_to_send"""

    def on_step(self, ep, t, cause):
        """called after every driver step (events drained, datagrams sent, timer read)"""

    def on_app(self, ep, op, t, outcome):
        pass

    def at_end(self, sim):
        pass


class DatagramRecord:
    __slots__ = ("sender", "index", "data", "addr", "views", "t_out", "fate")

    def __init__(self, sender, index, data, addr, views, t_out):
        self.sender, self.index, self.data, self.addr, self.views, self.t_out = sender, index, data, addr, views, t_out
        self.fate = None


class Endpoint:
    def __init__(self, name, conn, addr):
        self.name = name
        self.conn = conn
        self.addr = addr
        self.events = []
        self.terminated = False
        self.term_event = None
        self.handshake_complete = False
        self.started = False  # connect() called / first datagram received
        self.timer_at = None
        self.timer_gen = 0
        self.out_count = 0
        self.known_streams = set()
        self.send_closed = set()  # streams on which we may not write any more
        self.calls = 0
        self.timer_fired = 0
        self.pto_fired_since_send = False
        self.spin = 0


def make_configs(opts: dict):
    """Build client and server QuicConfiguration from a JSON-able option dict."""
    from aioquic.quic.configuration import QuicConfiguration

    def versions(v):
        return [{"v1": V1, "v2": V2}[x] for x in v]

    ccfg = QuicConfiguration(
        is_client=True,
        alpn_protocols=opts.get("alpn", ["vf"]),
        congestion_control_algorithm=opts.get("cc", "reno"),
        idle_timeout=opts.get("idle_client", 600.0),
        max_datagram_size=opts.get("mds_client", 1200),
        max_data=opts.get("max_data_client", 1048576),
        max_stream_data=opts.get("max_stream_data_client", 1048576),
        supported_versions=versions(opts.get("versions_client", ["v1", "v2"])),
        max_datagram_frame_size=opts.get("dgram_frame_size", 65536),
        server_name="localhost",
    )
    if opts.get("original_version"):
        ccfg.original_version = {"v1": V1, "v2": V2}[opts["original_version"]]
    if opts.get("cipher_suites_client"):
        from aioquic.tls import CipherSuite

        ccfg.cipher_suites = [CipherSuite[x] for x in opts["cipher_suites_client"]]
    ccfg.load_verify_locations(cafile=os.path.join(CERTS, "pycacert.pem"))
    scfg = QuicConfiguration(
        is_client=False,
        alpn_protocols=opts.get("alpn_server", opts.get("alpn", ["vf"])),
        congestion_control_algorithm=opts.get("cc_server", opts.get("cc", "reno")),
        idle_timeout=opts.get("idle_server", 600.0),
        max_datagram_size=opts.get("mds_server", 1200),
        max_data=opts.get("max_data_server", 1048576),
        max_stream_data=opts.get("max_stream_data_server", 1048576),
        supported_versions=versions(opts.get("versions_server", ["v1", "v2"])),
        max_datagram_frame_size=opts.get("dgram_frame_size", 65536),
    )
    if opts.get("cipher_suites_server"):
        from aioquic.tls import CipherSuite

        scfg.cipher_suites = [CipherSuite[x] for x in opts["cipher_suites_server"]]
    if opts.get("cert_kind") == "ec":
        # small self-signed P-256 certificate: the server's handshake flight fits in one datagram
        cert, key, pem = _ec_cert()
        scfg.certificate, scfg.certificate_chain, scfg.private_key = cert, [], key
        ccfg.cafile = None
        ccfg.cadata = pem
    else:
        scfg.load_cert_chain(os.path.join(CERTS, opts.get("certfile", "ssl_cert.pem")), os.path.join(CERTS, "ssl_key.pem"))
    return ccfg, scfg


_EC_CACHE = []


def _ec_cert():
    if not _EC_CACHE:
        import datetime

        from cryptography import x509
        from cryptography.hazmat.primitives import hashes, serialization
        from cryptography.hazmat.primitives.asymmetric import ec

        key = ec.generate_private_key(ec.SECP256R1())
        name = x509.Name([x509.NameAttribute(x509.NameOID.COMMON_NAME, "localhost")])
        now = datetime.datetime.now(datetime.timezone.utc)
        cert = (
            x509.CertificateBuilder().subject_name(name).issuer_name(name).public_key(key.public_key())
            .serial_number(x509.random_serial_number()).not_valid_before(now - datetime.timedelta(days=1))
            .not_valid_after(now + datetime.timedelta(days=10))
            .add_extension(x509.SubjectAlternativeName([x509.DNSName("localhost")]), critical=False)
            .sign(key, hashes.SHA256())
        )
        _EC_CACHE.append((cert, key, cert.public_bytes(serialization.Encoding.PEM)))
    return _EC_CACHE[0]


class TicketStore:
    """Server-side session-ticket store (what examples/http3_server.SessionTicketStore does)."""

    def __init__(self):
        self.tickets = {}
        self.client = []
        self.fetched = 0

    def add(self, ticket):
        self.tickets[ticket.ticket] = ticket

    def pop(self, label):
        self.fetched += 1
        return self.tickets.pop(label, None)


def prime_session(opts: dict):
    """A first, lossless connection with the same configuration (plus the overrides in
    opts['resume']) whose only purpose is to obtain a session ticket: the client remembers the
    server's transport parameters of *that* connection for 0-RTT in the next one.
    Returns (ticket or None, TicketStore)."""
    from aioquic.quic.connection import QuicConnection

    popts = dict(opts)
    popts.update(opts.get("resume") or {})
    popts.pop("resume", None)
    ccfg, scfg = make_configs(popts)
    store = TicketStore()
    client = QuicConnection(configuration=ccfg, session_ticket_handler=store.client.append)
    apply_conn_opts(client, popts, "client")
    client.connect(SERVER_ADDR, now=0.0)
    server = None
    now = 0.0
    for _ in range(30):
        for data, _a in client.datagrams_to_send(now=now):
            if server is None:
                server = QuicConnection(configuration=scfg, original_destination_connection_id=data[6 : 6 + data[5]],
                                        session_ticket_handler=store.add, session_ticket_fetcher=store.pop)
                apply_conn_opts(server, popts, "server")
            server.receive_datagram(data, CLIENT_ADDR, now=now)
        if server is not None:
            for data, _a in server.datagrams_to_send(now=now):
                client.receive_datagram(data, SERVER_ADDR, now=now)
        now += 0.01
        while client.next_event() is not None:
            pass
        while server is not None and server.next_event() is not None:
            pass
        if store.client:
            break
    return (store.client[0] if store.client else None), store


def apply_conn_opts(conn, opts, side):
    """Workload setup that QuicConfiguration does not expose: the stream-count limits an endpoint
    advertises (max_streams_bidi_<side>, max_streams_uni_<side>). Set before the handshake."""
    for kind in ("bidi", "uni"):
        v = opts.get("max_streams_%s_%s" % (kind, side))
        if v is not None:
            lim = getattr(conn, "_local_max_streams_" + kind)
            lim.value = v
            lim.sent = v
    # the three per-stream transport parameters an endpoint advertises (QuicConfiguration sets all of them to
    # max_stream_data): msd_bidi_local_<side> = streams it opens itself, msd_bidi_remote_<side> = streams the
    # peer opens, msd_uni_<side> = the peer's unidirectional streams
    for which in ("bidi_local", "bidi_remote", "uni"):
        v = opts.get("msd_%s_%s" % (which, side))
        if v is not None:
            setattr(conn, "_local_max_stream_data_" + which, v)
    # transport parameters another stack could advertise but aioquic hard-codes (advertise_<side> = {field: value}, e.g.
    # max_ack_delay in ms, ack_delay_exponent): the endpoint's own behaviour is unchanged, only what it tells its peer
    adv = opts.get("advertise_" + side)
    if adv:
        from aioquic.buffer import Buffer
        from aioquic.quic.packet import pull_quic_transport_parameters, push_quic_transport_parameters

        orig = conn._serialize_transport_parameters

        def serialize(_orig=orig, _adv=dict(adv)):
            params = pull_quic_transport_parameters(Buffer(data=_orig()))
            for k, v in _adv.items():
                setattr(params, k, v)
            buf = Buffer(capacity=2048)
            push_quic_transport_parameters(buf, params)
            return buf.data

        conn._serialize_transport_parameters = serialize


class Fates:
    """Content-independent per-datagram fates. deliveries(direction, index, t) ->
    list of (delay, alt_addr: bool, corrupt: bool)."""

    def __init__(self, seed, params: dict):
        self.seed = seed
        self.p = params
        self.counts = {"drop": 0, "dup": 0, "delayed": 0, "rebound": 0, "deliver": 0, "corrupt_first": 0, "blackout": 0}
        self.adversarial_until = params.get("adv_seconds", 5.0)
        self.adversarial_dgrams = params.get("adv_dgrams", 400)
        self.seen = 0
        self.fair_since = None

    def adversarial(self, t):
        return t < self.adversarial_until and self.seen < self.adversarial_dgrams

    def deliveries(self, direction, index, t, rebound=None):
        p = self.p
        base = p.get("delay", 0.02)
        self.seen += 1
        rebind_after = p.get("rebind_after")  # client datagram index from which the source address changes
        alt = direction == "c2s" and rebind_after is not None and index >= rebind_after
        if rebound is not None:
            # the simulator decides when the rebinding takes effect (never before the handshake has completed on both
            # sides: QUIC relies on a stable address for the duration of the handshake, RFC 9000 section 9)
            alt = {0: False, 1: True, 2: -1}[int(rebound)] if direction == "c2s" else False
        if alt:
            self.counts["rebound"] += 1
        forced = p.get("forced", {}).get("%s:%d" % (direction, index))
        spoof = []
        if direction == "c2s" and index < p.get("spoof_datagrams", 1) and p.get("spoof_first"):
            # the same bytes also arrive from k third-party source addresses (address spoofing)
            spoof = [(base * (1.0 + 0.1 * i), 2 + i, False) for i in range(p["spoof_first"])]
            self.counts["spoofed"] = self.counts.get("spoofed", 0) + len(spoof)
        if not self.adversarial(t) and forced is None:
            if self.fair_since is None:
                self.fair_since = t
            self.counts["deliver"] += 1
            return [(base, alt, False)] + spoof
        rng = random.Random("%s/%s/%d" % (self.seed, direction, index))
        if forced is not None:
            kind = forced
        else:
            for bo in p.get("blackouts", []):
                lo, hi = bo[0], bo[1]
                if lo <= t < hi and (len(bo) < 3 or bo[2] == direction):
                    self.counts["blackout"] += 1
                    return []
            r = rng.random()
            loss = p.get("loss", 0.0)
            for lw in p.get("loss_windows", []):
                # [t0, t1, direction, probability]: loss rate of one direction during a window
                if lw[0] <= t < lw[1] and lw[2] == direction:
                    loss = lw[3]
            if r < loss:
                kind = "drop"
            elif r < loss + p.get("dup", 0.0):
                kind = "dup"
            else:
                kind = "ok"
        out = []
        if kind == "drop":
            self.counts["drop"] += 1
            return []
        jitter = p.get("jitter", 0.0)

        def d():
            if jitter and rng.random() < p.get("reorder", 0.3):
                self.counts["delayed"] += 1
                return base + rng.random() * jitter
            return base

        if kind == "dup" or (isinstance(kind, str) and kind.startswith("dup")):
            k = int(kind[3:]) if len(kind) > 3 else rng.choice([2, 2, 3, 4])
            self.counts["dup"] += 1
            out = [(d() + i * 1e-4, alt, False) for i in range(k)]
        elif isinstance(kind, str) and kind.startswith("late:"):
            # forced fate: this datagram is held back for the given number of seconds
            self.counts["delayed"] += 1
            out = [(base + float(kind[5:]), alt, False)]
        else:
            out = [(d(), alt, False)]
        if p.get("corrupt_first", 0.0) and rng.random() < p["corrupt_first"]:
            self.counts["corrupt_first"] += 1
            out.insert(0, (max(out[0][0] - 1e-5, 0.0), alt, True))
        self.counts["deliver"] += 1
        return out + spoof


class SimNet:
    def __init__(self, opts: dict, fates: Fates, script: list, monitors: list, seed=0, lateness=0.0, tap=True,
                 horizon=200.0, step_cap=40000, client_conn_kwargs=None, server_conn_kwargs=None, use_keylog=True,
                 config_hook=None, key_hook=False):
        from aioquic.quic.connection import QuicConnection

        self.opts = opts
        self.rng = random.Random("sim/%s" % seed)
        self.seed = seed
        self.fates = fates
        self.monitors = monitors
        self.lateness = lateness
        self.horizon = horizon
        self.step_cap = step_cap
        self.now = 0.0
        self.q = []
        self.seq = 0
        self.steps = 0
        self.history = []
        self.keylog = io.StringIO() if use_keylog else None
        ccfg, scfg = make_configs(opts)
        if use_keylog:
            ccfg.secrets_log_file = self.keylog
            scfg.secrets_log_file = self.keylog
        if config_hook is not None:
            config_hook(ccfg, scfg)
        self.key_hook = key_hook
        self.ccfg, self.scfg = ccfg, scfg
        self.tap = Tap({"client": ccfg.connection_id_length, "server": scfg.connection_id_length}) if tap else None
        self.ticket_store = None
        self.resumed_with_ticket = False
        self.frontend = {"vn": 0, "retry": 0, "token_ok": 0, "token_bad": 0}
        self.retry_handler = None
        server_conn_kwargs = dict(server_conn_kwargs or {})
        if opts.get("resume") is not None:
            # session resumption / 0-RTT: a priming connection produced the ticket the client now offers
            ticket, store = prime_session(opts)
            self.ticket_store = store
            if ticket is not None:
                ccfg.session_ticket = ticket
                self.resumed_with_ticket = True
            if opts.get("resume_forget"):
                # the server has lost its ticket store (restart): it cannot accept the PSK nor the 0-RTT packets,
                # falls back to a full handshake, and the client has to send its early data again in 1-RTT packets
                store.tickets.clear()
            client_conn_kwargs = dict(client_conn_kwargs or {})
            client_conn_kwargs.setdefault("session_ticket_handler", store.client.append)
            server_conn_kwargs.setdefault("session_ticket_handler", store.add)
            server_conn_kwargs.setdefault("session_ticket_fetcher", store.pop)
        self.client = Endpoint("client", QuicConnection(configuration=ccfg, **(client_conn_kwargs or {})), CLIENT_ADDR)
        apply_conn_opts(self.client.conn, opts, "client")
        if key_hook:
            self._hook_keys(self.client.conn, "client")
        self.server = None
        self.server_conn_kwargs = server_conn_kwargs or {}
        self.script = sorted(script, key=lambda o: o["t"])
        self.pending_server_ops = []
        self.stopped_reason = None
        self.datagrams = {"client": [], "server": []}
        self.in_flight = 0
        self.timer_spins = 0
        self.spin_sources = {}
        self.stale_address_drops = 0
        self.addresses_seen_by_server = set()
        self.rebound_at = None  # index of the first client datagram that left from the new address
        self.rebound_again_at = None
        self.forged = 0
        self.zeno = []  # (endpoint, deadline source, deadline, now): expired deadline re-armed twice at the same instant without progress
        self.corrupt_pos = None
        self.written = {}  # (side, stream_id) -> bytes written
        self.fin_written = set()
        self.reset_by_sender = set()  # (side, sid)
        self.stop_requested = set()  # (receiver side, sid)
        self.pings = {}  # (side, uid) -> acked count
        self.dgram_frames_sent = {"client": [], "server": []}
        for m in monitors:
            m.attach(self)
        for op in self.script:
            self._push(op["t"], "app", op)

    # ------------------------------------------------------------ plumbing
    def other(self, ep):
        return self.server if ep is self.client else self.client

    def ep(self, name):
        return self.client if name == "client" else self.server

    def _push(self, t, kind, payload):
        self.seq += 1
        heapq.heappush(self.q, (t, self.seq, kind, payload))

    def call(self, ep, name, *args, **kw):
        ep.calls += 1
        try:
            ret = getattr(ep.conn, name)(*args, **kw)
        except Exception as exc:
            self.history.append((round(self.now, 6), ep.name, name, "RAISED %r" % exc))
            raise ApiRaised(ep.name, name, exc)
        if len(self.history) < 5000:
            self.history.append((round(self.now, 6), ep.name, name, _digest_args(args), _digest_ret(ret)))
        return ret

    def _hook_keys(self, conn, side):
        """Give the tap the traffic secrets without using the library's secrets log (needed when the
        property under test is about that log): wrap the traffic-key callback on the instance."""
        orig = conn._update_traffic_key
        tap = self.tap

        def wrapper(direction, epoch, cipher_suite, secret):
            if tap is not None:
                sending = direction.name == "ENCRYPT"
                owner = side if sending else ("server" if side == "client" else "client")
                ename = epoch.name
                label = {"HANDSHAKE": "%s_HANDSHAKE_TRAFFIC_SECRET", "ONE_RTT": "%s_TRAFFIC_SECRET_0", "ZERO_RTT": "%s_EARLY_TRAFFIC_SECRET"}.get(ename)
                if label:
                    tap.add_secret(label % owner.upper(), bytes(secret))
            return orig(direction, epoch, cipher_suite, secret)

        conn._update_traffic_key = wrapper

    def views_possibly_intact(self, rec, altered):
        """PacketViews of a delivered datagram that may have reached the receiver unmodified: all of
        them for a genuine delivery; for a corrupted copy those whose bytes do not contain the
        flipped byte (a superset of what the receiver can authenticate)."""
        if not altered:
            return list(rec.views or [])
        out, pos = [], 0
        for v in rec.views or []:
            if not (pos <= (self.corrupt_pos if self.corrupt_pos is not None else -1) < pos + v.size):
                out.append(v)
            pos += v.size
        return out

    # ------------------------------------------------------------ driver cycle
    def _after(self, ep, cause):
        """drain events, transmit, re-arm timer."""
        self._drain_events(ep)
        for m in self.monitors:
            m.before_send(ep, self.now)
        dgrams = self.call(ep, "datagrams_to_send", now=self.now)
        for data, addr in dgrams:
            self._emit(ep, data, addr)
        self._drain_events(ep)
        t = self.call(ep, "get_timer")
        if t != ep.timer_at:
            ep.timer_at = t
            ep.timer_gen += 1
            if t is not None and not (isinstance(t, float) and (math.isnan(t) or math.isinf(t))):
                late = self.lateness * self.rng.random() if self.lateness else 0.0
                if t <= self.now and cause == "timer":
                    # the connection re-armed an already expired deadline right after its timer fired
                    # (e.g. an ACK it may not send yet on an amplification-limited path). A real event
                    # loop would spin; virtual time must still advance, so fire with growing lateness
                    # (firing late is always allowed to the caller).
                    ep.spin += 1
                    ep.spin_total = getattr(ep, "spin_total", 0) + 1
                    self.timer_spins += 1
                    src = self._timer_source(ep.conn, t)
                    self.spin_sources[src] = self.spin_sources.get(src, 0) + 1
                    if ep.spin == 1 and not self.lateness and not ep.terminated:
                        # would a caller that fires timers *exactly* at the requested deadline ever get past this
                        # instant? Fire once more at the same `now`: the same expired deadline again, with nothing
                        # sent and no event, is a fixed point (virtual time can never advance for such a caller).
                        n_out, n_ev = ep.out_count, len(ep.events)
                        self.call(ep, "handle_timer", now=self.now)
                        self._drain_events(ep)
                        for m in self.monitors:
                            m.before_send(ep, self.now)
                        for data, addr in self.call(ep, "datagrams_to_send", now=self.now):
                            self._emit(ep, data, addr)
                        self._drain_events(ep)
                        t2 = self.call(ep, "get_timer")
                        if t2 == t and ep.out_count == n_out and len(ep.events) == n_ev:
                            self.zeno.append((ep.name, src.split("[")[0], t, self.now))
                        elif t2 is None or (isinstance(t2, float) and (math.isnan(t2) or math.isinf(t2))) or t2 > self.now:
                            ep.spin = 0
                        t = ep.timer_at = t2
                        if t is None or (isinstance(t, float) and (math.isnan(t) or math.isinf(t))):
                            for m in self.monitors:
                                m.on_step(ep, self.now, cause)
                            return
                    late += min(0.001 * (2 ** min(ep.spin, 10)), 0.05)
                else:
                    ep.spin = 0
                self._push(max(t, self.now) + late, "timer", (ep.name, ep.timer_gen))
        for m in self.monitors:
            m.on_step(ep, self.now, cause)

    @staticmethod
    def _timer_source(conn, t):
        """which of the connection's deadlines equals the timer it asked for (hooked state, diagnosis only)"""
        loss = conn._loss
        for i, space in enumerate(loss.spaces):
            if space.ack_at is not None and space.ack_at == t:
                return "ack_at[%d]" % i
        for i, space in enumerate(loss.spaces):
            if space.loss_time is not None and space.loss_time == t:
                return "loss_time[%d]" % i
        if loss.get_loss_detection_time() == t:
            return "probe-timeout"
        if getattr(conn, "_pacing_at", None) == t:
            return "pacing"
        if conn._close_at == t:
            return "close_at"
        return "unknown"

    def _drain_events(self, ep):
        while True:
            ev = self.call(ep, "next_event")
            if ev is None:
                break
            name = type(ev).__name__
            ep.events.append((self.now, ev))
            if name == "HandshakeCompleted":
                ep.handshake_complete = True
            elif name == "ConnectionTerminated":
                ep.terminated = True
                ep.term_event = ev
            elif name in ("StreamDataReceived", "StreamReset", "StopSendingReceived"):
                ep.known_streams.add(ev.stream_id)
                if name == "StopSendingReceived":
                    ep.send_closed.add(ev.stream_id)
            elif name == "PingAcknowledged":
                k = (ep.name, ev.uid)
                self.pings[k] = self.pings.get(k, 0) + 1
            for m in self.monitors:
                m.on_event(ep, ev, self.now)

    def _emit(self, ep, data, addr):
        views = None
        if self.tap is not None:
            if self.keylog is not None:
                self.tap.add_keylog(self.keylog.getvalue())
            views = self.tap.on_datagram(ep.name, data, self.now)
        rec = DatagramRecord(ep.name, ep.out_count, data, addr, views, self.now)
        ep.out_count += 1
        self.datagrams[ep.name].append(rec)
        for m in self.monitors:
            m.on_datagram_out(ep, rec, self.now)
        direction = "c2s" if ep is self.client else "s2c"
        rebound = None
        rebind_after = self.fates.p.get("rebind_after")
        if rebind_after is not None:
            if (ep is self.client and self.rebound_at is None and rec.index >= rebind_after
                    and self.client.handshake_complete and self.server is not None and self.server.handshake_complete
                    and getattr(self.client.conn, "_handshake_confirmed", True)):
                # (confirmed = the client has received HANDSHAKE_DONE, hooked read: until then it may only probe with
                # Handshake packets, which a server that already dropped its handshake keys cannot use to learn the new address)
                self.rebound_at = rec.index
            again = self.fates.p.get("rebind_again_after")
            if ep is self.client and again is not None and self.rebound_at is not None and self.rebound_again_at is None and rec.index >= max(again, self.rebound_at + 1):
                self.rebound_again_at = rec.index  # a second rebinding: third address
            rebound = 0 if self.rebound_at is None else (1 if self.rebound_again_at is None else 2)
        fate = self.fates.deliveries(direction, rec.index, self.now, rebound=rebound)
        rec.fate = fate
        if ep is self.server and addr not in (CLIENT_ADDR, CLIENT_ADDR2, CLIENT_ADDR3):
            rec.fate = "blackholed (sent to a third-party address)"
            return
        if ep is self.server:
            # a NAT rebinding kills the old binding: once the client's datagrams leave from its new address, whatever the
            # server still sends to an address the client does not have (any more / yet) goes nowhere
            current = CLIENT_ADDR if self.rebound_at is None else (CLIENT_ADDR2 if self.rebound_again_at is None else CLIENT_ADDR3)
            if addr != current and current in self.addresses_seen_by_server:
                # (only once a datagram from the new address has reached the server: until then the server cannot know
                # better, and a silent client whose first datagram from the new address was lost would be cut off for
                # good by the network alone — the old binding lingers until the new one has been used end to end)
                rec.fate = "blackholed (sent to %r, the client is at %r)" % (addr, current)
                self.stale_address_drops += 1
                return
        for delay, alt, corrupt in fate:
            self.in_flight += 1
            self._push(self.now + delay, "deliver", (rec, alt, corrupt))

    def _frontend_send(self, data, addr):
        """A datagram from the server's front-end (Version Negotiation, Retry): same network, no connection behind it."""
        n = sum(self.frontend.values())
        rec = DatagramRecord("frontend", -1 - n, data, addr, None, self.now)
        fate = self.fates.deliveries("s2c", 100000 + n, self.now)
        rec.fate = fate
        if addr not in (CLIENT_ADDR, CLIENT_ADDR2, CLIENT_ADDR3):
            return
        for delay, _alt, _corrupt in fate:
            self.in_flight += 1
            self._push(self.now + delay, "deliver", (rec, False, False))

    def _ensure_server(self, first_datagram: bytes, src=CLIENT_ADDR):
        from aioquic.quic.connection import QuicConnection

        if self.server is not None:
            return True
        # what any QUIC server front-end does: read the DCID of the first long-header packet
        if len(first_datagram) < 7 or not first_datagram[0] & 0x80:
            return False
        dlen = first_datagram[5]
        dcid = first_datagram[6 : 6 + dlen]
        rscid = None
        if self.opts.get("retry") or self.opts.get("frontend_vn"):
            # ... and, like aioquic.asyncio.server.QuicServer, answer an unsupported version with Version
            # Negotiation and (opts["retry"]) a token-less Initial with a Retry
            from aioquic.buffer import Buffer
            from aioquic.quic.packet import QuicPacketType, encode_quic_retry, encode_quic_version_negotiation, pull_quic_header

            try:
                header = pull_quic_header(Buffer(data=first_datagram), host_cid_length=self.scfg.connection_id_length)
            except ValueError:
                return False
            if header.version is not None and header.version not in self.scfg.supported_versions:
                self.frontend["vn"] += 1
                self._frontend_send(encode_quic_version_negotiation(
                    source_cid=header.destination_cid, destination_cid=header.source_cid, supported_versions=self.scfg.supported_versions), src)
                return False
            if len(first_datagram) < 1200 or header.packet_type != QuicPacketType.INITIAL:
                return False
            if self.opts.get("retry"):
                if self.retry_handler is None:
                    from aioquic.quic.retry import QuicRetryTokenHandler

                    self.retry_handler = QuicRetryTokenHandler()
                if not header.token:
                    scid = bytes(self.rng.getrandbits(8) for _ in range(8))
                    self.frontend["retry"] += 1
                    self._frontend_send(encode_quic_retry(
                        version=header.version, source_cid=scid, destination_cid=header.source_cid,
                        original_destination_cid=header.destination_cid,
                        retry_token=self.retry_handler.create_token(src, header.destination_cid, scid)), src)
                    return False
                try:
                    dcid, rscid = self.retry_handler.validate_token(src, header.token)
                    self.frontend["token_ok"] += 1
                except ValueError:
                    self.frontend["token_bad"] += 1
                    return False
        conn = QuicConnection(configuration=self.scfg, original_destination_connection_id=dcid, retry_source_connection_id=rscid, **self.server_conn_kwargs)
        apply_conn_opts(conn, self.opts, "server")
        if self.key_hook:
            self._hook_keys(conn, "server")
        self.server = Endpoint("server", conn, SERVER_ADDR)
        return True

    # ------------------------------------------------------------ run
    def run(self):
        c = self.client
        c.started = True
        self.call(c, "connect", SERVER_ADDR, now=self.now)
        self._after(c, "connect")
        while self.q:
            t, _s, kind, payload = heapq.heappop(self.q)
            if t > self.horizon:
                self.stopped_reason = "horizon"
                break
            self.steps += 1
            if self.steps > self.step_cap:
                self.stopped_reason = "step-cap"
                break
            self.now = max(self.now, t)
            if kind == "deliver":
                rec, alt, corrupt = payload
                self.in_flight -= 1
                if rec.sender == "client":
                    if not self._ensure_server(rec.data, client_addr(int(alt))):
                        continue
                    dst, src = self.server, client_addr(int(alt))
                    self.addresses_seen_by_server.add(src)
                else:
                    dst, src = self.client, SERVER_ADDR
                data = rec.data
                self.corrupt_pos = None
                if corrupt:
                    b = bytearray(data)
                    pos = (rec.index * 7919 + 13) % len(b)
                    b[pos] ^= 0x20
                    data = bytes(b)
                    self.corrupt_pos = pos
                for m in self.monitors:
                    m.on_deliver(dst, rec, src, self.now, altered=corrupt)
                dst.started = True
                self.call(dst, "receive_datagram", data, src, now=self.now)
                for m in self.monitors:
                    m.after_deliver(dst, rec, src, self.now, altered=corrupt)
                self._after(dst, "receive")
            elif kind == "timer":
                name, gen = payload
                ep = self.ep(name)
                if ep is None or gen != ep.timer_gen:
                    continue
                ep.timer_fired += 1
                ep.timer_at = None
                self.call(ep, "handle_timer", now=self.now)
                self._after(ep, "timer")
            elif kind == "app":
                self._app(payload)
            if self._done():
                self.stopped_reason = "done"
                break
        else:
            self.stopped_reason = "queue-empty"
        for m in self.monitors:
            m.at_end(self)
        return self

    def _done(self):
        """Stop early once the adversarial phase is over, nothing is on the wire, no app op is
        pending and every monitor that tracks completion is satisfied."""
        if self.in_flight or self.fates.adversarial(self.now):
            return False
        if any(k == "app" for (_t, _s, k, _p) in self.q) or self.pending_server_ops:
            return False
        for m in self.monitors:
            d = getattr(m, "complete", None)
            if d is not None and not d():
                return False
        # let acknowledgements settle: nothing in flight and no near timer
        near = [t for (t, _s, k, p) in self.q if k == "timer" and self.ep(p[0]) is not None and p[1] == self.ep(p[0]).timer_gen]
        if near and min(near) < self.now + 1.0:
            return False
        return True

    # ------------------------------------------------------------ application ops
    def _app(self, op):
        side = op["side"]
        ep = self.ep(side)
        early = bool(op.get("early")) and ep is not None
        if ep is None or (side == "server" and not ep.handshake_complete and not early):
            # a server application can only act once it has a connection (ops marked "early" may act
            # before the handshake completes: 0.5-RTT data in answer to 0-RTT data)
            if op.get("_defer", 0) < 400:
                op = dict(op, _defer=op.get("_defer", 0) + 1)
                self._push(self.now + 0.05, "app", op)
            return
        if op.get("after_handshake") and not ep.handshake_complete and not ep.terminated:
            # an application that waits for the handshake to complete before it acts (no early data)
            if op.get("_defer", 0) < 4000:
                op = dict(op, _defer=op.get("_defer", 0) + 1)
                self._push(self.now + 0.01, "app", op)
            return
        if early and op["op"] == "write" and op.get("wait_stream") and op["sid"] not in ep.known_streams and not ep.terminated:
            # answer to a stream of the peer that has not shown up yet: look again shortly
            if op.get("_defer", 0) < 2000:
                op = dict(op, _defer=op.get("_defer", 0) + 1)
                self._push(self.now + 0.005, "app", op)
            return
        if ep.terminated:
            return
        kind = op["op"]
        outcome = "done"
        sid = op.get("sid")
        if kind == "write":
            peer_initiated = (sid % 2 == 0) != (side == "client")
            if sid in ep.send_closed:
                outcome = "skipped-closed"
            elif peer_initiated and sid not in ep.known_streams:
                outcome = "skipped-unknown-stream"
            else:
                key = (side, sid)
                off = self.written.get(key, 0)
                data = prf_bytes("%s/%s/%d" % (self.seed, side, sid), op["n"], off)
                self.call(ep, "send_stream_data", sid, data, end_stream=bool(op.get("fin")))
                self.written[key] = off + op["n"]
                if op.get("fin"):
                    self.fin_written.add(key)
                    ep.send_closed.add(sid)
        elif kind == "reset":
            peer_initiated = (sid % 2 == 0) != (side == "client")
            if peer_initiated and sid not in ep.known_streams:
                outcome = "skipped-unknown-stream"
            elif (side, sid) not in self.written and peer_initiated:
                outcome = "skipped"
            else:
                try:
                    self.call(ep, "reset_stream", sid, op.get("code", 7))
                    self.reset_by_sender.add((side, sid))
                except ApiRaised as ar:
                    # a peer-initiated stream that has already finished in both directions is
                    # forgotten by the connection; the documented answer is ValueError
                    if peer_initiated and isinstance(ar.exc, ValueError):
                        outcome = "rejected-valueerror"
                    else:
                        raise
                ep.send_closed.add(sid)
        elif kind == "stop":
            if sid in ep.known_streams or (side, sid) in self.written:
                try:
                    self.call(ep, "stop_stream", sid, op.get("code", 9))
                    self.stop_requested.add((side, sid))
                except ApiRaised as ar:
                    if isinstance(ar.exc, ValueError):
                        outcome = "rejected-valueerror"
                    else:
                        raise
            else:
                outcome = "skipped-unknown-stream"
        elif kind == "ping":
            self.call(ep, "send_ping", op["uid"])
            self.pings.setdefault((side, op["uid"]), 0)
        elif kind == "key_update":
            if ep.handshake_complete:
                self.call(ep, "request_key_update")
            else:
                outcome = "skipped-no-handshake"
        elif kind == "change_cid":
            self.call(ep, "change_connection_id")
        elif kind == "dgram":
            if ep.handshake_complete:
                self.call(ep, "send_datagram_frame", prf_bytes("dg/%s/%s/%d" % (self.seed, side, op["uid"]), op["n"]))
            else:
                outcome = "skipped-no-handshake"
        elif kind == "inject":
            # hostile bytes handed to the endpoint as a datagram from its peer's address
            data = bytes.fromhex(op["hex"]) if "hex" in op else self._mutated(op)
            if data is None:
                outcome = "skipped"
            else:
                src = SERVER_ADDR if side == "client" else CLIENT_ADDR
                ep.started = True
                self.call(ep, "receive_datagram", data, src, now=self.now)
        elif kind == "forge":
            # a packet the genuine peer *could* have sent (its current send keys, a fresh packet number, the
            # connection ID it currently addresses) whose frames are a protocol violation: fatal error at `side`
            data = self._forged(ep, op)
            if op.get("require_stream") is not None and op["require_stream"] not in ep.conn._streams:
                outcome = "skipped-precondition"  # the frame would refer to a stream the endpoint has not opened (yet)
            elif data is None:
                outcome = "skipped-no-keys"
            else:
                src = SERVER_ADDR if side == "client" else CLIENT_ADDR
                if op.get("from_alt") and side == "server":
                    src = PROBE_ADDR  # a path probe from an address the client never sends its traffic from
                # the monitors see it like any other delivery: the tap reads it with the peer's keys
                peer = self.other(ep)
                views = None
                if self.tap is not None:
                    if self.keylog is not None:
                        self.tap.add_keylog(self.keylog.getvalue())
                    views = self.tap.on_datagram(peer.name, data, self.now)
                self.forged += 1
                rec = DatagramRecord(peer.name, -1000 - self.forged, data, ep.addr, views, self.now)
                rec.fate = "forged"
                for m in self.monitors:
                    m.on_deliver(ep, rec, src, self.now, altered=False)
                self.call(ep, "receive_datagram", data, src, now=self.now)
                for m in self.monitors:
                    m.after_deliver(ep, rec, src, self.now, altered=False)
        elif kind == "close":
            self.call(ep, "close", error_code=op.get("code", 0), frame_type=op.get("frame_type"), reason_phrase=op.get("reason", ""))
        else:
            raise ValueError("unknown op %r" % kind)
        for m in self.monitors:
            m.on_app(ep, op, self.now, outcome)
        self._after(ep, "app:" + kind)


def _sim_mutated(self, op):
    """A mutated copy of an earlier genuine datagram: op = {of: [sender, index], flips: [[pos, mask]...], trunc: n}"""
    sender, index = op["of"]
    recs = self.datagrams[sender]
    if index >= len(recs):
        return None
    b = bytearray(recs[index].data)
    for pos, mask in op.get("flips", []):
        b[pos % len(b)] ^= mask
    if op.get("trunc"):
        b = b[: max(1, len(b) - op["trunc"])]
    return bytes(b)


SimNet._mutated = _sim_mutated


def _sim_forged(self, victim, op):
    from aioquic import tls

    from . import frames as F
    from . import refcrypto as rc
    from .puppet import SUITE_NAME, TYPE_CODE

    peer = self.other(victim)
    if peer is None:
        return None
    ptype = op.get("ptype", "1rtt")
    epoch = {"initial": tls.Epoch.INITIAL, "handshake": tls.Epoch.HANDSHAKE, "1rtt": tls.Epoch.ONE_RTT}[ptype]
    pair = peer.conn._cryptos.get(epoch)
    ctx = pair.send if pair is not None else None
    if ctx is None or getattr(ctx, "secret", None) is None or ctx.cipher_suite is None:
        return None
    keys = rc.Keys(SUITE_NAME[int(ctx.cipher_suite)], bytes(ctx.secret), int(ctx.version))
    if ptype == "1rtt" and not peer.handshake_complete:
        return None
    # the packet takes the peer's next packet number, which is then reserved (written to hooked state) so that the
    # genuine peer never reuses it: as far as numbering goes the peer has sent one more packet
    pn = peer.conn._packet_number + int(op.get("pn_gap", 0))  # pn_gap: packet numbers the peer "skipped" (or whose packets were lost)
    if not op.get("pn_no_reserve"):
        peer.conn._packet_number = pn + 1
    # (pn_no_reserve: an attacker's packet far ahead in a long-header space, which the genuine peer never reaches there)
    payload = bytes.fromhex(op["frames_hex"])
    if len(payload) < 3:
        payload += bytes(3 - len(payload))
    dcid = bytes(peer.conn._peer_cid.cid)
    version = int(peer.conn._version)
    first_or = int(op.get("first_or", 0))  # e.g. 0x08 / 0x10: reserved bits of a short header (protected, so only visible after removal of header protection)
    if ptype == "1rtt":
        hdr = bytes([0x40 | (ctx.key_phase << 2) | 1 | first_or]) + dcid
    else:
        scid = bytes(peer.conn.host_cid)
        hdr = bytes([0xC0 | (TYPE_CODE[version][ptype] << 4) | 1]) + version.to_bytes(4, "big") + bytes([len(dcid)]) + dcid + bytes([len(scid)]) + scid
        if ptype == "initial":
            hdr += F.enc_varint(0)
        if op.get("pad_to"):
            # PADDING frames up to a datagram of exactly pad_to bytes (header + 2-byte length + 2-byte packet number + payload + tag)
            payload += bytes(max(0, op["pad_to"] - len(hdr) - 2 - 2 - 16 - len(payload)))
        hdr += F.enc_varint(2 + len(payload) + 16, 2)
    return rc.protect(keys, hdr, pn, 2, payload)


SimNet._forged = _sim_forged


def _digest_args(args):
    out = []
    for a in args:
        if isinstance(a, (bytes, bytearray)):
            out.append("bytes[%d]" % len(a))
        else:
            out.append(repr(a)[:40])
    return out


def _digest_ret(ret):
    if ret is None:
        return None
    if isinstance(ret, list):
        return "list[%d]" % len(ret)
    return repr(ret)[:80]


def run_sim(sim: SimNet):
    """Run and convert API exceptions into Violation (shared by C01/C05/C09...)."""
    try:
        sim.run()
    except ApiRaised as ar:
        raise Violation(
            exc_signature(ar.exc, "api:%s:" % ar.call),
            "%s.%s raised %r at t=%.4f" % (ar.endpoint, ar.call, ar.exc, sim.now),
            dict(exc_witness(ar.exc), history_tail=sim.history[-25:]),
        )
    return sim
