"""Helpers shared by property modules (child side)."""

from __future__ import annotations

import hashlib
import os
import random
import traceback


class Violation(Exception):
    """Raised by a monitor. signature names the failing *mechanism* (never a seed)."""

    def __init__(self, signature: str, what: str, witness=None):
        super().__init__("%s: %s" % (signature, what))
        self.signature = signature
        self.what = what
        self.witness = witness


class Result:
    """Accumulates a run_batch result."""

    def __init__(self):
        self.evaluations = 0
        self.nontrivial = set()
        self.violations = []
        self.counters = {}
        self.samples = []
        self.inconclusive = []

    def count(self, name, n=1):
        self.counters[name] = self.counters.get(name, 0) + n

    def maxc(self, name, v):
        # stored as counter (summed across batches), so keep only as a per-batch max
        self.counters[name] = max(self.counters.get(name, 0), v)

    def sample(self, s, limit=3):
        if len(self.samples) < limit:
            self.samples.append(s)

    def violation(self, signature, what, case, witness=None):
        # keep at most 3 witnesses per signature per batch
        n = sum(1 for v in self.violations if v["signature"] == signature)
        if n < 3:
            self.violations.append(
                {"signature": signature, "what": what, "case": case, "witness": witness}
            )
        self.count("violations_seen")

    def as_dict(self):
        return {
            "evaluations": self.evaluations,
            "nontrivial": sorted(self.nontrivial),
            "violations": self.violations,
            "counters": self.counters,
            "samples": self.samples,
            "inconclusive": self.inconclusive[:50],
        }


def h(*parts) -> str:
    return hashlib.sha1(repr(parts).encode()).hexdigest()[:12]


def exc_signature(exc: BaseException, prefix: str = "") -> str:
    """<ExceptionType>@<innermost aioquic function>[:<assert message>]"""
    tb = traceback.extract_tb(exc.__traceback__)
    func = "?"
    for fr in reversed(tb):
        if "/aioquic/" in fr.filename.replace("\\", "/"):
            func = "%s.%s" % (os.path.basename(fr.filename)[:-3], fr.name)
            break
    sig = "%s%s@%s" % (prefix, type(exc).__name__, func)
    if isinstance(exc, AssertionError) and exc.args:
        sig += ":" + str(exc.args[0])[:40].replace(" ", "-")
    return sig


def exc_witness(exc: BaseException) -> dict:
    return {
        "exception": repr(exc)[:500],
        "traceback": "".join(traceback.format_exception(type(exc), exc, exc.__traceback__))[-3000:],
    }


class SeededUrandom:
    """Replace os.urandom with a seeded stream so that packet boundaries replay."""

    def __init__(self, seed):
        self._rng = random.Random(seed)
        self._orig = os.urandom

    def __call__(self, n):
        return self._rng.getrandbits(8 * n).to_bytes(n, "big") if n else b""

    def install(self):
        os.urandom = self

    def uninstall(self):
        os.urandom = self._orig


def prf_bytes(key: str, n: int, offset: int = 0) -> bytes:
    """Self-identifying payload: bytes [offset, offset+n) of the stream keyed by key."""
    out = bytearray()
    blk = offset // 32
    skip = offset % 32
    while len(out) < n + skip:
        out += hashlib.sha256(("%s/%d" % (key, blk)).encode()).digest()
        blk += 1
    return bytes(out[skip : skip + n])
