"""E2: independent wire reader (tap) for datagrams emitted by either endpoint.

Header parsing for QUIC v1 (RFC 9000) and v2 (RFC 9369), packet unprotection with keys
taken from NSS key-log lines (or handed in directly), frame parsing to the last byte.
Shares no code with aioquic.
"""

from __future__ import annotations

from dataclasses import dataclass, field

from cryptography.exceptions import InvalidTag

from . import refcrypto as rc
from .frames import ParseError, Reader, is_ack_eliciting, is_in_flight, parse_frames

LONG_TYPES = {
    rc.V1: {0: "initial", 1: "0rtt", 2: "handshake", 3: "retry"},
    rc.V2: {1: "initial", 2: "0rtt", 3: "handshake", 0: "retry"},
}
SPACE_OF = {"initial": "I", "handshake": "H", "0rtt": "A", "1rtt": "A"}  # A = application data space


@dataclass
class PacketView:
    sender: str
    t: float
    dgram_index: int
    dgram_len: int
    ptype: str  # initial / handshake / 0rtt / 1rtt / retry / vn / padding / unknown
    size: int = 0
    version: int | None = None
    dcid: bytes = b""
    scid: bytes = b""
    token: bytes = b""
    pn: int | None = None
    pn_len: int | None = None
    key_phase: int | None = None
    first_byte: int | None = None
    frames: list = field(default_factory=list)
    ack_eliciting: bool = False
    in_flight: bool = False
    error: str | None = None  # set when the tap could not open/parse the packet
    supported_versions: list = field(default_factory=list)
    retry_tag_ok: bool | None = None
    suite: str | None = None

    @property
    def space(self):
        return SPACE_OF.get(self.ptype)

    def brief(self):
        fr = ",".join(f["name"] for f in self.frames)
        return "%s %s pn=%s len=%d [%s]%s" % (self.sender, self.ptype, self.pn, self.size, fr, " ERR=" + self.error if self.error else "")


class Tap:
    """Passive observer. Feed every datagram either endpoint emits, in emission order."""

    def __init__(self, cid_len=None):
        # cid_len[x] = length of the connection IDs *issued by* endpoint x (= DCID length of short
        # header packets sent *to* x)
        self.cid_len = cid_len or {"client": 8, "server": 8}
        self.secrets = {}  # label -> list of secrets (bytes), insertion ordered, de-duplicated
        self.direct_keys = {}  # (sender, ptype) -> list[Keys]  (handed in without key log)
        self.initial_dcids = []  # candidate DCIDs for initial key derivation (client's first DCIDs)
        self.largest = {}  # (sender, space) -> largest pn seen
        self.good = {}  # (sender, ptype) -> Keys that worked last
        self.phase = {}  # sender -> dict(cur, bit, prev, next)
        self.version = {}  # sender -> last negotiated version seen in long headers
        self.dgram_counter = {"client": 0, "server": 0}
        self.packets = []  # all PacketViews in emission order
        self.undecryptable = 0
        self.client_odcid = None

    # -------------------------------------------------------------- key material
    def add_keylog(self, text: str):
        for line in text.splitlines():
            parts = line.split()
            if len(parts) != 3:
                continue
            lab, _cr, sec = parts
            try:
                s = bytes.fromhex(sec)
            except ValueError:
                continue
            lst = self.secrets.setdefault(lab, [])
            if s not in lst:
                lst.append(s)

    def add_secret(self, label: str, secret: bytes):
        lst = self.secrets.setdefault(label, [])
        if secret not in lst:
            lst.append(secret)

    def _label(self, sender, ptype):
        side = "CLIENT" if sender == "client" else "SERVER"
        if ptype == "handshake":
            return side + "_HANDSHAKE_TRAFFIC_SECRET"
        if ptype == "1rtt":
            return side + "_TRAFFIC_SECRET_0"
        if ptype == "0rtt":
            return "CLIENT_EARLY_TRAFFIC_SECRET"
        return None

    def _candidates(self, sender, ptype, version):
        """Yield Keys candidates for a packet of this type."""
        g = self.good.get((sender, ptype))
        if g is not None and (version is None or g.version == version):
            yield g
        if ptype == "initial":
            for dcid in reversed(self.initial_dcids):
                c, s = rc.initial_keys(version, dcid)
                yield c if sender == "client" else s
            return
        versions = [version] if version is not None else []
        if not versions:
            v = self.version.get(sender) or self.version.get("server") or self.version.get("client")
            versions = [v] if v else []
            for v in (rc.V1, rc.V2):
                if v not in versions:
                    versions.append(v)
        for sec in reversed(self.secrets.get(self._label(sender, ptype), [])):
            for suite, (hn, _kl, _k) in rc.SUITES.items():
                import hashlib

                if hashlib.new(hn).digest_size != len(sec):
                    continue
                for v in versions:
                    yield rc.Keys(suite, sec, v)

    # -------------------------------------------------------------- datagrams
    def on_datagram(self, sender: str, data: bytes, t: float = 0.0) -> list:
        idx = self.dgram_counter[sender]
        self.dgram_counter[sender] += 1
        views = []
        pos = 0
        n = len(data)
        while pos < n:
            first = data[pos]
            if first & 0x80:
                v, used = self._long(sender, data, pos, t, idx)
            elif first & 0x40:
                v, used = self._short(sender, data, pos, t, idx)
            else:
                rest = data[pos:]
                if any(rest):
                    v = PacketView(sender, t, idx, n, "unknown", size=len(rest), error="fixed bit clear / garbage")
                else:
                    v = PacketView(sender, t, idx, n, "padding", size=len(rest))
                used = len(rest)
            views.append(v)
            pos += used
            if v.error and v.ptype in ("unknown",):
                break
        self.packets.extend(views)
        return views

    def _long(self, sender, data, pos, t, idx):
        n = len(data)
        r = Reader(data, pos)
        try:
            first = r.u8()
            version = r.uint(4)
            dcid = r.take(r.u8())
            scid = r.take(r.u8())
        except ParseError as exc:
            return PacketView(sender, t, idx, n, "unknown", size=n - pos, error="long header: %s" % exc), n - pos
        if version == 0:
            v = PacketView(sender, t, idx, n, "vn", size=n - pos, version=0, dcid=dcid, scid=scid, first_byte=first)
            rest = data[r.p :]
            if len(rest) % 4 or not rest:
                v.error = "version negotiation list length %d" % len(rest)
            v.supported_versions = [int.from_bytes(rest[i : i + 4], "big") for i in range(0, len(rest) - len(rest) % 4, 4)]
            return v, n - pos
        if version not in LONG_TYPES:
            return PacketView(sender, t, idx, n, "unknown", size=n - pos, version=version, error="unknown version 0x%x" % version), n - pos
        ptype = LONG_TYPES[version][(first >> 4) & 3]
        if not first & 0x40:
            return PacketView(sender, t, idx, n, "unknown", size=n - pos, version=version, error="fixed bit clear in long header"), n - pos
        if ptype == "retry":
            rest = data[r.p :]
            v = PacketView(sender, t, idx, n, "retry", size=n - pos, version=version, dcid=dcid, scid=scid, first_byte=first)
            if len(rest) < 16:
                v.error = "retry shorter than integrity tag"
                return v, n - pos
            v.token = rest[:-16]
            if self.client_odcid is not None:
                v.retry_tag_ok = rc.retry_tag(version, self.client_odcid, data[pos : n - 16]) == rest[-16:]
            return v, n - pos
        token = b""
        try:
            if ptype == "initial":
                token = r.take(r.varint())
            length = r.varint()
        except ParseError as exc:
            return PacketView(sender, t, idx, n, ptype, size=n - pos, version=version, error="long header: %s" % exc), n - pos
        pn_off = r.p - pos
        end = r.p + length
        v = PacketView(sender, t, idx, n, ptype, version=version, dcid=dcid, scid=scid, token=token, first_byte=first)
        if end > n:
            v.size = n - pos
            v.error = "length field %d exceeds datagram" % length
            return v, n - pos
        v.size = end - pos
        pkt = data[pos:end]
        if ptype == "initial" and sender == "client":
            if self.client_odcid is None:
                self.client_odcid = dcid
            if dcid not in self.initial_dcids:
                self.initial_dcids.append(dcid)
        self._open(v, pkt, pn_off, sender, ptype, version)
        if v.error is None and ptype in ("initial", "handshake"):
            self.version[sender] = version
        return v, end - pos

    def _short(self, sender, data, pos, t, idx):
        n = len(data)
        other = "server" if sender == "client" else "client"
        cl = self.cid_len[other]
        pkt = data[pos:]
        v = PacketView(sender, t, idx, n, "1rtt", size=len(pkt), first_byte=data[pos])
        if len(pkt) < 1 + cl + 4 + 16:
            v.error = "short header packet too short"
            return v, len(pkt)
        v.dcid = pkt[1 : 1 + cl]
        self._open(v, pkt, 1 + cl, sender, "1rtt", None)
        return v, len(pkt)

    def _open(self, v, pkt, pn_off, sender, ptype, version):
        space = SPACE_OF[ptype]
        expected = self.largest.get((sender, space), -1) + 1
        tried = 0
        for keys in self._candidates(sender, ptype, version):
            tried += 1
            try:
                first, pn_len, trunc, header = rc.unprotect_header(keys, pkt, pn_off)
            except ValueError as exc:
                v.error = str(exc)
                return
            pn = rc.decode_pn(trunc, 8 * pn_len, expected)
            ct = pkt[pn_off + pn_len :]
            plain = None
            used = keys
            if ptype == "1rtt":
                bit = (first >> 2) & 1
                st = self.phase.get(sender)
                if st is None or st["base"].secret != keys.secret or st["base"].suite != keys.suite or st["base"].version != keys.version:
                    st = {"base": keys, "cur": keys, "bit": 0, "prev": None, "gen": 0}
                    fresh = True
                else:
                    fresh = False
                # A passive observer may have missed a whole key phase (an endpoint that followed its
                # peer's update and then updated again without sending anything in between), so look
                # up to three generations ahead; parity of the distance is given by the phase bit.
                n1 = st["cur"].next_phase()
                if bit == st["bit"]:
                    order = [(0, st["cur"]), (2, None)]
                else:
                    order = [(1, n1), (-1, st["prev"]), (3, None)]
                for ahead, k in order:
                    if k is None and ahead in (2, 3):
                        k = n1.next_phase() if ahead == 2 else n1.next_phase().next_phase()
                    if k is None:
                        continue
                    try:
                        plain = k.open(pn, header, ct)
                    except InvalidTag:
                        continue
                    used = k
                    if ahead > 0:
                        prev = st["cur"] if ahead == 1 else (n1 if ahead == 2 else n1.next_phase())
                        st["prev"], st["cur"], st["bit"] = prev, k, bit
                        st["gen"] += ahead
                    break
                if plain is not None:
                    self.phase[sender] = st
                    v.key_phase = bit
                elif fresh:
                    pass
            else:
                try:
                    plain = keys.open(pn, header, ct)
                except InvalidTag:
                    plain = None
            if plain is None:
                continue
            self.good[(sender, ptype)] = keys
            v.first_byte = first
            v.pn, v.pn_len = pn, pn_len
            v.suite = used.suite
            if pn > self.largest.get((sender, space), -1):
                self.largest[(sender, space)] = pn
            try:
                v.frames = parse_frames(plain)
            except ParseError as exc:
                v.error = "frame parse: %s" % exc
                return
            v.ack_eliciting = is_ack_eliciting(v.frames)
            v.in_flight = is_in_flight(v.frames)
            reserved = 0x18 if ptype == "1rtt" else 0x0C
            if first & reserved:
                v.error = "reserved bits set (0x%02x)" % first
            return
        self.undecryptable += 1
        v.error = "cannot unprotect (%d key candidates tried)" % tried

    def key_generation(self, sender):
        st = self.phase.get(sender)
        return st["gen"] if st else 0
