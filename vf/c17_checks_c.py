"""C17 — value->bytes->value checks, part C: transport parameters and TLS handshake messages."""

from __future__ import annotations

import random

from . import c17_gens as G
from . import c17_refcodec as R
from .c17_adapters import (AQ, TLS_FN, TLS_MSGS, check_bytes, mutate_cases, tls_form_aq, tls_form_ref, tls_to_aq,
                           tp_form_aq, tp_form_ref, tp_to_aq)
from .c17_checks_a import Ctx
from .common import exc_signature, exc_witness


def _diff(a, b):
    if isinstance(a, dict) and isinstance(b, dict):
        return "+".join(sorted(k for k in set(a) | set(b) if a.get(k) != b.get(k)))
    return "value"


# ------------------------------------------------------------------ transport parameters


def tp_value(cx, v, rng, sig):
    res = cx.res
    aq = AQ.get()
    res.count("tp_values")
    want = tp_form_ref(v)
    try:
        ref, _ = R.enc_transport_parameters(v)
    except R.Unrepresentable:
        ref = None
    obj = tp_to_aq(v)
    buf = aq.Buffer(capacity=(len(ref) if ref else 0) + 200000)
    try:
        aq.packet.push_quic_transport_parameters(buf, obj)
    except Exception as exc:
        if ref is not None:
            res.violation(exc_signature(exc, "codec:tp:encode:"), "push_quic_transport_parameters raised %r on a representable value" % exc,
                          cx.case(), exc_witness(exc))
        else:
            res.count("tp_unrepresentable_raised")
        return
    data = buf.data
    if ref is None:
        res.violation("codec:tp:encodes-unrepresentable-value", "encoder returned for a value the reference cannot represent", cx.case())
        return
    # O1
    try:
        back = aq.packet.pull_quic_transport_parameters(aq.Buffer(data=data))
    except Exception as exc:
        res.violation("codec:tp:decode-rejects-own-encoding", "pull raised %r" % exc, cx.case(), exc_witness(exc))
        return
    res.count("tp_roundtrips")
    if tp_form_aq(back) != tp_form_aq(obj):
        res.violation("codec:tp:roundtrip-mismatch", "decode(encode(v)) != v: " + _diff(tp_form_aq(back), tp_form_aq(obj)), cx.case())
    # cross-decode: reference reads aioquic's bytes
    try:
        rv, meta = R.dec_transport_parameters(data)
    except R.Reject as rej:
        res.violation("codec:tp:reference-rejects-encoding:" + rej.cls, "reference decoder: %s" % rej, cx.case(), {"data": data[:300].hex()})
        return
    res.count("tp_cross_decodes")
    got = tp_form_ref(rv)
    if got != want or meta["unknown"]:
        res.violation("codec:tp:encoding-differs-from-reference:" + (_diff(got, want) or "unknown-ids"),
                      "the reference decoder reads a different value from aioquic's encoding", cx.case(),
                      {"data": data[:300].hex(), "unknown": repr(meta["unknown"])[:200]})
    else:
        # byte equality once the (free) parameter order is aligned
        ref_o, _ = R.enc_transport_parameters(v, order=meta["order"])
        res.count("tp_byte_equal_checks")
        if ref_o != data:
            res.violation("codec:tp:bytes-differ-from-reference", "same order, different bytes", cx.case(),
                          {"aioquic": data[:300].hex(), "reference": ref_o[:300].hex()})
    # cross-decode: aioquic reads the reference's bytes (shuffled order, unknown ids, non-minimal lengths)
    order = list(meta["order"])
    rng.shuffle(order)
    unknown = [(rng.choice((0x21, 0x1B * 31 + 27, 0x3FFF, 0x4000, (1 << 62) - 1, 0x2AB2)), G.rbytes(rng, rng.choice((0, 1, 9))))
               for _ in range(rng.choice((0, 0, 1, 2)))]
    unknown = [u for k, u in enumerate(unknown) if u[0] not in R.TP and u[0] not in [x[0] for x in unknown[:k]]]
    enc2, _ = R.enc_transport_parameters(v, order=order, unknown=unknown, len_size=rng.choice((None, None, 2, 4, 8)))
    try:
        back2 = aq.packet.pull_quic_transport_parameters(aq.Buffer(data=enc2))
    except Exception as exc:
        res.violation("codec:tp:decode-rejects-valid-encoding", "pull of the reference encoding raised %r" % exc, cx.case(),
                      dict(exc_witness(exc), data=enc2[:300].hex()))
        return
    res.count("tp_cross_decodes")
    if tp_form_aq(back2) != want:
        res.violation("codec:tp:decode-differs-from-reference:" + _diff(tp_form_aq(back2), want),
                      "aioquic reads a different value from the reference encoding", cx.case(), {"data": enc2[:300].hex()})
    res.nontrivial.add(sig)


def gen_tp_values(batch, res):
    cx = Ctx(batch, res)
    rng = random.Random(batch["seed"])
    if batch.get("singletons"):
        for sig, v in G.tp_singletons(rng):
            if cx.next():
                res.evaluations += 1
                tp_value(cx, v, rng, "tp:" + sig)
        res.count("tp_singleton_sets_done")
    for _ in range(batch.get("n", 0)):
        sig, v = G.tp_random(rng)
        if cx.next():
            res.evaluations += 1
            tp_value(cx, v, rng, "tp:" + sig)


def gen_tp_bytes(batch, res):
    rng = random.Random(batch["seed"])
    for _ in range(batch["n"]):
        _, v = G.tp_random(rng)
        unknown = [(0x21, b"\x01\x02")] if rng.random() < 0.3 else []
        data, lens = R.enc_transport_parameters(v, unknown=unknown, len_size=rng.choice((None, None, 2)))
        for kind, mut in mutate_cases(data, lens, rng, nflips=20):
            res.evaluations += 1
            res.nontrivial.add("tp:bytes:%s:%s" % (kind, check_bytes("tp", mut, None, res, kind)))
    for _ in range(batch.get("nbytes", 0)):
        data = G.rbytes(rng, rng.choice((0, 1, 2, 3, 5, 9, 30)))
        res.evaluations += 1
        res.nontrivial.add("tp:bytes:random:" + check_bytes("tp", data, None, res, "random"))


# ------------------------------------------------------------------ TLS handshake messages


def tls_value(cx, msg, v, rng, sig):
    res = cx.res
    aq = AQ.get()
    res.count(msg + "_values")
    pull, push = (getattr(aq.tls, n) for n in TLS_FN[msg])
    want = tls_form_ref(msg, v)
    try:
        ref, _ = R.enc_handshake(msg, v)
    except R.Unrepresentable:
        ref = None
    obj = tls_to_aq(msg, v)
    buf = aq.Buffer(capacity=(len(ref) + 64) if ref else 1 << 20)
    try:
        push(buf, obj)
    except Exception as exc:
        if ref is not None:
            res.violation(exc_signature(exc, "codec:%s:encode:" % msg), "%s raised %r on a representable value" % (TLS_FN[msg][1], exc),
                          cx.case(), exc_witness(exc))
        else:
            res.count(msg + "_unrepresentable_raised")
            res.nontrivial.add(sig + ":unrepresentable")
        return
    data = buf.data
    if ref is None:
        res.violation("codec:%s:encodes-unrepresentable-value" % msg, "encoder returned for a value whose fields do not fit their length prefixes",
                      cx.case(), {"data": data[:200].hex()})
        return
    # O1
    try:
        b = aq.Buffer(data=data)
        back = pull(b)
    except Exception as exc:
        res.violation("codec:%s:decode-rejects-own-encoding" % msg, "%s raised %r" % (TLS_FN[msg][0], exc), cx.case(), exc_witness(exc))
        return
    res.count(msg + "_roundtrips")
    if back != obj or b.tell() != len(data):
        res.violation("codec:%s:roundtrip-mismatch" % msg, "decode(encode(v)) != v: " + _diff(tls_form_aq(msg, back), tls_form_aq(msg, obj)), cx.case())
    # cross-decode: reference reads aioquic's bytes
    try:
        rv, meta = R.dec_handshake(msg, data)
    except R.Reject as rej:
        res.violation("codec:%s:reference-rejects-encoding:%s" % (msg, rej.cls), "reference decoder: %s" % rej, cx.case(), {"data": data[:300].hex()})
        return
    res.count(msg + "_cross_decodes")
    got = tls_form_ref(msg, rv)
    if got != want or meta["consumed"] != len(data):
        res.violation("codec:%s:encoding-differs-from-reference:%s" % (msg, _diff(got, want) or "length"),
                      "the reference decoder reads a different value from aioquic's encoding", cx.case(), {"data": data[:300].hex()})
    else:
        ref_o, _ = R.enc_handshake(msg, v, order=meta["ext_order"])
        res.count(msg + "_byte_equal_checks")
        if ref_o != data:
            res.violation("codec:%s:bytes-differ-from-reference" % msg, "same extension order, different bytes", cx.case(),
                          {"aioquic": data[:300].hex(), "reference": ref_o[:300].hex()})
    # cross-decode: aioquic reads the reference's bytes with the extensions in another order
    order = [t for t in meta["ext_order"] if t != 41]
    rng.shuffle(order)
    enc2, _ = R.enc_handshake(msg, v, order=order + [41])
    try:
        back2 = pull(aq.Buffer(data=enc2))
    except Exception as exc:
        res.violation("codec:%s:decode-rejects-valid-encoding" % msg, "pull of the reference encoding raised %r" % exc, cx.case(),
                      dict(exc_witness(exc), data=enc2[:300].hex()))
        return
    res.count(msg + "_cross_decodes")
    f2 = tls_form_aq(msg, back2)
    w2 = dict(want)
    if "other_extensions" in w2:  # unknown extensions keep the order in which they were sent
        w2["other_extensions"] = sorted(w2["other_extensions"])
        f2["other_extensions"] = sorted(f2["other_extensions"])
    if f2 != w2:
        res.violation("codec:%s:decode-differs-from-reference:%s" % (msg, _diff(f2, w2)),
                      "aioquic reads a different value from the reference encoding", cx.case(), {"data": enc2[:300].hex()})
    res.nontrivial.add("%s:L%d" % (sig, len(data).bit_length()))


def gen_tls_values(batch, res):
    cx = Ctx(batch, res)
    rng = random.Random(batch["seed"])
    msg = batch["msg"]
    pats = list(G.tls_patterns(msg))
    for rep in range(batch["reps"]):
        for pat, nother in pats:
            sig, v = G.gen_tls(msg, rng, pat, nother)
            if cx.next():
                res.evaluations += 1
                tls_value(cx, msg, v, rng, "tls:" + sig)
    res.count(msg + "_presence_patterns_done", len(pats))


def gen_tls_bytes(batch, res):
    rng = random.Random(batch["seed"])
    msg = batch["msg"]
    for _ in range(batch["n"]):
        _, v = G.small_tls(msg, rng)
        try:
            data, lens = R.enc_handshake(msg, v)
        except R.Unrepresentable:
            continue
        if len(data) > 3000:
            continue
        for kind, mut in mutate_cases(data, lens, rng, nflips=24, keep_first=True):
            res.evaluations += 1
            res.nontrivial.add("%s:bytes:%s:%s" % (msg, kind, check_bytes(msg, mut, None, res, kind)))
    t = bytes([R.HS_TYPE[msg]])
    for _ in range(batch.get("nbytes", 0)):
        n = rng.choice((0, 3, 4, 10, 40, 80))
        body = G.rbytes(rng, n)
        data = t + (len(body).to_bytes(3, "big") if rng.random() < 0.7 else b"") + body
        res.evaluations += 1
        res.nontrivial.add("%s:bytes:random:%s" % (msg, check_bytes(msg, data, None, res, "random")))


def gen_replay_bytes(batch, res):
    res.evaluations += 1
    out = check_bytes(batch["codec"], bytes.fromhex(batch["hex"]), batch.get("arg"), res, "replay")
    res.nontrivial.add("replay:" + out)
