"""E5: seeds, subprocess fan-out, classification, evidence, replay.

Property modules (vf/props/cNN.py) expose:

  PROPERTY   "C10"
  BUILD      "plain" | "asan" | "asan-halt"              (default "plain")
  LEVEL      "exploration" | ...                          (default "exploration")
  RULE       str   how cases are generated / what is non-trivial / distinct
  ASSUMPTIONS list[str]
  BUDGET     {"quick": seconds, "thorough": seconds}  soft wall budget: no new
             batch is *started* after it (skipped batches are reported)
  plan(tier, seed) -> list[dict]       JSON-serialisable batch descriptors
  run_batch(batch) -> dict             executed in a child process, see below
  floors(tier) -> dict[str,int]        counters that must be reached for "held"
  finalize(tier, merged) -> dict       optional extra coverage keys
  SIGNAL_IS_VIOLATION  bool            child death by signal is a violation

run_batch result:
  {"evaluations": int,
   "nontrivial": [str, ...]         signatures of non-trivial cases (distinct-counted)
   "violations": [{"signature": str, "what": str, "case": <batch dict that
                   reproduces it through run_batch>, "witness": any}],
   "counters": {name: int},         summed over batches
   "samples": [any],                a few concrete cases
   "inconclusive": [str]}           reasons, per case
"""

from __future__ import annotations

import argparse
import concurrent.futures
import hashlib
import importlib
import json
import os
import re
import signal
import subprocess
import sys
import tempfile
import time

from . import build

VERIF = os.path.dirname(os.path.dirname(os.path.abspath(__file__)))
EVIDENCE_DIR = os.path.join(VERIF, "evidence")
REPLAY_DIR = os.path.join(VERIF, "replays")
KNOWN = os.path.join(VERIF, "known_findings.json")


def load_known(prop: str) -> dict:
    try:
        with open(KNOWN) as f:
            doc = json.load(f)
    except FileNotFoundError:
        return {}
    out = {}
    for e in doc.get("findings", []):
        if e.get("property") == prop and e.get("status") == "open":
            out[e["signature"]] = e
    return out


def slug(s: str) -> str:
    s = re.sub(r"[^A-Za-z0-9_.-]+", "_", s)[:80]
    return s or "x"


_SAN_HEAD = re.compile(
    r"(==\d+==ERROR: AddressSanitizer: (?P<asan>[\w-]+)|(?P<ubsan>\S+:\d+:\d+: runtime error: .*))"
)


def parse_sanitizer_log(text: str) -> list[dict]:
    """Split a sanitizer log into report blocks, each with a mechanism signature:
    asan:<bug-type>:<READ|WRITE>:<innermost frame in _crypto.c/_buffer.c>
    ubsan:<file>:<message class>"""
    reports = []
    lines = text.splitlines()
    i = 0
    while i < len(lines):
        m = _SAN_HEAD.search(lines[i])
        if not m:
            i += 1
            continue
        j = i + 1
        while j < len(lines) and not _SAN_HEAD.search(lines[j]):
            j += 1
        block = lines[i:j]
        if m.group("asan"):
            kind = m.group("asan")
            access = ""
            for b in block[:6]:
                mm = re.match(r"\s*(READ|WRITE) of size", b)
                if mm:
                    access = mm.group(1)
                    break
            func = "?"
            for b in block:
                mm = re.search(r"#\d+ \S+ in (\w+) .*?(_crypto|_buffer)\.c", b)
                if mm:
                    func = mm.group(1)
                    break
            sig = "asan:%s:%s:%s" % (kind, access, func)
        else:
            msg = m.group("ubsan")
            mm = re.match(r"(\S+?):(\d+):\d+: runtime error: (.*)", msg)
            fn = os.path.basename(mm.group(1)) if mm else "?"
            text_ = re.sub(r"0x[0-9a-f]+|\d+", "N", mm.group(3)) if mm else msg
            sig = "ubsan:%s:%s" % (fn, text_[:80])
        reports.append({"signature": sig, "block": "\n".join(block[:40])})
        i = j
    return reports


def _run_child(mod_name, batch, stage_dir, kind, timeout, workdir, idx):
    bfile = os.path.join(workdir, "b%05d.json" % idx)
    ofile = os.path.join(workdir, "o%05d.json" % idx)
    with open(bfile, "w") as f:
        json.dump(batch, f)
    extra = {}
    sanlog = None
    if kind.startswith("asan"):
        sanlog = os.path.join(workdir, "san%05d" % idx)
        base = "detect_leaks=0:allocator_may_return_null=1:handle_segv=1:quarantine_size_mb=1:thread_local_quarantine_size_kb=16:malloc_context_size=0:suppress_equal_pcs=0:log_path=" + sanlog
        if kind == "asan-halt":
            base += ":halt_on_error=1:abort_on_error=1"
        else:
            base += ":halt_on_error=0"
        extra["ASAN_OPTIONS"] = base
        extra["UBSAN_OPTIONS"] = "print_stacktrace=1:halt_on_error=0:log_path=" + sanlog
        extra["VF_SANLOG"] = sanlog
    env = build.child_env(stage_dir, kind, extra)
    t0 = time.time()
    res = {"batch_index": idx}
    try:
        p = subprocess.run(
            [build.PYTHON, "-m", "vf.child", mod_name, bfile, ofile],
            env=env,
            cwd=VERIF,
            capture_output=True,
            timeout=timeout,
        )
        res["returncode"] = p.returncode
        res["stderr_tail"] = p.stderr[-3000:].decode("utf8", "replace")
    except subprocess.TimeoutExpired:
        res["timeout"] = True
        res["returncode"] = None
    res["wall"] = time.time() - t0
    if os.path.exists(ofile):
        try:
            with open(ofile) as f:
                res["result"] = json.load(f)
        except Exception as exc:  # truncated output
            res["result_error"] = repr(exc)
    if sanlog:
        logs = ""
        d = os.path.dirname(sanlog)
        for fn in sorted(os.listdir(d)):
            if fn.startswith(os.path.basename(sanlog) + "."):
                with open(os.path.join(d, fn), errors="replace") as f:
                    logs += f.read()
        res["san_reports"] = parse_sanitizer_log(logs)
    for pth in (bfile, ofile):
        try:
            os.unlink(pth)
        except OSError:
            pass
    return res


def main(argv=None) -> int:
    ap = argparse.ArgumentParser()
    ap.add_argument("prop")
    ap.add_argument("--tier", default=os.environ.get("VERIF_TIER", "quick"))
    ap.add_argument("--replay")
    ap.add_argument("--jobs", type=int, default=int(os.environ.get("VERIF_JOBS", "0")))
    ap.add_argument("--budget", type=float, default=None)
    ap.add_argument("--no-evidence", action="store_true")
    args = ap.parse_args(argv)
    prop = args.prop.upper()
    tier = args.tier if args.tier in ("quick", "thorough") else "quick"
    try:
        seed = int(os.environ.get("VERIF_SEED", "0"))
    except ValueError:
        seed = 0
    mod_name = "vf.props." + prop.lower()
    mod = importlib.import_module(mod_name)
    kind = getattr(mod, "BUILD", "plain")
    level = getattr(mod, "LEVEL", "exploration")
    jobs = args.jobs or min(16, os.cpu_count() or 4)
    t_start = time.time()

    try:
        stage_dir = build.stage(kind)
    except build.BuildFailed as exc:
        print("INCONCLUSIVE property=%s reason=build-failed" % prop)
        print(str(exc)[-2000:])
        return 2
    workdir = tempfile.mkdtemp(prefix="vf-work-")
    try:
        if args.replay:
            with open(args.replay) as f:
                rp = json.load(f)
            batches = [rp["case"]]
            seed = rp.get("seed", seed)
            write_evidence = False
        else:
            batches = mod.plan(tier, seed)
            write_evidence = not args.no_evidence
        budget = args.budget or getattr(mod, "BUDGET", {}).get(tier, 600 if tier == "quick" else 3600)
        default_timeout = getattr(mod, "BATCH_TIMEOUT", {}).get(tier, 600 if tier == "quick" else 3600)

        results = []
        skipped = 0
        deadline = t_start + budget
        with concurrent.futures.ThreadPoolExecutor(max_workers=jobs) as ex:
            futs = {}
            it = iter(enumerate(batches))
            pending = set()

            def submit_next():
                nonlocal skipped
                for idx, b in it:
                    if time.time() > deadline and not args.replay:
                        skipped += 1
                        continue
                    fut = ex.submit(
                        _run_child,
                        mod_name,
                        b,
                        stage_dir,
                        kind,
                        b.get("timeout", default_timeout),
                        workdir,
                        idx,
                    )
                    futs[fut] = (idx, b)
                    pending.add(fut)
                    return True
                return False

            for _ in range(jobs):
                if not submit_next():
                    break
            while pending:
                done, _ = concurrent.futures.wait(
                    pending, return_when=concurrent.futures.FIRST_COMPLETED
                )
                for fut in done:
                    pending.discard(fut)
                    idx, b = futs[fut]
                    r = fut.result()
                    r["batch"] = b
                    results.append(r)
                    submit_next()
        results.sort(key=lambda r: r["batch_index"])
        return _aggregate(
            mod, prop, tier, seed, level, kind, results, skipped, len(batches), t_start, write_evidence,
            replaying=bool(args.replay),
        )
    finally:
        build.unstage(stage_dir)
        import shutil

        shutil.rmtree(workdir, ignore_errors=True)


def _aggregate(mod, prop, tier, seed, level, kind, results, skipped, nbatches, t_start, write_evidence, replaying):
    known = load_known(prop)
    evaluations = 0
    nontrivial = set()
    counters: dict = {}
    samples = []
    inconclusive = []
    violations = []  # (signature, what, case, witness)
    for r in results:
        res = r.get("result")
        b = r["batch"]
        rc = r.get("returncode")
        if r.get("timeout"):
            inconclusive.append("batch %d: watchdog timeout" % r["batch_index"])
        elif rc is not None and rc < 0:
            signame = signal.Signals(-rc).name if -rc in [s.value for s in signal.Signals] else str(-rc)
            if getattr(mod, "SIGNAL_IS_VIOLATION", False):
                cur = None
                if res is None:
                    cur = _read_progress(r)
                violations.append(
                    {
                        "signature": "signal:%s" % signame,
                        "what": "child process died on %s" % signame,
                        "case": b,
                        "witness": {"stderr_tail": r.get("stderr_tail", "")[-1500:]},
                    }
                )
            else:
                inconclusive.append("batch %d: child died on %s" % (r["batch_index"], signame))
        elif res is None:
            inconclusive.append(
                "batch %d: no result (rc=%s) %s"
                % (r["batch_index"], rc, (r.get("stderr_tail") or "")[-600:])
            )
        if res is not None:
            if res.get("harness_error"):
                inconclusive.append("batch %d: harness error: %s" % (r["batch_index"], res["harness_error"][-1200:]))
            evaluations += int(res.get("evaluations", 0))
            nontrivial.update(res.get("nontrivial", []))
            for k, v in (res.get("counters") or {}).items():
                if isinstance(v, (int, float)):
                    counters[k] = counters.get(k, 0) + v
            if len(samples) < 8:
                samples.extend((res.get("samples") or [])[: 8 - len(samples)])
            inconclusive.extend(res.get("inconclusive") or [])
            violations.extend(res.get("violations") or [])
        # sanitizer reports not attributed by the child itself
        attributed = set()
        if res is not None:
            for v in res.get("violations") or []:
                attributed.add(v.get("signature"))
        for rep in r.get("san_reports") or []:
            if rep["signature"] not in attributed:
                violations.append(
                    {
                        "signature": rep["signature"],
                        "what": "sanitizer report (not attributed to a case by the child)",
                        "case": b,
                        "witness": {"report": rep["block"]},
                    }
                )
                attributed.add(rep["signature"])

    # classify
    by_sig: dict = {}
    for v in violations:
        by_sig.setdefault(v["signature"], []).append(v)
    unlisted = {s: vs for s, vs in by_sig.items() if s not in known}
    listed = {s: vs for s, vs in by_sig.items() if s in known}

    floors = {"evaluations": 1, "distinct_nontrivial": 2}
    if hasattr(mod, "floors") and not replaying:
        floors.update(mod.floors(tier))
    merged = dict(counters)
    merged["evaluations"] = evaluations
    merged["distinct_nontrivial"] = len(nontrivial)
    unmet = ["%s=%s<%s" % (k, merged.get(k, 0), v) for k, v in floors.items() if merged.get(k, 0) < v]

    wall = time.time() - t_start
    coverage = {
        "evaluations": evaluations,
        "distinct_nontrivial": len(nontrivial),
        "rule": getattr(mod, "RULE", ""),
        "samples": samples[:8] or ["(none)"],
        "counters": counters,
        "batches_planned": nbatches,
        "batches_run": len(results),
        "batches_skipped_by_budget": skipped,
        "inconclusive_cases": len(inconclusive),
        "inconclusive_reasons": sorted(set(x[:300] for x in inconclusive))[:10],
        "known_findings_observed": {s: len(vs) for s, vs in listed.items()},
        "unlisted_violation_signatures": {s: len(vs) for s, vs in unlisted.items()},
        "build": kind,
        "floors": floors,
    }
    if hasattr(mod, "finalize"):
        try:
            coverage.update(mod.finalize(tier, merged) or {})
        except Exception as exc:  # pragma: no cover
            coverage["finalize_error"] = repr(exc)
    if "exhaustive" in coverage and not isinstance(coverage["exhaustive"], bool):
        # the evidence schema wants a boolean; keep a module's description of what it swept under another key
        coverage["exhaustive_note"] = str(coverage["exhaustive"])
        coverage["exhaustive"] = False
    evidence = {
        "property_id": prop,
        "tier": tier,
        "seed": seed,
        "level": level,
        "coverage": coverage,
        "assumptions": list(getattr(mod, "ASSUMPTIONS", [])),
        "wall_s": round(wall, 2),
        "violations": sum(len(v) for v in unlisted.values()),
    }
    if write_evidence:
        os.makedirs(EVIDENCE_DIR, exist_ok=True)
        tmp = os.path.join(EVIDENCE_DIR, prop + ".json.tmp")
        with open(tmp, "w") as f:
            json.dump(evidence, f, indent=1, sort_keys=True, default=str)
        os.replace(tmp, os.path.join(EVIDENCE_DIR, prop + ".json"))

    for s, vs in sorted(listed.items()):
        print("KNOWN-FINDING: property=%s %s [%s] (%d occurrence(s) this run)" % (prop, known[s].get("what", s), s, len(vs)))
    rc = 0
    if unlisted:
        os.makedirs(REPLAY_DIR, exist_ok=True)
        for s, vs in sorted(unlisted.items())[:25]:
            v = vs[0]
            path = os.path.join(REPLAY_DIR, "%s-%s-%d.json" % (prop, slug(s), seed))
            with open(path, "w") as f:
                json.dump(
                    {
                        "property": prop,
                        "signature": s,
                        "what": v.get("what"),
                        "seed": seed,
                        "tier": tier,
                        "case": v.get("case"),
                        "witness": v.get("witness"),
                        "occurrences": len(vs),
                    },
                    f,
                    indent=1,
                    default=str,
                )
            print("VIOLATION property=%s replay=%s" % (prop, path))
            print("  signature=%s what=%s" % (s, str(v.get("what"))[:300]))
        rc = 1
    elif not replaying and sum(1 for x in inconclusive if "harness error" in x or "child died" in x) * 5 > max(1, len(results)):
        # more than a fifth of the batches did not produce a verdict because the harness itself failed: nothing is
        # claimed about the property (never folded into "held")
        print("INCONCLUSIVE property=%s reason=harness-failed-in-%d-of-%d-batches" % (prop, sum(1 for x in inconclusive if "harness error" in x or "child died" in x), len(results)))
        for x in sorted(set(x[-400:].replace("\n", " | ") for x in inconclusive))[:3]:
            print("  " + x)
        rc = 2
    elif unmet and not replaying:
        print("INCONCLUSIVE property=%s reason=floors-not-met %s" % (prop, ",".join(unmet)))
        for x in sorted(set(inconclusive))[:5]:
            print("  " + x[:400])
        rc = 2
    if inconclusive and rc == 0:
        # held on what was explored; the cases below were not decided and are not counted as held
        for x in sorted(set(x[-300:].replace("\n", " | ") for x in inconclusive))[:3]:
            print("  inconclusive-case: " + x)
    print(
        "%s tier=%s seed=%d evaluations=%d distinct_nontrivial=%d batches=%d/%d skipped=%d inconclusive=%d known=%d unlisted=%d wall=%.1fs rc=%d"
        % (prop, tier, seed, evaluations, len(nontrivial), len(results), nbatches, skipped, len(inconclusive), len(listed), len(unlisted), wall, rc)
    )
    return rc


def _read_progress(r):
    return None


def sig_hash(*parts) -> str:
    return hashlib.sha1(repr(parts).encode()).hexdigest()[:12]


if __name__ == "__main__":
    sys.exit(main())
