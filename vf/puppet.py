"""RefPeer: a key-holding peer that speaks for one side of a genuine connection.

A genuine pair (real aioquic client + server) performs (part of) the handshake over a
loss-free in-memory link; the Puppet then snapshots the traffic secrets of one side
("me") and builds arbitrary packets toward the other side (the *victim*, the endpoint
under observation) with vf.refcrypto / vf.frames (independent of aioquic), and reads what
the victim emits with vf.refwire.Tap.

    pair = HandshakePair(opts, seed).complete()          # both sides handshake-complete
    pup = Puppet(pair, me="client")                      # victim = pair.server
    dgram = pup.packet("1rtt", frames.f_ping())          # bytes
    views = pup.deliver(dgram)                           # victim.receive_datagram + transmit cycle, returns PacketViews the victim emitted
    pup.cycle(steps=20)                                  # fire victim timers / transmit until quiet

All calls into the victim go through `pup.call(name, ...)`, which records a history and
re-raises exceptions wrapped in simnet.ApiRaised (so totality monitors can classify them).
"""

from __future__ import annotations

import io

from . import frames as F
from . import refcrypto as rc
from .refwire import LONG_TYPES, Tap
from .simnet import CLIENT_ADDR, SERVER_ADDR, ApiRaised, make_configs

SUITE_NAME = {0x1301: "AES_128_GCM_SHA256", 0x1302: "AES_256_GCM_SHA384", 0x1303: "CHACHA20_POLY1305_SHA256"}
TYPE_CODE = {v: {name: code for code, name in m.items()} for v, m in LONG_TYPES.items()}


class HandshakePair:
    """Two real connections on a loss-free link with a manual clock."""

    def __init__(self, opts=None, seed=0, client_conn_kwargs=None, server_conn_kwargs=None):
        from aioquic.quic.connection import QuicConnection

        self.opts = opts or {}
        self.keylog = io.StringIO()
        self.ccfg, self.scfg = make_configs(self.opts)
        self.ccfg.secrets_log_file = self.keylog
        self.scfg.secrets_log_file = self.keylog
        self.client = QuicConnection(configuration=self.ccfg, **(client_conn_kwargs or {}))
        self.server = None
        self.server_conn_kwargs = server_conn_kwargs or {}
        self.now = 0.0
        self.events = {"client": [], "server": []}
        self.client_odcid = None
        self.wire = []  # (sender, datagram) in emission order

    def _drain(self, name):
        conn = self.client if name == "client" else self.server
        while True:
            ev = conn.next_event()
            if ev is None:
                break
            self.events[name].append(ev)

    def start(self):
        self.client.connect(SERVER_ADDR, now=self.now)
        self.client_odcid = self.client.original_destination_connection_id
        return self

    def transfer(self, sender, limit=None):
        """Move datagrams the sender has pending to the other side. Returns number moved."""
        from aioquic.quic.connection import QuicConnection

        src = self.client if sender == "client" else self.server
        n = 0
        for data, _addr in src.datagrams_to_send(now=self.now):
            self.wire.append((sender, data))
            if sender == "client":
                if self.server is None:
                    self.server = QuicConnection(
                        configuration=self.scfg,
                        original_destination_connection_id=self.client_odcid,
                        **self.server_conn_kwargs,
                    )
                self.server.receive_datagram(data, CLIENT_ADDR, now=self.now)
            else:
                self.client.receive_datagram(data, SERVER_ADDR, now=self.now)
            n += 1
            if limit is not None and n >= limit:
                break
        self._drain("client")
        if self.server is not None:
            self._drain("server")
        return n

    def roundtrips(self, n=1):
        for _ in range(n):
            self.now += 0.01
            self.transfer("client")
            self.now += 0.01
            if self.server is not None:
                self.transfer("server")
        return self

    def complete(self, max_rounds=10):
        """Run until both sides reported HandshakeCompleted and the client saw HANDSHAKE_DONE."""
        self.start()
        for _ in range(max_rounds):
            self.roundtrips(1)
            if (
                self.server is not None
                and any(type(e).__name__ == "HandshakeCompleted" for e in self.events["client"])
                and any(type(e).__name__ == "HandshakeCompleted" for e in self.events["server"])
                and self.client._handshake_confirmed
            ):
                # one more exchange so that pending ACK / NEW_CONNECTION_ID frames settle
                self.now += 0.05
                self.client.handle_timer(now=self.now) if self.client.get_timer() is not None and self.client.get_timer() <= self.now else None
                self.roundtrips(2)
                return self
        raise RuntimeError("handshake did not complete in %d round trips" % max_rounds)


def _snapshot(ctx):
    """(suite name, secret, version) of an aioquic CryptoContext, or None when not set up."""
    if ctx is None or ctx.secret is None or ctx.cipher_suite is None:
        return None
    return (SUITE_NAME[int(ctx.cipher_suite)], bytes(ctx.secret), int(ctx.version))


class Puppet:
    def __init__(self, pair: HandshakePair, me: str = "client", addr=None):
        from aioquic import tls

        self.pair = pair
        self.me_name = me
        self.victim_name = "server" if me == "client" else "client"
        self.me = pair.client if me == "client" else pair.server
        self.victim = pair.server if me == "client" else pair.client
        self.addr = addr or (CLIENT_ADDR if me == "client" else SERVER_ADDR)
        self.now = pair.now
        self.history = []
        self.events = []  # victim events, in order
        self.terminated = None
        self.version = int(self.me._version)
        self.odcid = pair.client_odcid
        # my send keys per packet type
        self.keys = {}
        ep = {"initial": tls.Epoch.INITIAL, "handshake": tls.Epoch.HANDSHAKE, "0rtt": tls.Epoch.ZERO_RTT, "1rtt": tls.Epoch.ONE_RTT}
        for ptype, epoch in ep.items():
            pair_ = self.me._cryptos.get(epoch)
            snap = _snapshot(pair_.send) if pair_ is not None else None
            if snap is not None:
                if ptype == "1rtt" and pair_.send.key_phase != 0:
                    raise RuntimeError("take over before any key update")
                self.keys[ptype] = rc.Keys(*snap)
        if "initial" not in self.keys and self.odcid is not None:
            c, s = rc.initial_keys(self.version, self.odcid)
            self.keys["initial"] = c if me == "client" else s
        self.key_phase = 0
        self.next_pn = {"I": self.me._packet_number + 50, "H": self.me._packet_number + 50, "A": self.me._packet_number + 50}
        self.my_cid = bytes(self.me.host_cid)  # SCID in long headers
        self.dcid = bytes(self.me._peer_cid.cid)  # the victim CID I currently address
        # reader for what the victim emits
        self.tap = Tap({"client": pair.ccfg.connection_id_length, "server": pair.scfg.connection_id_length})
        self.tap.add_keylog(pair.keylog.getvalue())
        if self.odcid is not None:
            self.tap.initial_dcids.append(self.odcid)
            self.tap.client_odcid = self.odcid
        # let the tap know the numbering so far
        for sender, data in pair.wire:
            self.tap.on_datagram(sender, data, 0.0)
        self.tap.packets.clear()

    # ------------------------------------------------------------ building
    def key_update(self):
        self.keys["1rtt"] = self.keys["1rtt"].next_phase()
        self.key_phase ^= 1

    def packet(self, ptype, payload: bytes, pn=None, pn_len=2, dcid=None, scid=None, token=b"", version=None,
               key_phase=None, keys=None, reserved_bits=0, fixed_bit=True, pad_to=None):
        """Build one protected packet. payload = concatenated frames (may be anything)."""
        space = {"initial": "I", "handshake": "H", "0rtt": "A", "1rtt": "A"}[ptype]
        if pn is None:
            pn = self.next_pn[space]
            self.next_pn[space] = pn + 1
        if len(payload) < 4 - pn_len:
            payload = payload + bytes(4 - pn_len - len(payload))
        if pad_to:
            payload = payload + bytes(max(0, pad_to - len(payload)))
        keys = keys or self.keys[ptype]
        dcid = self.dcid if dcid is None else dcid
        version = self.version if version is None else version
        if ptype == "1rtt":
            kp = self.key_phase if key_phase is None else key_phase
            first = (0x40 if fixed_bit else 0) | (reserved_bits << 3) | (kp << 2) | (pn_len - 1)
            hdr = bytes([first]) + dcid
        else:
            scid = self.my_cid if scid is None else scid
            first = 0x80 | (0x40 if fixed_bit else 0) | (TYPE_CODE[version][ptype] << 4) | (reserved_bits << 2) | (pn_len - 1)
            hdr = bytes([first]) + version.to_bytes(4, "big") + bytes([len(dcid)]) + dcid + bytes([len(scid)]) + scid
            if ptype == "initial":
                hdr += F.enc_varint(len(token)) + token
            hdr += F.enc_varint(pn_len + len(payload) + 16, 2 if pn_len + len(payload) + 16 < 16384 else 4)
        return rc.protect(keys, hdr, pn, pn_len, payload)

    # ------------------------------------------------------------ driving the victim
    def call(self, name, *args, **kw):
        try:
            ret = getattr(self.victim, name)(*args, **kw)
        except Exception as exc:
            self.history.append((round(self.now, 6), name, "RAISED %r" % (exc,)))
            raise ApiRaised(self.victim_name, name, exc)
        if len(self.history) < 3000:
            self.history.append((round(self.now, 6), name, [("bytes[%d]" % len(a)) if isinstance(a, (bytes, bytearray)) else repr(a)[:30] for a in args]))
        return ret

    def _drain(self):
        while True:
            ev = self.call("next_event")
            if ev is None:
                break
            self.events.append(ev)
            if type(ev).__name__ == "ConnectionTerminated":
                self.terminated = ev

    def transmit(self):
        """One victim transmit cycle; returns PacketViews of what it emitted."""
        self._drain()
        out = []
        for data, addr in self.call("datagrams_to_send", now=self.now):
            self.tap.add_keylog(self.pair.keylog.getvalue())
            out.extend(self.tap.on_datagram(self.victim_name, data, self.now))
        self._drain()
        return out

    def deliver(self, datagram: bytes, addr=None, dt=0.001):
        self.now += dt
        self.call("receive_datagram", datagram, addr or self.addr, now=self.now)
        return self.transmit()

    def send(self, ptype, payload, **kw):
        return self.deliver(self.packet(ptype, payload, **kw))

    def fire_timer(self, max_advance=None):
        """Advance the clock to the victim's timer and fire it. Returns views emitted, or None if
        there is no timer (or it lies more than max_advance seconds ahead)."""
        t = self.call("get_timer")
        if t is None:
            return None
        if max_advance is not None and t - self.now > max_advance:
            return None
        self.now = max(self.now, t)
        self.call("handle_timer", now=self.now)
        return self.transmit()

    def cycle(self, steps=20, until_terminated=True, max_advance=5.0):
        """Keep cycling timer/transmit/event calls (never jumping more than max_advance seconds to
        the next timer, so the idle timeout does not fire by accident; pass None to allow it).
        Returns all views emitted."""
        out = []
        for _ in range(steps):
            if until_terminated and self.terminated is not None:
                break
            v = self.fire_timer(max_advance)
            if v is None:
                break
            out.extend(v)
        return out

    def ack_everything(self):
        """Acknowledge every application-space packet the victim has sent so far."""
        largest = self.tap.largest.get((self.victim_name, "A"))
        if largest is None:
            return []
        return self.send("1rtt", F.f_ack([(0, largest)]))

    def close_code(self, views):
        """(error_code, is_app, reason) of the first CONNECTION_CLOSE in views, else None."""
        for v in views:
            for f in v.frames:
                if f["name"] == "CONNECTION_CLOSE":
                    return (f["error_code"], False, f["reason"])
                if f["name"] == "CONNECTION_CLOSE_APP":
                    return (f["error_code"], True, f["reason"])
        return None
