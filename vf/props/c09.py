"""C09 — a live connection always has a timer, and closing always terminates.

Temporal monitors over the driver's call history in virtual time (vf.monitors.TimerMonitor,
CloseMonitor): get_timer() finite after every API cycle of a live connection; exactly one
ConnectionTerminated; termination within 3 PTO of starting to close (timers on time) or at
the idle deadline; only closing packets (one per space, CONNECTION_CLOSE/PADDING only) and
nothing afterwards; no event after the termination event.
"""

from __future__ import annotations

import random
import time

from ..common import Result

PROPERTY = "C09"
LEVEL = "exploration"
BUDGET = {"quick": 65, "thorough": 1400}
BATCH_TIMEOUT = {"quick": 300, "thorough": 1200}
RULE = (
    "cases = the C01 scenarios (scripts x network fates) extended with close() by either side at a seeded instant (before any "
    "packet, mid-handshake, connected, while data is in flight, during a blackout; transport and application codes, with and "
    "without reason), fatal protocol errors provoked in the Initial, Handshake and application spaces of either endpoint, Version "
    "Negotiation without a common version, total and one-way blackouts from a seeded instant with idle timeouts in {0.5,2,10,60} s, timers fired "
    "exactly on time (deadline clauses decided) or with seeded lateness (only the finite-timer / exactly-once / silence clauses "
    "decided). non-trivial = a run in which at least one endpoint terminated; distinct = hash(who closed or idle, handshake "
    "state at close, timer mode, fate multiset, op multiset)."
)
RULE += " Late additions: modes peer-refuses-handshake (CONNECTION_CLOSE in the server's first packet; the peer-close clock starts from the frame seen in an opened packet, not from the library's state) and local-idle-timeout-zero."

ASSUMPTIONS = [
    "t0 (start of closing) and PTO0 are read at the step in which the endpoint's CONNECTION_CLOSE appears on the wire / a "
    "CONNECTION_CLOSE was delivered to it; PTO is read from the connection's recovery object (hooked)",
    "the idle deadline is last authentic packet delivered + max(min(local, remote idle timeout), 3 PTO at that time); earlier "
    "termination is not judged",
    "fatal protocol errors are provoked by a packet built with the genuine peer's current send keys (read from hooked state) and a "
    "fresh packet number; Version Negotiation failure by a front-end that only offers a version the client lacks",
]


# frames that are a fatal error for either role: unknown frame type; MAX_STREAMS above 2^60; CRYPTO far beyond the
# buffer limit; RETIRE_CONNECTION_ID of a sequence number never issued; (long header only) STREAM in Initial/Handshake
FATAL_FRAMES = {
    "1rtt": ["3f", "12d000000000000001", "06bfffffff0161", "193f", "13d000000000000001"],
    "long": ["3f", "0a000161", "06bfffffff0161", "1000", "193f"],
}


def floors(tier):
    return {"timer_evaluations": 5000, "close_evaluations": 300, "deadline_checks": 40, "idle_checks": 10, "closing_checks": 40}


def plan(tier, seed):
    n, per = (560, 8) if tier == "quick" else (32000, 25)
    base = seed * 1000003
    out = [{"gen": "close", "seeds": [base + i + k for k in range(per)]} for i in range(0, n, per)]
    nsf = 6 if tier == "quick" else 60
    for i in range(nsf):
        out.insert(i * 5, {"gen": "server_first", "seed": base + 700000 + i, "cases": 40})
    return out


def gen_case(seed):
    from ..scenarios import gen_scenario

    rng = random.Random("c09/%s" % seed)
    sc = gen_scenario(seed, allow_key_update=rng.random() < 0.3)
    sc["fates"].pop("rebind_after", None) if rng.random() < 0.7 else None
    mode = rng.choice(["close", "close", "close", "blackout", "blackout-oneway", "both-close", "late-timers"])
    r2 = random.Random("c09-fatal/%s" % seed)
    x = r2.random()
    if x < 0.18:
        mode = "fatal-error"
    elif x < 0.24:
        mode = "vn-failure"
    sc["opts"]["idle_client"] = rng.choice([0.5, 2.0, 10.0, 60.0])
    sc["opts"]["idle_server"] = rng.choice([0.5, 2.0, 10.0, 60.0])
    T = sc["fates"]["adv_seconds"]
    sc["lateness"] = 0.0
    if mode in ("close", "both-close", "late-timers"):
        sides = ["client", "server"] if mode == "both-close" else [rng.choice(["client", "server"])]
        for side in sides:
            t = rng.choice([0.0, 0.01, 0.03, 0.05, 0.1, rng.random() * T, rng.random() * 0.3])
            app = rng.random() < 0.5
            sc["script"].append({"t": round(t, 4), "side": side, "op": "close", "code": rng.choice([0, 0, 7, 0x10E, 2**62 - 1]),
                                 "frame_type": None if app else rng.choice([0, 6, 8]), "reason": rng.choice(["", "bye", "x" * 200])})
        if mode == "late-timers":
            sc["lateness"] = rng.choice([0.001, 0.02, 0.3])
        # keep the idle timer out of the way in pure close runs half of the time
        if rng.random() < 0.5:
            sc["opts"]["idle_client"] = sc["opts"]["idle_server"] = 60.0
    elif mode == "fatal-error":
        # a packet the genuine peer could have sent (its keys, a fresh packet number) that is a protocol violation,
        # in the Initial, Handshake or application packet number space, at a seeded instant
        side = r2.choice(["client", "server"])
        ptype = r2.choice(["1rtt", "1rtt", "1rtt", "handshake", "initial"])
        frames = r2.choice(FATAL_FRAMES["1rtt" if ptype == "1rtt" else "long"])
        t = r2.choice([0.0, 0.01, 0.03, 0.06, 0.1]) if ptype != "1rtt" else r2.choice([0.1, 0.3, r2.random() * T, r2.random() * T])
        for k in range(r2.choice([1, 1, 2])):
            sc["script"].append({"t": round(t + 0.004 * k, 4), "side": side, "op": "forge", "ptype": ptype, "frames_hex": frames, "early": True,
                                 "pad_to": 1200 if ptype == "initial" else None, "pn_skip": k})
        sc["opts"].pop("retry", None)
        if r2.random() < 0.5:
            sc["opts"]["idle_client"] = sc["opts"]["idle_server"] = 60.0
    elif mode == "vn-failure":
        # the server front-end only offers a version the client does not support: the client must give up by itself
        sc["opts"].update(frontend_vn=True, versions_client=[r2.choice(["v1", "v2"])])
        sc["opts"]["versions_server"] = ["v2" if sc["opts"]["versions_client"] == ["v1"] else "v1"]
        sc["opts"].pop("original_version", None)
        sc["opts"].pop("retry", None)
        sc["opts"].pop("resume", None)
    else:
        lo = rng.choice([0.0, 0.03, 0.1, rng.random() * T])
        bo = [lo, 1e9]
        if mode == "blackout-oneway":
            bo.append(rng.choice(["c2s", "s2c"]))
        sc["fates"]["blackouts"] = [bo]
        sc["fates"]["adv_seconds"] = 1e9
        sc["fates"]["adv_dgrams"] = 10**9
        r6 = random.Random("c09-noidle/%s" % seed)
        if r6.random() < 0.2:
            # the peer is a stack that advertises max_idle_timeout = 0 ("none of my own"): the endpoint's own timeout
            # is then the negotiated one, it must not give up earlier
            side = r6.choice(["client", "server"])
            sc["opts"]["advertise_" + side] = {"max_idle_timeout": 0}
            sc["opts"].pop("resume", None)
            sc["opts"].pop("resume_forget", None)
    r8 = random.Random("c09-refused/%s" % seed)
    if r8.random() < 0.05:
        # the server refuses the handshake outright (no application protocol in common): the very first packet the client
        # ever processes from its peer carries CONNECTION_CLOSE, in the Initial space — a peer close like any other
        mode = "peer-refuses-handshake"
        for k in ("retry", "frontend_vn", "resume", "resume_forget"):
            sc["opts"].pop(k, None)
        sc["opts"]["alpn"] = ["vf"]
        sc["opts"]["alpn_server"] = ["other"]
        sc["opts"]["idle_client"] = sc["opts"]["idle_server"] = r8.choice([10.0, 60.0])
        sc["fates"] = {"delay": sc["fates"]["delay"], "adv_seconds": 0.0, "loss": 0.0}
        sc["script"] = [o for o in sc["script"] if o["op"] == "write"][:2]
        sc["lateness"] = 0.0
    r5 = random.Random("c09-ampblocked/%s" % seed)
    if r5.random() < 0.07:
        # directed: the server application closes while the server cannot send a single byte: its first flight (a
        # certificate chain larger than three datagrams) and the probe retransmissions have used up the
        # anti-amplification budget of the never-validated client address exactly, and nothing arrives any more.
        # The closing period still has to start and end (termination within three probe timeouts of the close).
        mode = "close-amplification-blocked"
        for k in ("retry", "frontend_vn", "resume", "resume_forget", "original_version"):
            sc["opts"].pop(k, None)
        sc["opts"].pop("versions_server", None)
        sc["opts"].pop("versions_client", None)
        sc["opts"].pop("cert_kind", None)
        sc["opts"]["certfile"] = "ssl_cert_with_chain.pem"
        sc["opts"]["mds_server"] = r5.choice([1200, 1200, 1252, 1350, 1452])
        sc["opts"]["idle_client"] = sc["opts"]["idle_server"] = r5.choice([10.0, 60.0])
        sc["fates"] = {"delay": sc["fates"]["delay"], "adv_seconds": 1e9, "adv_dgrams": 10**9, "loss": 0.0,
                       "blackouts": [[r5.choice([0.0005, 0.0005, 0.03]), 1e9, "c2s"]]}
        app = r5.random() < 0.5
        sc["script"] = [{"t": r5.choice([0.3, 0.65, 1.0, 2.5, 6.0]), "side": "server", "op": "close", "early": True, "code": r5.choice([0, 7, 0x10E]),
                         "frame_type": None if app else 6, "reason": r5.choice(["", "bye"])}]
        sc["lateness"] = 0.0
        if r5.random() < 0.5:
            # ... or does not close at all but has 0.5-RTT application data in flight (an ack-eliciting packet that a
            # probe timeout does not declare lost) while it sits at the limit for a whole idle period: every deadline it
            # asks for must still lie in the future, or be acted upon, until the idle timeout ends the connection
            mode = "amplification-blocked-until-idle"
            sc["script"] = [{"t": 0.001, "side": "server", "op": "write", "sid": 3, "n": r5.choice([300, 1500]), "fin": False, "early": True}]
            sc["opts"]["idle_client"] = sc["opts"]["idle_server"] = 60.0
    sc["script"].sort(key=lambda o: o["t"])
    sc["horizon"] = 400.0
    sc["mode"] = mode
    r11 = random.Random("c09-idle0/%s" % seed)
    if r11.random() < 0.05 and "advertise_client" not in sc["opts"] and "advertise_server" not in sc["opts"]:
        # an endpoint configured with idle_timeout = 0 ("no idle timeout of mine", which is also what it then advertises):
        # whatever it makes of that, a live connection still names a finite deadline and a silent peer is given up on
        for side in r11.choice([["client"], ["server"], ["client", "server"]]):
            sc["opts"]["idle_" + side] = 0.0
        sc["mode"] = str(sc.get("mode", "")) + "+local-idle-timeout-zero"
    return sc


def server_first(batch, res):
    """A server connection whose first datagram(s) are not acceptable (garbage, short header, Initial in a
    datagram below 1200 bytes, unsupported version, stray Version Negotiation / Retry / Handshake packet):
    from that first datagram on it must name a finite timer, and it must terminate exactly once by itself
    (idle deadline) when nothing acceptable follows."""
    import math

    from aioquic.quic.connection import QuicConnection

    from ..common import exc_signature, exc_witness
    from ..simnet import CLIENT_ADDR, SERVER_ADDR, make_configs

    rng = random.Random("c09sf/%s" % batch["seed"])
    for ci in range(batch["cases"]):
        idle = rng.choice([0.5, 2.0, 10.0])
        ccfg, scfg = make_configs({"idle_server": idle, "versions_client": rng.choice([["v1"], ["v2"]])})
        client = QuicConnection(configuration=ccfg)
        client.connect(SERVER_ADDR, now=0.0)
        first = client.datagrams_to_send(now=0.0)[0][0]
        server = QuicConnection(configuration=scfg, original_destination_connection_id=client.original_destination_connection_id)
        kind = rng.choice(["garbage", "short-header", "truncated-initial", "unsupported-version", "version-negotiation", "retry", "handshake-type", "empty", "one-byte"])
        if kind == "garbage":
            d = rng.randbytes(rng.choice([5, 40, 1200]))
        elif kind == "short-header":
            d = bytes([0x40 | rng.getrandbits(5)]) + rng.randbytes(rng.choice([20, 60]))
        elif kind == "truncated-initial":
            d = first[: rng.choice([100, 600, 1199])]
        elif kind == "unsupported-version":
            d = first[:1] + bytes.fromhex("1a2a3a4a") + first[5:]
        elif kind == "version-negotiation":
            d = first[:1] + bytes(4) + first[5:40]
        elif kind == "retry":
            t = 3 if first[1:5] == b"\x00\x00\x00\x01" else 0
            d = bytes([0xC0 | (t << 4)]) + first[1:60]
        elif kind == "handshake-type":
            t = 2 if first[1:5] == b"\x00\x00\x00\x01" else 3
            d = bytes([(first[0] & 0xCF) | (t << 4)]) + first[1:]
        elif kind == "empty":
            d = b""
        else:
            d = b"\xc3"
        follow = rng.random() < 0.3  # sometimes the genuine Initial follows after a while
        case = {"gen": "server_first", "seed": batch["seed"], "cases": ci + 1}
        res.evaluations += 1
        now = 0.001
        terminated = 0
        steps = 0
        try:
            server.receive_datagram(d, CLIENT_ADDR, now=now)
            while steps < 80:
                steps += 1
                while True:
                    ev = server.next_event()
                    if ev is None:
                        break
                    if type(ev).__name__ == "ConnectionTerminated":
                        terminated += 1
                server.datagrams_to_send(now=now)
                t = server.get_timer()
                res.count("timer_evaluations")
                if terminated:
                    if terminated > 1:
                        res.violation("close:terminated-twice", "server reported termination %d times after a rejected first datagram (%s)" % (terminated, kind), case, None)
                    break
                if t is None or (isinstance(t, float) and (math.isnan(t) or math.isinf(t))):
                    res.violation("timer:not-finite:None:server-first-datagram-rejected", "server connection handed a first datagram that it rejects (%s, %d bytes) is live (no termination reported) but get_timer() returned %r" % (kind, len(d), t), case, {"kind": kind})
                    break
                if follow and steps == 1:
                    now = min(t, now + 0.05)
                    server.receive_datagram(first, CLIENT_ADDR, now=now)
                    follow = False
                    res.count("server_first_followed_by_genuine_initial")
                    continue
                now = max(now, t)
                server.handle_timer(now=now)
            else:
                res.violation("timer:no-termination-within-80-timer-firings:server-first-datagram-rejected", "server never terminated (%s)" % kind, case, None)
        except Exception as exc:
            res.violation(exc_signature(exc, "api:"), "server API raised %r after a rejected first datagram (%s)" % (exc, kind), case, exc_witness(exc))
        res.count("server_first_" + kind)
        res.count("server_first_cases")
        if terminated == 1:
            res.count("endpoints_terminated")
            res.nontrivial.add("sf:%s:%s:%s" % (kind, idle, first[1:5].hex()))
    res.sample({"gen": "server_first", "seed": batch["seed"], "cases": batch["cases"]}, limit=1)


def run_batch(batch):
    from .. import monitors
    from ..simprops import run_case

    res = Result()
    t0 = time.time()
    if batch.get("gen") == "server_first":
        server_first(batch, res)
        res.count("cpu_s", round(time.time() - t0, 2))
        return res.as_dict()
    for seed in batch["seeds"]:
        sc = gen_case(seed)
        on_time = sc["lateness"] == 0.0
        tm = monitors.TimerMonitor()
        cm = monitors.CloseMonitor(on_time=on_time)
        dm = monitors.DeliveryModel(forbid_termination=False, completion=False)
        sim, ok = run_case(sc, [tm, cm, dm], res, {"gen": "close", "seeds": [seed]},
                           counters=("closing_checks", "deadline_checks", "idle_checks", "api_close_deadline_checks", "idle_early_checks"),
                           nontrivial=lambda s: bool(cm.term),
                           sig_extra=(sc["mode"], tuple(sorted(cm.close_kinds)), on_time, sc["opts"]["idle_client"], sc["opts"]["idle_server"]))
        for k in cm.close_kinds:
            res.count("kind_" + k)
        res.count("mode_" + sc["mode"])
        for ep in (sim.client, sim.server):
            if ep is not None and ep.term_event is not None and sc["mode"] in ("fatal-error", "vn-failure"):
                res.count("%s_%s_terminated_code_0x%x" % (sc["mode"], ep.name, ep.term_event.error_code))
        res.count("endpoints_terminated", len(cm.term))
        if ok:
            res.sample({"seed": seed, "mode": sc["mode"], "idle": [sc["opts"]["idle_client"], sc["opts"]["idle_server"]], "lateness": sc["lateness"],
                        "terminated": {k: [round(x, 4) for x in v] for k, v in cm.term.items()}, "t0": {k: [round(v[0], 4), round(v[1], 4), v[2]] for k, v in cm.t0.items()},
                        "timer_evaluations": tm.evaluations, "fates": dict(sim.fates.counts)}, limit=3)
    res.count("cpu_s", round(time.time() - t0, 2))
    return res.as_dict()
