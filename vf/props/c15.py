"""C15 — HTTP/3 applications only ever see well-formed messages.

Differential runtime monitor: header blocks are encoded WITHOUT a sending H3Connection (raw
pylsqpack.Encoder, a literal-only QPACK writer for what that refuses, and a dynamic-table
encoder whose instructions are withheld so that the receiving stream blocks and is resumed),
framed by hand (HEADERS / PUSH_PROMISE / DATA, vf.frames.enc_varint) and fed as
StreamDataReceived events to a fresh, real H3Connection sitting on a stub transport that
records close(error_code, reason_phrase). An independent validator V (vf/c15_validator.py,
written from the property sentences only) judges (a) every event the application gets and
(b) every block the peer sent.

Oracle (one-directional; extra strictness of the code is an observation, never an alarm):
  (1) no bad event   : every HeadersReceived / PushPromiseReceived satisfies V for the kind of
                       message it is; every event with stream_ended on a stream whose first
                       header block declared a DECIMAL content-length has delivered exactly
                       that many DataReceived bytes.
  (2) bad -> rejected: a peer block that breaks a rule of V (or whose decimal content-length
                       mismatches the body at the end of the stream) produces no such event
                       and the transport was closed with H3_MESSAGE_ERROR (0x10E).
  either             : empty names (the QPACK decoder refuses them: 0x200 accepted as the close
                       code there), missing :scheme/:authority/:path, :protocol, non-decimal
                       or repeated content-length, transfer-encoding, ':' inside a name,
                       a stream that ends on an unknown frame type.
"""

from __future__ import annotations

import itertools
import random
import time

from ..c15_validator import declared_length, judge
from ..common import Result, exc_signature, exc_witness
from ..frames import enc_varint

PROPERTY = "C15"
BUILD = "plain"
LEVEL = "exploration"
BUDGET = {"quick": 75, "thorough": 1400}
BATCH_TIMEOUT = {"quick": 300, "thorough": 2400}
RULE = (
    "every name / value of length 0..3 over the 13 boundary bytes {00 09 0A 0D 20 21 3A 41 5A 61 7F 80 FF} placed "
    "first/middle/last among the regular headers (values also inside a pseudo-header) of an otherwise valid block "
    "(quick: all names x good values, all values x good name, seeded sample of the cross; thorough: the full cross), "
    "every sequence of <=4 tokens over {:method :scheme :authority :path :status :protocol :unknown regular "
    "regular-then-pseudo} raw and completed with the missing pseudo-headers, content-length spellings x DATA-frame "
    "splits (incl. zero-length frames, and a final DATA frame announcing K bytes but cut short after j<K by the end of the stream, declared = delivered / announced / neither) x endings (FIN on frame, lone FIN, trailers) x event chunkings, each as request "
    "(server side), response, request/response trailers, PUSH_PROMISE, push-stream response and push-stream trailers; "
    "encodings: pylsqpack static/Huffman, literal-only writer, dynamic-table with blocked-then-resumed stream. "
    "non-trivial = the block under test reached the receiver and was decided (event produced or transport closed); "
    "distinct = distinct (kind, V-broken rule set, either tags, outcome, ending, content-length class, encoding)."
)
RULE += ' Special regular fields of the sequence generator include host, te, connection, content-type.'

ASSUMPTIONS = [
    "V (vf/c15_validator.py) is the reading of the property text: names may not contain bytes <=0x20, 0x7F, >=0x80, A-Z; "
    "values may not contain NUL/CR/LF nor start/end with SP/HTAB (empty value is fine); pseudo-headers first, unique, "
    "from {:method,:scheme,:authority,:path} on requests and push promises, {:status} on responses, none on trailers",
    "a 'declared content-length' is exactly one content-length header made of ASCII digits; every other spelling is an either region",
    "the transport is a stub (duck-typed QuicConnection recording close()); QUIC-level delivery is C01/C14's business",
    "header blocks with an empty field name are refused by the QPACK decoder itself; closing with QPACK_DECOMPRESSION_FAILED is accepted for them",
]

H3_MESSAGE_ERROR = 0x10E
H3_FRAME_ERROR = 0x106
QPACK_DECOMPRESSION_FAILED = 0x200

ALPHABET = bytes.fromhex("00090a0d20213a415a617f80ff")

KINDS = ["request", "response", "req_trailers", "resp_trailers", "push_promise", "push_response", "push_trailers"]
VKIND = {
    "request": "request",
    "response": "response",
    "req_trailers": "trailers",
    "resp_trailers": "trailers",
    "push_promise": "push_promise",
    "push_response": "push_response",
    "push_trailers": "trailers",
}
REQ = [(b":method", b"GET"), (b":scheme", b"https"), (b":authority", b"localhost"), (b":path", b"/")]
RESP = [(b":status", b"200")]
TRAILERS_OK = [(b"x-trailer", b"1")]

CL_SPELLINGS = [
    "0", "1", "5", "05", "+5", "-0", "-1", "5 ", " 5", "5,5", "1_0", "", "٥", "0x5", "5.0",
    "99999999999999999999",
    # a few more (all either, except those with outer whitespace)
    "6", "000005", "5\t", "５", "1e1", "5;", "_5", "5_", "0b101", "0o5", "٥٥", "5\x0b",
]
BODY_SPLITS = [
    [], [0], [0, 0],
    [1], [0, 1], [1, 0],
    [5], [2, 3], [0, 5, 0], [1, 1, 1, 1, 1],
    [6], [5, 1], [3, 0, 3],
]
TRUNCS = [(1, 0), (2, 0), (2, 1), (5, 0), (5, 1), (5, 4)]  # (announced K, carried j < K)
CL_ENDINGS = ["fin_frame", "lone_fin", "trailers_fin", "trailers_lone_fin", "unknown_frame_fin",
              # a trailer section with a content-length of its own (the number of body bytes really sent, or another
              # number): the length declared by the *leading* header section stays the one that binds
              "trailers_cl_body_fin", "trailers_cl_body_lone_fin", "trailers_cl_other_fin"]
CHUNKS = ["one", "frame", "byte"]

SEQ_TOKENS = [":method", ":scheme", ":authority", ":path", ":status", ":protocol", ":unknown", "regular", "regular-then-pseudo"]
TOKEN_HEADER = {
    0: (b":method", b"GET"),
    1: (b":scheme", b"https"),
    2: (b":authority", b"localhost"),
    3: (b":path", b"/"),
    4: (b":status", b"200"),
    5: (b":protocol", b"websocket"),
    6: (b":unknown", b"x"),
    7: (b"x-r", b"1"),
}


def all_strings():
    out = [b""]
    for ln in (1, 2, 3):
        for t in itertools.product(ALPHABET, repeat=ln):
            out.append(bytes(t))
    return out


NSTR = 1 + 13 + 169 + 2197  # 2380
NSHORT = 1 + 13 + 169  # strings of length <= 2


def all_sequences():
    out = [()]
    for ln in (1, 2, 3, 4):
        out.extend(itertools.product(range(9), repeat=ln))
    return out


NSEQ = 1 + 9 + 81 + 729 + 6561  # 7381


# ------------------------------------------------------------------ plan / floors


def floors(tier):
    return {
        "cases_bad_rejected_0x10e": 5000,
        "cases_valid_accepted": 2000,
        "events_checked_against_V": 3000,
        "stream_end_events_checked": 300,
        "cl_mismatch_rejected": 100,
        "cl_match_accepted": 50,
        "cl_truncated_mismatch_rejected": 50,
        "cl_truncated_match_accepted": 20,
        "blocked_then_resumed": 200,
        "push_promise_blocked_cases": 100,
    }


def finalize(tier, merged):
    full = NSTR * NSTR * len(KINDS)
    return {
        "exhaustive": bool(tier == "thorough" and merged.get("cross_cases", 0) >= full),
        "cross_cases": int(merged.get("cross_cases", 0)),
        "cross_full_size": full,
    }


def plan(tier, seed):
    # cheap, decisive generators first: a budget cut-off on a loaded machine then only loses
    # part of the (sampled / exhaustive) name x value cross
    b = []
    for k in ("request", "response", "push_response"):
        for chunk in CHUNKS:
            b.append({"gen": "clen", "kind": k, "chunk": chunk})
    b.append({"gen": "misc"})
    for lo in range(0, NSEQ, 1500):
        b.append({"gen": "pp_blocked", "lo": lo, "hi": min(NSEQ, lo + 1500)})
    step = 170 if tier == "quick" else 85
    sstep = 500
    nv = []
    for lo in range(0, NSTR, step):
        nv.append({"gen": "names", "lo": lo, "hi": min(NSTR, lo + step)})
        nv.append({"gen": "values", "lo": lo, "hi": min(NSTR, lo + step)})
    sq = [{"gen": "seqs", "lo": lo, "hi": min(NSEQ, lo + sstep)} for lo in range(0, NSEQ, sstep)]
    # interleave so that names, values and sequences all start early (short strings come first)
    while nv or sq:
        b.extend(nv[:2])
        nv = nv[2:]
        b.extend(sq[:1])
        sq = sq[1:]
    if tier == "quick":
        # exhaustive for lengths <= 2 (183 x 183 pairs x 3 positions x 7 kinds), sampled beyond
        for lo in range(0, NSHORT, 12):
            b.append({"gen": "cross", "lo": lo, "hi": min(NSHORT, lo + 12), "vhi": NSHORT, "allpos": True})
        for i in range(24):
            b.append({"gen": "cross_sample", "seed": seed * 100003 + i, "n": 40000})
    else:
        for i in range(16):
            b.append({"gen": "cross_sample", "seed": seed * 100003 + 1000 + i, "n": 40000, "blocked": True})
        cstep = 5  # 5 names x 2380 values x 7 kinds = 83k cases per batch
        order = list(range(0, NSTR, cstep))
        random.Random(seed).shuffle(order)  # budget cut-off loses a random part, not the tail
        for lo in order:
            b.append({"gen": "cross", "lo": lo, "hi": min(NSTR, lo + cstep)})
    return b


# ------------------------------------------------------------------ encoders (no sending H3Connection)


def _pint(value, prefix_bits, flags):
    """RFC 7541 section 5.1 prefix integer."""
    lim = (1 << prefix_bits) - 1
    if value < lim:
        return bytes([flags | value])
    out = bytearray([flags | lim])
    value -= lim
    while value >= 128:
        out.append((value & 0x7F) | 0x80)
        value >>= 7
    out.append(value)
    return bytes(out)


def enc_literal(headers):
    """Literal-only field section: prefix (Required Insert Count 0, Base 0) followed by
    RFC 9204 section 4.5.6 'literal field line with literal name' (N=0, H=0) per field."""
    out = bytearray(b"\x00\x00")
    for n, v in headers:
        out += _pint(len(n), 3, 0x20)
        out += n
        out += _pint(len(v), 7, 0x00)
        out += v
    return bytes(out)


_STATIC_ENC = None
_CHECK_DEC = None
_check_sid = 0


def enc_lsq(headers):
    global _STATIC_ENC
    import pylsqpack

    if _STATIC_ENC is None:
        _STATIC_ENC = pylsqpack.Encoder()  # no settings applied: static table + literals only
    es, blk = _STATIC_ENC.encode(0, headers)
    if es:
        raise RuntimeError("static encoder produced encoder-stream data")
    return blk


def enc_dyn(headers):
    """Dynamic-table encoding: returns (encoder stream bytes, block). The block references
    entries inserted by the encoder-stream bytes, so a receiver that gets the block first
    has to block the stream until the instructions arrive."""
    import pylsqpack

    e = pylsqpack.Encoder()
    es0 = e.apply_settings(4096, 16)
    es1, _ = e.encode(60, headers)  # priming: lets the encoder decide to index these fields
    es2, blk = e.encode(64, headers)
    return es0 + es1 + es2, blk


def selfcheck_decode(blk):
    """Decode with a harness-owned decoder: what the receiver's QPACK layer will see.
    Returns the header list, or None if the decoder refuses the block."""
    global _CHECK_DEC, _check_sid
    import pylsqpack

    if _CHECK_DEC is None:
        _CHECK_DEC = pylsqpack.Decoder(0, 0)
    _check_sid += 4
    try:
        _, hdrs = _CHECK_DEC.feed_header(_check_sid, blk)
    except pylsqpack.DecompressionFailed:
        return None
    return hdrs


def frame(ftype, payload):
    return enc_varint(ftype) + enc_varint(len(payload)) + payload


# ------------------------------------------------------------------ stub transport


class _Cfg:
    def __init__(self, is_client):
        self.is_client = is_client


class StubQuic:
    """Duck-typed QuicConnection: what H3Connection needs, recording close()."""

    def __init__(self, is_client):
        self.configuration = _Cfg(is_client)
        self._quic_logger = None
        self._remote_max_datagram_frame_size = None
        self.closed = []
        self._bidi = 0 if is_client else 1
        self._uni = 2 if is_client else 3

    def close(self, error_code=0, frame_type=None, reason_phrase=""):
        self.closed.append((int(error_code), reason_phrase))

    def get_next_available_stream_id(self, is_unidirectional=False):
        if is_unidirectional:
            s = self._uni
            self._uni += 4
        else:
            s = self._bidi
            self._bidi += 4
        return s

    def send_stream_data(self, stream_id, data, end_stream=False):
        pass


SETTINGS_FRAME = frame(0x04, enc_varint(0x01) + enc_varint(4096) + enc_varint(0x07) + enc_varint(16))


# ------------------------------------------------------------------ one case


LOCAL_METHOD = [b"GET"]  # method of the request a client victim itself sent on the stream the response arrives on


def case_dict(kind, block, enc, body, ending, chunk, trunc=None):
    return {
        "local_method": LOCAL_METHOD[0].decode(),
        "trunc": list(trunc) if trunc else None,
        "gen": "replay",
        "kind": kind,
        "block": [[n.hex(), v.hex()] for n, v in block],
        "enc": enc,
        "body": list(body),
        "ending": ending,
        "chunk": chunk,
    }


def _reason_class(reason):
    # stable, value-free class of aioquic's reason phrase (for the observation histogram only)
    r = reason or ""
    for key, tag in (
        ("non-initial colon", "colon-inside-name"),
        ("invalid characters", "name-chars"),
        ("forbidden characters", "value-chars"),
        ("starts with whitespace", "value-lead-ws"),
        ("ends with whitespace", "value-trail-ws"),
        ("not allowed after regular", "pseudo-order"),
        ("is not valid", "pseudo-not-allowed"),
        ("included twice", "pseudo-twice"),
        ("are missing", "pseudo-missing"),
        ("cannot be empty", "authority-or-path-empty"),
        ("not a non-negative integer", "content-length-syntax"),
        ("does not match data size", "content-length-mismatch"),
        ("transfer-encoding", "transfer-encoding"),
    ):
        if key in r:
            return tag
    return "other" if r else "none"


def run_case(res, kind, block, enc="lsq", body=(), ending="fin_frame", chunk="one", trunc=None):
    """Execute one scenario against a fresh real H3Connection and apply both oracles.

    trunc=(K, j): after the complete DATA frames of `body`, a final DATA frame whose header
    announces K payload bytes but which carries only j < K before the stream ends. The body
    bytes DELIVERED are then sum(body)+j, the bytes ANNOUNCED sum(body)+K."""
    from aioquic.h3.connection import H3Connection
    from aioquic.h3.events import DataReceived, HeadersReceived, PushPromiseReceived
    from aioquic.quic.events import StreamDataReceived

    res.evaluations += 1
    vkind = VKIND[kind]
    broken, either = judge(vkind, block)
    if not block:
        either = either + ["empty-block"]  # an empty field section: refused by the QPACK decoder
    qpack_refusable = "empty-name" in either or "empty-block" in either

    # ---- encode the block under test (never through a sending H3Connection)
    enc_stream = b""
    if enc == "dyn" and qpack_refusable:
        enc = "lit"
    if enc == "lsq":
        try:
            blk = enc_lsq(block)
        except ValueError:  # pylsqpack refuses empty names
            enc = "lit"
            blk = enc_literal(block)
    elif enc == "lit":
        blk = enc_literal(block)
    else:
        enc_stream, blk = enc_dyn(block)
    undecodable = False
    if enc != "dyn":
        seen = selfcheck_decode(blk)
        if seen is None:
            undecodable = True
            if not qpack_refusable:
                raise RuntimeError("harness: QPACK decoder refuses block %r" % (block,))
        elif [(bytes(n), bytes(v)) for n, v in seen] != [(bytes(n), bytes(v)) for n, v in block]:
            raise RuntimeError("harness: encoding does not decode to the intended block %r -> %r" % (block, seen))

    # ---- receiver
    is_client = kind not in ("request", "req_trailers")
    quic = StubQuic(is_client)
    h3 = H3Connection(quic)
    if is_client:
        peer_ctrl, peer_enc, push_sid = 3, 7, 15
        sid0 = quic.get_next_available_stream_id()
        # local API, valid input: not under test (the method is a workload dimension: what the application asked for
        # must not change what counts as a well-formed response)
        h3.send_headers(sid0, [(b":method", LOCAL_METHOD[0])] + REQ[1:], end_stream=True)
    else:
        peer_ctrl, peer_enc, push_sid = 2, 6, None
        sid0 = 0

    feed = [(peer_ctrl, b"\x00" + SETTINGS_FRAME, False)]
    data_frames = [frame(0x00, b"d" * n) for n in body]
    if trunc:
        if kind not in ("request", "response", "push_response") or ending not in ("fin_frame", "lone_fin"):
            raise RuntimeError("harness: truncated DATA frame must be the last thing on the stream")
        tk, tj = trunc
        if not 0 <= tj < tk:
            raise RuntimeError("harness: bad trunc %r" % (trunc,))
        data_frames.append(enc_varint(0x00) + enc_varint(tk) + b"d" * tj)
    ending_label = ("truncated-data+" + ending) if trunc else ending
    prefix = b""
    tsid = sid0
    if kind in ("request", "response"):
        frames = [frame(0x01, blk)] + data_frames
    elif kind in ("req_trailers", "resp_trailers"):
        first = REQ if kind == "req_trailers" else RESP
        frames = [frame(0x01, enc_lsq(first))] + data_frames + [frame(0x01, blk)]
    elif kind == "push_promise":
        frames = [frame(0x05, enc_varint(0) + blk)]
        if ending != "open":  # "open": the PUSH_PROMISE frame alone, request stream left open
            frames += [frame(0x01, enc_lsq(RESP))] + data_frames
    else:  # push_response / push_trailers
        feed.append((sid0, frame(0x05, enc_varint(0) + enc_lsq(REQ)), False))
        tsid = push_sid
        prefix = enc_varint(0x01) + enc_varint(0)
        if kind == "push_response":
            frames = [frame(0x01, blk)] + data_frames
        else:
            frames = [frame(0x01, enc_lsq(RESP))] + data_frames + [frame(0x01, blk)]
    lone = False
    fin = True
    if ending == "fin_frame":
        pass
    elif ending == "lone_fin":
        lone = True
    elif ending == "trailers_fin":
        frames.append(frame(0x01, enc_lsq(TRAILERS_OK)))
    elif ending == "trailers_lone_fin":
        frames.append(frame(0x01, enc_lsq(TRAILERS_OK)))
        lone = True
    elif ending in ("trailers_cl_body_fin", "trailers_cl_body_lone_fin", "trailers_cl_other_fin"):
        n_body = sum(body) + (trunc[1] if trunc else 0)
        n = n_body if "body" in ending else n_body + 7
        frames.append(frame(0x01, enc_lsq([(b"content-length", str(n).encode())] + TRAILERS_OK)))
        lone = ending.endswith("lone_fin")
    elif ending == "unknown_frame_fin":
        frames.append(frame(0x21, b"gg"))
    elif ending == "open":
        fin = False
    else:
        raise RuntimeError("unknown ending %r" % ending)

    if chunk == "one":
        pieces = [prefix + b"".join(frames)]
    elif chunk == "frame":
        pieces = ([prefix] if prefix else []) + frames
    elif chunk == "byte":
        whole = prefix + b"".join(frames)
        pieces = [whole[i : i + 1] for i in range(len(whole))]
    else:
        raise RuntimeError("unknown chunk %r" % chunk)
    for i, p in enumerate(pieces):
        feed.append((tsid, p, fin and not lone and i == len(pieces) - 1))
    if fin and lone:
        feed.append((tsid, b"", True))
    if enc == "dyn":
        feed.append((peer_enc, b"\x02" + enc_stream, False))

    # ---- run: only these calls are under test
    events = []
    raised = None
    blocked_seen = False
    for sid, data, f in feed:
        try:
            evs = h3.handle_event(StreamDataReceived(data=data, end_stream=f, stream_id=sid))
        except Exception as exc:  # neither an event nor a close
            raised = exc
            break
        events.extend(evs)
        if enc == "dyn" and sid == tsid:
            st = h3._stream.get(tsid)
            if st is not None and st.blocked:
                blocked_seen = True
    closed = quic.closed[0] if quic.closed else None
    code = closed[0] if closed else None

    # ---- oracle (1): every event the application got, judged on its own content
    hdr_idx = {}
    first_headers = {}
    delivered = {}
    target_event = None
    target_idx = 1 if vkind == "trailers" else 0
    ended_on_target = False
    viol = False
    for ev in events:
        if isinstance(ev, HeadersReceived):
            idx = hdr_idx.get(ev.stream_id, 0)
            hdr_idx[ev.stream_id] = idx + 1
            if idx == 0:
                first_headers[ev.stream_id] = ev.headers
                ekind = "push_response" if ev.push_id is not None else ("response" if is_client else "request")
            else:
                ekind = "trailers"
            eb, _ = judge(ekind, ev.headers)
            res.count("events_checked_against_V")
            if eb:
                viol = True
                res.violation(
                    "event-violates-V:%s:%s" % (kind, "+".join(eb[:2])),
                    "HeadersReceived (%s) handed to the application breaks %s: %r" % (ekind, eb, ev.headers),
                    case_dict(kind, block, enc, body, ending, chunk, trunc),
                    {"event": repr(ev)[:600], "closed": closed},
                )
            if ev.stream_id == tsid and idx == target_idx and kind != "push_promise":
                target_event = ev
        elif isinstance(ev, PushPromiseReceived):
            eb, _ = judge("push_promise", ev.headers)
            res.count("events_checked_against_V")
            if eb:
                viol = True
                res.violation(
                    "event-violates-V:%s:%s" % (kind, "+".join(eb[:2])),
                    "PushPromiseReceived handed to the application breaks %s: %r" % (eb, ev.headers),
                    case_dict(kind, block, enc, body, ending, chunk, trunc),
                    {"event": repr(ev)[:600], "closed": closed},
                )
            if kind == "push_promise":
                target_event = ev
        elif isinstance(ev, DataReceived):
            delivered[ev.stream_id] = delivered.get(ev.stream_id, 0) + len(ev.data)
        if getattr(ev, "stream_ended", False):
            sid = ev.stream_id
            if sid == tsid:
                ended_on_target = True
            res.count("stream_end_events_checked")
            dk, dn = declared_length(first_headers.get(sid, []))
            if dk == "decimal" and delivered.get(sid, 0) != dn:
                viol = True
                res.violation(
                    "ended-with-content-length-mismatch:%s:%s" % (kind, ending_label),
                    "stream %d reported ended with declared content-length %d but %d body bytes delivered"
                    % (sid, dn, delivered.get(sid, 0)),
                    case_dict(kind, block, enc, body, ending, chunk, trunc),
                    {"event": repr(ev)[:300], "closed": closed},
                )

    # known mechanism worth its own name: a QPACK-blocked PUSH_PROMISE resumed as if it were HEADERS
    pp_as_headers = (
        kind == "push_promise"
        and blocked_seen
        and any(isinstance(e, HeadersReceived) and e.stream_id == sid0 and list(e.headers) == list(block) for e in events)
    )
    if kind == "push_promise" and blocked_seen:
        res.count("push_promise_blocked_cases")

    # ---- oracle (2): what the peer sent, judged on intent
    if raised is not None:
        outcome = "raised"
    elif target_event is not None:
        outcome = "event"
    elif code is not None:
        outcome = "closed_0x%x" % code
    else:
        outcome = "nothing"
    res.count("out:%s:%s" % (kind, outcome))
    if blocked_seen:
        res.count("blocked_then_resumed")

    dk, dn = ("none", None)
    if vkind != "trailers" and kind != "push_promise":
        dk, dn = declared_length(block)
    body_total = sum(body) + (trunc[1] if trunc else 0)  # bytes the peer actually put on the stream
    clclass = dk
    if dk == "decimal":
        clclass = "match" if dn == body_total else "mismatch"

    if broken:
        rules = "+".join(broken[:2])
        for r in broken:
            res.count("mustfail:" + r)
        if raised is not None:
            viol = True
            res.violation(
                exc_signature(raised, "bad-block-raised:%s:" % kind),
                "handle_event raised %r on a block breaking %s" % (raised, broken),
                case_dict(kind, block, enc, body, ending, chunk, trunc),
                exc_witness(raised),
            )
        elif target_event is not None:
            if not viol:
                # the event passed V although the block sent breaks it: receiver saw something else
                res.inconclusive.append("harness: event for a V-broken block passes V (%s %r)" % (kind, block))
        elif code is None and pp_as_headers:
            viol = True
            res.violation(
                "blocked-push-promise-resumed-as-headers:bad-block-not-rejected",
                "PUSH_PROMISE whose block (breaking %s) was QPACK-blocked got resumed as a HEADERS frame: no close, "
                "application received HeadersReceived(%r)" % (broken, block),
                case_dict(kind, block, enc, body, ending, chunk, trunc),
                {"events": [repr(e)[:300] for e in events[:6]]},
            )
        elif code is None:
            viol = True
            res.violation(
                "bad-block-not-rejected:%s:%s" % (kind, rules),
                "block breaking %s produced neither its event nor a close (events=%d)" % (broken, len(events)),
                case_dict(kind, block, enc, body, ending, chunk, trunc),
                {"events": [repr(e)[:200] for e in events[:6]]},
            )
        elif code != H3_MESSAGE_ERROR:
            if code == QPACK_DECOMPRESSION_FAILED and qpack_refusable:
                res.count("obs_bad_block_refused_by_qpack_decoder")
            else:
                viol = True
                res.violation(
                    "bad-block-wrong-close-code:%s:%s:0x%x" % (kind, rules, code),
                    "block breaking %s closed the connection with 0x%x (%r), not H3_MESSAGE_ERROR" % (broken, code, closed[1]),
                    case_dict(kind, block, enc, body, ending, chunk, trunc),
                    {"closed": closed},
                )
        else:
            res.count("cases_bad_rejected_0x10e")
    else:
        if raised is not None:
            res.count("obs_api_raised_on_V_valid_block")  # C16's business
        elif target_event is not None:
            if [(bytes(n), bytes(v)) for n, v in target_event.headers] != [(bytes(n), bytes(v)) for n, v in block]:
                res.inconclusive.append("harness: delivered headers differ from the block sent (%s %r)" % (kind, block))
            res.count("cases_valid_accepted")
            for t in either:
                res.count("obs_either_accepted:" + t)
        else:
            res.count("obs_stricter_than_property")
            if kind == "push_promise" and blocked_seen:
                res.count("obs_blocked_push_promise_valid_but_rejected")
            res.count("obs_stricter:%s" % (_reason_class(closed[1]) if closed else "no-close"))
            for t in either:
                res.count("obs_either_rejected:" + t)
            if closed is None and not undecodable:
                if enc == "dyn" or ending == "open":
                    res.count("obs_valid_block_no_event_no_close")
                else:
                    res.inconclusive.append("harness: V-valid block produced neither event nor close (%s %r)" % (kind, block))
            elif closed is not None and code not in (H3_MESSAGE_ERROR,) and not undecodable:
                res.count("obs_valid_block_closed_0x%x" % code)

        # content-length at end of stream
        if dk != "none" and ending != "open" and raised is None:
            spelling = bytes(dict((bytes(n), bytes(v)) for n, v in block)[b"content-length"]).hex()
            if ending == "unknown_frame_fin":
                res.count("obs_unknown_frame_end:%s:%s" % (clclass, "end-event" if ended_on_target else ("closed" if closed else "no-end-event-no-close")))
            elif dk == "decimal" and dn != body_total:
                if ended_on_target:
                    pass  # already reported by oracle (1)
                elif code is None:
                    viol = True
                    res.violation(
                        "content-length-mismatch-not-rejected:%s:%s" % (kind, ending_label),
                        "declared %d, body %d bytes, stream finished: no end event and no close" % (dn, body_total),
                        case_dict(kind, block, enc, body, ending, chunk, trunc),
                        {"events": [repr(e)[:200] for e in events[:8]]},
                    )
                elif trunc and code == H3_FRAME_ERROR:
                    res.count("obs_truncated_data_frame_closed_with_frame_error")  # stricter for another reason
                elif code != H3_MESSAGE_ERROR:
                    viol = True
                    res.violation(
                        "content-length-mismatch-wrong-close-code:%s:%s:0x%x" % (kind, ending_label, code),
                        "declared %d, body %d bytes: closed with 0x%x" % (dn, body_total, code),
                        case_dict(kind, block, enc, body, ending, chunk, trunc),
                        {"closed": closed},
                    )
                else:
                    res.count("cl_mismatch_rejected")
                    if trunc:
                        res.count("cl_truncated_mismatch_rejected")
            elif dk == "decimal":
                if ended_on_target:
                    res.count("cl_match_accepted")
                    if trunc:
                        res.count("cl_truncated_match_accepted")
                else:
                    res.count("obs_cl_match_not_accepted")
            else:
                if ended_on_target:
                    res.count("obs_cl_other:%s:end-event-with-body-of-%d" % (spelling[:24], body_total))
                else:
                    res.count("obs_cl_other:%s:%s" % (spelling[:24], "closed:" + _reason_class(closed[1]) if closed else "nothing"))

    if outcome != "nothing":
        res.nontrivial.add(
            "%s|%s|%s|%s|%s|%s|%s" % (kind, "+".join(broken), "+".join(either), outcome, ending_label, clclass, enc)
        )
    return viol


# ------------------------------------------------------------------ generators


def base_pseudo(kind):
    v = VKIND[kind]
    if v in ("request", "push_promise"):
        return list(REQ)
    if v in ("response", "push_response"):
        return list(RESP)
    return []


def place(kind, name, value, pos):
    """pos 0/1/2: first / middle / last among the regular headers; pos 3: the value sits in a
    pseudo-header (:path / :status); trailers have none, so the field goes in the middle."""
    ps = base_pseudo(kind)
    regs = [(b"x-first", b"1"), (b"x-last", b"2")]
    if pos == 3:
        if ps:
            ps[-1] = (ps[-1][0], value)
            return ps + regs
        pos = 1
    regs.insert(pos, (name, value))
    return ps + regs


GOOD_VALUES = [b"v", b""]
GOOD_NAME = b"x-t"


def gen_names(batch, res):
    strs = all_strings()
    i = 0
    for ni in range(batch["lo"], batch["hi"]):
        name = strs[ni]
        for kind in KINDS:
            for pos in (0, 1, 2):
                for gv in GOOD_VALUES:
                    i += 1
                    enc = ("lsq", "lit", "dyn")[i % 3]
                    run_case(res, kind, place(kind, name, gv, pos), enc)
                    res.count("name_cases")
    res.sample({"gen": "names", "range": [batch["lo"], batch["hi"]], "example_name": strs[batch["lo"]].hex()}, limit=1)


def gen_values(batch, res):
    strs = all_strings()
    i = 0
    for vi in range(batch["lo"], batch["hi"]):
        value = strs[vi]
        for kind in KINDS:
            for pos in (0, 1, 2, 3):
                i += 1
                enc = ("lsq", "lit", "dyn")[i % 3]
                run_case(res, kind, place(kind, GOOD_NAME, value, pos), enc)
                res.count("value_cases")
    res.sample({"gen": "values", "range": [batch["lo"], batch["hi"]], "example_value": strs[batch["lo"]].hex()}, limit=1)


def gen_cross(batch, res):
    """names[lo:hi] x values[0:vhi] x every kind; position rotating, or all three ("allpos")."""
    strs = all_strings()
    vhi = batch.get("vhi", NSTR)
    allpos = batch.get("allpos", False)
    counter = "cross_cases" if vhi == NSTR else "cross_short_cases"
    for ni in range(batch["lo"], batch["hi"]):
        name = strs[ni]
        for vi in range(vhi):
            value = strs[vi]
            for pos in ((0, 1, 2) if allpos else ((ni + vi) % 3,)):
                for kind in KINDS:
                    run_case(res, kind, place(kind, name, value, pos), "lsq")
                    res.count(counter)
    res.sample({"gen": "cross", "names": [batch["lo"], batch["hi"]], "values": [0, vhi], "allpos": allpos}, limit=1)


def gen_pp_blocked(batch, res):
    """PUSH_PROMISE frames whose block needs the dynamic table, delivered before the encoder
    instructions (stream blocks, then resumes), alone on the request stream."""
    seqs = all_sequences()
    for si in range(batch["lo"], batch["hi"]):
        for completed in (False, True):
            run_case(res, "push_promise", expand_sequence(seqs[si], "push_promise", completed), "dyn", [], "open", "one")
            res.count("pp_blocked_cases")
    res.sample({"gen": "pp_blocked", "range": [batch["lo"], batch["hi"]]}, limit=1)


def gen_cross_sample(batch, res):
    strs = all_strings()
    rng = random.Random(batch["seed"])
    encs = ("lsq", "lit", "dyn") if not batch.get("blocked") else ("dyn",)
    for _ in range(batch["n"]):
        # length-stratified so that short strings (the boundary cases) are not drowned by length 3
        name = _pick(rng, strs)
        value = _pick(rng, strs)
        kind = KINDS[rng.randrange(len(KINDS))]
        pos = rng.randrange(4)
        run_case(res, kind, place(kind, name, value, pos), encs[rng.randrange(len(encs))])
        res.count("cross_sample_cases")
    res.sample({"gen": "cross_sample", "seed": batch["seed"], "n": batch["n"]}, limit=1)


def _pick(rng, strs):
    r = rng.random()
    if r < 0.05:
        return strs[0]
    if r < 0.25:
        return strs[1 + rng.randrange(13)]
    if r < 0.6:
        return strs[14 + rng.randrange(169)]
    return strs[183 + rng.randrange(2197)]


# what stands for a "regular" header in the sequence cases: besides an arbitrary field, the regular fields a receiver
# treats specially (so that "a regular header was seen" must not depend on which regular header it was)
REGULARS = [(b"x-r", b"1"), (b"content-length", b"0"), (b"transfer-encoding", b"trailers"), (b"cookie", b"a=b"),
            # names an implementation may give a meaning of their own (HTTP/1.1 heritage): none of them stands in for a pseudo-header
            (b"host", b"localhost"), (b"te", b"trailers"), (b"connection", b"close"), (b"content-type", b"text/plain")]


def expand_sequence(seq, kind, completed, variant=0, empty_occurrence=None):
    """empty_occurrence = 0 / 1: a pseudo-header that occurs more than once gets an empty value at its first / second
    occurrence (a duplicate is a duplicate whatever the values are)"""
    v = VKIND[kind]
    hdrs = []
    reg = REGULARS[variant % len(REGULARS)]
    seen_count = {}
    for t in seq:
        if empty_occurrence is not None and t <= 6 and list(seq).count(t) > 1:
            n = seen_count.get(t, 0)
            seen_count[t] = n + 1
            if n == empty_occurrence:
                hdrs.append((TOKEN_HEADER[t][0], b""))
                continue
        if t == 7 and variant % len(REGULARS):
            hdrs.append(reg)
        elif t == 8:
            hdrs.append(reg if variant % len(REGULARS) else (b"x-b", b"1"))
            if v in ("request", "push_promise"):
                cand = [3, 1, 2, 0]
            elif v in ("response", "push_response"):
                cand = [4]
            else:
                cand = [3]
            pick = next((c for c in cand if c not in seq), cand[0])
            hdrs.append(TOKEN_HEADER[pick])
        else:
            hdrs.append(TOKEN_HEADER[t])
    if completed:
        present = [n for n, _ in hdrs]
        missing = [h for h in base_pseudo(kind) if h[0] not in present]
        hdrs = missing + hdrs
    return hdrs


def gen_seqs(batch, res):
    seqs = all_sequences()
    i = 0
    for si in range(batch["lo"], batch["hi"]):
        seq = seqs[si]
        for kind in KINDS:
            for completed in (False, True):
                if completed and VKIND[kind] == "trailers":
                    continue
                i += 1
                enc = ("lsq", "lit", "dyn")[i % 3]
                run_case(res, kind, expand_sequence(seq, kind, completed), enc)
                res.count("sequence_cases")
                if any(t <= 6 and list(seq).count(t) > 1 for t in seq):
                    for eo in (0, 1):
                        run_case(res, kind, expand_sequence(seq, kind, completed, 0, empty_occurrence=eo), ("lsq", "lit", "dyn")[(i + eo) % 3])
                        res.count("sequence_cases")
                        res.count("sequence_cases_repeated_pseudo_with_empty_value")
                if 7 in seq or 8 in seq:
                    # the same sequence with a specially handled regular field in place of the arbitrary one
                    # (a repeated content-length is a different defect class: skip sequences that would repeat it)
                    variant = 1 + (i + si) % (len(REGULARS) - 1)
                    if not (REGULARS[variant][0] == b"content-length" and (list(seq).count(7) + list(seq).count(8)) > 1):
                        run_case(res, kind, expand_sequence(seq, kind, completed, variant), ("lsq", "lit", "dyn")[(i + 1) % 3])
                        res.count("sequence_cases")
                        res.count("sequence_cases_special_regular")
    res.sample({"gen": "seqs", "range": [batch["lo"], batch["hi"]], "example": [SEQ_TOKENS[t] for t in seqs[batch["hi"] - 1]]}, limit=1)


def gen_clen(batch, res):
    kind = batch["kind"]
    chunk = batch["chunk"]
    for sp in CL_SPELLINGS:
        val = sp.encode("utf8")
        block = base_pseudo(kind) + [(b"content-length", val), (b"x-a", b"1")]
        for body in BODY_SPLITS:
            for ending in CL_ENDINGS:
                for enc in ("lsq", "dyn"):
                    run_case(res, kind, block, enc, body, ending, chunk)
                    res.count("content_length_cases")
                if kind in ("response", "resp_trailers") and ending in ("fin_frame", "lone_fin", "trailers_fin"):
                    # the same response to a request the victim sent with another method
                    for meth in (b"HEAD", b"POST", b"OPTIONS"):
                        LOCAL_METHOD[0] = meth
                        try:
                            run_case(res, kind, block, "lsq", body, ending, chunk)
                        finally:
                            LOCAL_METHOD[0] = b"GET"
                        res.count("content_length_cases_other_request_method")
    # final DATA frame cut short by the end of the stream: announced != delivered
    for pre in ([], [3], [0]):
        for tk, tj in TRUNCS:
            delivered = sum(pre) + tj
            announced = sum(pre) + tk
            declared = []
            for d in (delivered, announced, announced + 1, 0):
                if d not in declared:
                    declared.append(d)
            for d in declared:
                block = base_pseudo(kind) + [(b"content-length", str(d).encode()), (b"x-a", b"1")]
                for ending in ("fin_frame", "lone_fin"):
                    for enc in ("lsq", "dyn"):
                        run_case(res, kind, block, enc, pre, ending, chunk, (tk, tj))
                        res.count("content_length_truncated_cases")
    res.sample({"gen": "clen", "kind": kind, "chunk": chunk, "spellings": len(CL_SPELLINGS), "splits": BODY_SPLITS, "endings": CL_ENDINGS}, limit=1)


def gen_misc(batch, res):
    """Hand-listed interactions: duplicate regular headers / cookies (allowed), things the
    statement is silent about (observations), and a stream left open."""
    blocks = [
        [(b"cookie", b"a=b"), (b"cookie", b"c=d"), (b"x-a", b"1"), (b"x-a", b"1")],
        [(b"transfer-encoding", b"chunked")],
        [(b"transfer-encoding", b"trailers")],
        [(b"content-length", b"5"), (b"content-length", b"5")],
        [(b"content-length", b"5"), (b"content-length", b"6")],
        [(b"connection", b"keep-alive")],
        [(b"x-a", b"a b"), (b"x-b", b"a\tb"), (b"x-c", b"\x7f\x80\xff")],
        [(b"x-a", b" "), (b"x-b", b"ok")],
        [(b"x-a", b"\t"), (b"x-b", b"ok")],
        [(b"x-a", b"ok"), (b"x-b", b"ok ")],
        [(b"x-a", b"ok"), (b"x-b", b"o\rk")],
        [(b"x-~|^_`", b"1"), (b"x-{}", b"1"), (b"x-[\\]@", b"1")],
        [(b"host", b"localhost")],
    ]
    for kind in KINDS:
        for extra in blocks:
            for enc in ("lsq", "lit", "dyn"):
                for chunk in CHUNKS:
                    body = [5] if kind not in ("push_promise",) else []
                    for ending in ("fin_frame", "lone_fin", "open"):
                        run_case(res, kind, base_pseudo(kind) + extra, enc, body, ending, chunk)
                        res.count("misc_cases")
    # pseudo-header values and CONNECT-style requests
    for kind in ("request", "push_promise"):
        for block in (
            [(b":method", b"CONNECT"), (b":authority", b"localhost:443")],
            [(b":method", b"CONNECT"), (b":protocol", b"websocket"), (b":scheme", b"https"), (b":authority", b"h"), (b":path", b"/")],
            [(b":method", b"GET"), (b":scheme", b"https"), (b":authority", b""), (b":path", b"/")],
            [(b":method", b"GET"), (b":scheme", b"https"), (b":authority", b"h"), (b":path", b"")],
            [(b":method", b"OPTIONS"), (b":scheme", b"https"), (b":authority", b"h"), (b":path", b"*")],
            [(b":method", b""), (b":scheme", b"https"), (b":authority", b"h"), (b":path", b"/")],
            [(b":METHOD", b"GET"), (b":scheme", b"https"), (b":authority", b"h"), (b":path", b"/")],
            [(b":method", b"GET"), (b":scheme", b"https"), (b":authority", b"h"), (b":path", b"/"), (b":", b"x")],
            [(b":", b"x"), (b":method", b"GET"), (b":scheme", b"https"), (b":authority", b"h"), (b":path", b"/")],
        ):
            for enc in ("lsq", "lit", "dyn"):
                run_case(res, kind, block, enc)
                res.count("misc_cases")
    res.sample({"gen": "misc", "blocks": len(blocks)}, limit=1)


def gen_replay(batch, res):
    block = [(bytes.fromhex(n), bytes.fromhex(v)) for n, v in batch["block"]]
    LOCAL_METHOD[0] = batch.get("local_method", "GET").encode()
    run_case(
        res, batch["kind"], block, batch.get("enc", "lsq"), batch.get("body", []), batch.get("ending", "fin_frame"),
        batch.get("chunk", "one"), tuple(batch["trunc"]) if batch.get("trunc") else None,
    )


GENS = {
    "names": gen_names,
    "values": gen_values,
    "cross": gen_cross,
    "pp_blocked": gen_pp_blocked,
    "cross_sample": gen_cross_sample,
    "seqs": gen_seqs,
    "clen": gen_clen,
    "misc": gen_misc,
    "replay": gen_replay,
}


def run_batch(batch):
    res = Result()
    t0 = time.process_time()
    GENS[batch["gen"]](batch, res)
    res.count("cpu_s_" + batch["gen"], round(time.process_time() - t0, 2))
    return res.as_dict()
