"""C06 — the sender never exceeds the peer's flow-control and stream-count limits.

Conservation ledger kept by the wire tap, outside the sender (vf.monitors.CreditLedger):
limits in force = the peer's transport parameters + every MAX_* frame in a packet that was
actually delivered to the sender; checked at every STREAM / RESET_STREAM frame the sender
puts on the wire, under loss, duplication and reordering (retransmissions must not consume
credit); at the end of the fair phase unsent data must be explained by an exhausted limit.
"""

from __future__ import annotations

import random
import time

from ..common import Result

PROPERTY = "C06"
LEVEL = "exploration"
BUDGET = {"quick": 65, "thorough": 1400}
BATCH_TIMEOUT = {"quick": 300, "thorough": 1200}
RULE = (
    "cases = seeded scenarios in which the receiving side advertises small limits (max_data / max_stream_data in "
    "{0,1,2,1199,1200,1201,4096,65536,default}, stream counts in {0,1,2,3,128}) and the sender writes 0x/1x/2x/10x the limit on "
    "1..limit+3 streams of each kind (one write or many, FIN, reset mid-way) over a lossy/duplicating/reordering network; the "
    "receiver's own MAX_* updates get lost, duplicated and reordered; in 30% of the cases the client resumes a session with lower-or-equal remembered "
    "limits and writes before the handshake completes (0-RTT); in 35% the three per-stream transport parameters (bidi_local, bidi_remote, uni) "
    "differ and peers answer on streams they did not open; in 25% the peer injects MAX_DATA / MAX_STREAM_DATA / MAX_STREAMS frames with value 0 "
    "(limits never go backwards); at the end every byte that was on the wire once must have reached the peer application. non-trivial = the ledger saw the sender exactly exhaust a "
    "limit and later send beyond it after an update was delivered; distinct = hash(limit configuration bucket, op multiset, fate multiset)."
)
RULE += ' Late additions: streams written to their end (FIN) but stuck behind flow control are reset by the sender or stopped by the receiver; directed reset of a stream the endpoint has already completed and forgotten while acknowledgements are lost.'

ASSUMPTIONS = [
    "limits in force are computed from the configured transport parameters of the peer and from MAX_* frames the independent tap "
    "parsed in datagrams the simulator delivered to the sender",
    "stream-count limits are preset on the advertising endpoint before the handshake (QuicConfiguration has no knob for them)",
    "0-RTT: the limits in force for the client are the ones of the priming connection until the first server packet above the "
    "Initial level has been delivered to it, then the maximum of both (the generator never lets the server reduce a limit, as RFC 9000 7.4.1 requires)",
]

LIMITS = [0, 1, 2, 1199, 1200, 1201, 4096, 65536, 1048576]
COUNTS = [0, 1, 2, 3, 128]


def floors(tier):
    return {"credit_evaluations": 2000, "stream_frames": 2000, "updates_delivered": 50, "zero_rtt_stream_frames": 50}


def plan(tier, seed):
    n, per = (480, 8) if tier == "quick" else (30000, 25)
    base = seed * 1000003
    return [{"gen": "limits", "seeds": [base + i + k for k in range(per)]} for i in range(0, n, per)]


def gen_case(seed):
    from ..scenarios import gen_config, gen_fates

    rng = random.Random("c06/%s" % seed)
    opts = gen_config(rng)
    fates = gen_fates(rng)
    fates.pop("rebind_after", None)
    script = []
    budget = 300000
    for recv in ("server", "client"):
        send = "client" if recv == "server" else "server"
        if rng.random() < 0.25 and recv == "client":
            continue  # one-directional case
        md = rng.choice(LIMITS)
        msd = rng.choice(LIMITS)
        opts["max_data_" + recv] = md
        opts["max_stream_data_" + recv] = msd
        nb = rng.choice(COUNTS)
        nu = rng.choice(COUNTS)
        opts["max_streams_bidi_" + recv] = nb
        opts["max_streams_uni_" + recv] = nu
        lim = max(1, min(md, msd) if min(md, msd) else max(md, msd, 1))
        for uni, cnt in ((False, nb), (True, nu)):
            nstreams = rng.choice([0, 1, min(cnt, 2) + 1, min(cnt, 3) + 3])
            base = (2 if uni else 0) + (0 if send == "client" else 1)
            for k in range(nstreams):
                sid = base + 4 * k
                total = min(int(lim * rng.choice([0, 1, 1, 2, 10])) + rng.choice([0, 0, 1]), 60000, max(budget, 0))
                budget -= total
                t = rng.random() * 1.5
                nw = rng.choice([1, 1, 3, 7])
                left = total
                ended = False
                for i in range(nw):
                    size = left if i == nw - 1 else rng.randrange(0, left + 1)
                    left -= size
                    fin = (i == nw - 1) and rng.random() < 0.7
                    if size == 0 and not fin:
                        continue
                    script.append({"t": round(t, 4), "side": send, "op": "write", "sid": sid, "n": size, "fin": fin})
                    ended = ended or fin
                    t += rng.choice([0.0, 0.01, 0.3])
                    if not fin and rng.random() < 0.05:
                        script.append({"t": round(t, 4), "side": send, "op": "reset", "sid": sid, "code": 3})
                        break
    r2 = random.Random("c06-0rtt/%s" % seed)
    if r2.random() < 0.3:
        # 0-RTT: the client resumes a session in which the server advertised lower-or-equal limits
        # (a server must not reduce them); part of the client's writes happen before the handshake
        # completes and are bound by the remembered limits, the rest by the new ones.
        rem = {}
        for k, pool in (("max_data_server", LIMITS), ("max_stream_data_server", LIMITS), ("max_streams_bidi_server", COUNTS), ("max_streams_uni_server", COUNTS)):
            cur = opts.get(k)
            if cur is None:
                continue
            cands = [x for x in pool if x <= cur]
            rem[k] = r2.choice(cands[-3:] + [cands[-1]])  # mostly close to the new limit, so that 0-RTT data flows at all
        opts["resume"] = rem
        if r2.random() < 0.25:
            # the server was reconfigured with *lower* limits than the client remembers and the client sends no early
            # data (all its writes come after the handshake): the limits of this connection bind, not the remembered ones
            for k, pool in (("max_data_server", LIMITS), ("max_stream_data_server", LIMITS), ("max_streams_bidi_server", COUNTS), ("max_streams_uni_server", COUNTS)):
                cur = opts.get(k)
                if cur is None:
                    continue
                higher = [x for x in pool if x > cur]
                if higher:
                    rem[k] = r2.choice(higher)
            for o in script:
                if o["side"] == "client":
                    o["t"] = round(o["t"] + 0.3, 4)
                    o["after_handshake"] = True
        else:
            for o in script:
                if o["side"] == "client" and r2.random() < 0.6:
                    o["t"] = r2.choice([0.0, 0.0, 0.001, 0.004])
    r4 = random.Random("c06-kinds/%s" % seed)
    if r4.random() < 0.35:
        # the three per-stream transport parameters differ (RFC 9000 18.2; QuicConfiguration cannot express it, other
        # stacks do it all the time): which one binds depends on who opened the stream and on its direction
        for recv in ("server", "client"):
            if "max_stream_data_" + recv in opts:
                for which in ("bidi_local", "bidi_remote", "uni"):
                    if r4.random() < 0.7:
                        opts["msd_%s_%s" % (which, recv)] = r4.choice(LIMITS)
        # answers on streams the peer opened exercise the bidi_local limit of the peer
        for o in list(script):
            if o["op"] == "write" and not (o["sid"] & 2) and r4.random() < 0.5:
                other = "server" if o["side"] == "client" else "client"
                script.append({"t": round(o["t"] + 0.3 + r4.random(), 4), "side": other, "op": "write", "sid": o["sid"],
                               "n": r4.choice([1, 2, 1200, 1201, 5000, 70000]), "fin": r4.random() < 0.5})
    r3 = random.Random("c06-lower/%s" % seed)
    if r3.random() < 0.25:
        # the peer (its genuine keys, a fresh packet number) announces *lower* limits than before: MAX_DATA,
        # MAX_STREAM_DATA and MAX_STREAMS never go backwards, so the sender must ignore them and keep using what
        # it was granted (the ledger keeps the maximum seen)
        first_write = {}
        for o in script:
            if o["op"] == "write" and o["sid"] < 64:
                first_write.setdefault((o["side"], o["sid"]), o["t"])
        for _ in range(r3.choice([1, 2, 4])):
            side = r3.choice(["client", "server"])
            t = round(0.2 + r3.random() * 1.5, 4)
            # MAX_STREAM_DATA only for streams this side has certainly opened by then (anything else is a protocol error)
            own = [sid for (sd, sid), tw in first_write.items() if sd == side and tw + 0.15 < t and (sid % 2 == 0) == (side == "client")]
            # value 0: never above what was granted before, whatever the configured limits are
            cands = ["1000", "1200", "1300"]
            op = {"t": t, "side": side, "op": "forge", "ptype": "1rtt", "frames_hex": r3.choice(cands)}
            if own and r3.random() < 0.5:
                sid = r3.choice(own)
                op.update(frames_hex="11%02x00" % sid, require_stream=sid)
            script.append(op)
    r5 = random.Random("c06-ownstop/%s" % seed)
    if r5.random() < 0.3:
        # the application loses interest in the answer on a bidirectional stream it opened itself — possibly while the
        # stream is still waiting for MAX_STREAMS: STOP_SENDING (like any frame naming the stream) would open it at the peer
        seen = set()
        for o in list(script):
            if o["op"] != "write":
                continue
            own = (o["sid"] % 2 == 0) == (o["side"] == "client")
            if own and not (o["sid"] & 2) and (o["side"], o["sid"]) not in seen:
                seen.add((o["side"], o["sid"]))
                if r5.random() < 0.5:
                    script.append({"t": round(o["t"] + r5.choice([0.0, 0.0, 0.001, 0.05, 0.5]), 4), "side": o["side"], "op": "stop", "sid": o["sid"], "code": 11})
    r6 = random.Random("c06-reset-blocked/%s" % seed)
    if r6.random() < 0.35:
        # a stream that was written to its end (FIN included) but is stuck behind flow control is abandoned: the sender
        # resets it, or the receiver asks it to stop — the final size announced by RESET_STREAM is bound by the limits
        # like the end of any STREAM frame, whatever the application has written
        ends = {}
        for o in script:
            if o["op"] == "write":
                k = (o["side"], o["sid"])
                e = ends.setdefault(k, {"t": o["t"], "n": 0, "fin": False, "ah": False})
                e["ah"] = e["ah"] or bool(o.get("after_handshake"))
                e["t"] = max(e["t"], o["t"])
                e["n"] += o["n"]
                e["fin"] = e["fin"] or o["fin"]
        for (side, sid), e in sorted(ends.items()):
            if e["fin"] and e["n"] > 0 and r6.random() < 0.6:
                other = "server" if side == "client" else "client"
                t = round(e["t"] + r6.choice([0.0, 0.001, 0.05, 0.3, 1.0]), 4)
                if (sid & 2) or r6.random() < 0.6:
                    script.append({"t": t, "side": side, "op": "reset", "sid": sid, "code": 5})
                else:
                    script.append({"t": t, "side": other, "op": "stop", "sid": sid, "code": 6})
                if e["ah"]:
                    # (lowered-limits resumption: this client must not send anything under the remembered limits)
                    script[-1]["after_handshake"] = True
    r7 = random.Random("c06-reset-finished/%s" % seed)
    if r7.random() < 0.05:
        # directed: a request/response on one bidirectional stream completes; the acknowledgements of the side that got
        # the last FIN are lost for a while, so that side has forgotten the stream while its peer still holds it — and its
        # application, which cannot know, aborts the stream it has in fact just finished
        for k in ("resume", "resume_forget", "retry", "frontend_vn"):
            opts.pop(k, None)
        if opts.get("versions_server") == ["v1"]:
            opts.pop("versions_server")
        for side in ("client", "server"):
            opts["max_data_" + side] = opts["max_stream_data_" + side] = 1048576
            opts["max_streams_bidi_" + side] = opts["max_streams_uni_" + side] = 128
        for k in [k for k in opts if k.startswith("msd_")]:
            opts.pop(k)
        a = r7.choice(["client", "server"])
        b = "server" if a == "client" else "client"
        sid = 0 if a == "client" else 1
        d = r7.choice([0.01, 0.02])
        t0 = 0.5
        t_ans = t0 + 4 * d
        fates = {"delay": d, "adv_seconds": t_ans + 3.0, "adv_dgrams": 10**6, "loss": 0.0,
                 "blackouts": [[t_ans + d / 2, t_ans + 2.0, "c2s" if a == "client" else "s2c"]]}
        script = [{"t": t0, "side": a, "op": "write", "sid": sid, "n": r7.choice([1, 1000]), "fin": True},
                  {"t": round(t_ans, 4), "side": b, "op": "write", "sid": sid, "n": r7.choice([1, 500]), "fin": True},
                  {"t": round(t_ans + r7.choice([0.3, 0.8]), 4), "side": a, "op": "reset", "sid": sid, "code": 8}]
    script.sort(key=lambda o: o["t"])
    return {"seed": seed, "opts": opts, "fates": fates, "script": script, "horizon": fates["adv_seconds"] + 150.0}


def run_batch(batch):
    from .. import monitors
    from ..simprops import run_case

    res = Result()
    t0 = time.time()
    for seed in batch["seeds"]:
        sc = gen_case(seed)
        led = monitors.CreditLedger()
        dm = monitors.DeliveryModel(completion=False)
        o = sc["opts"]
        sig = tuple((k, o[k]) for k in sorted(o) if k.startswith("max_"))
        sim, ok = run_case(sc, [led, dm], res, {"gen": "limits", "seeds": [seed]},
                           counters=("stream_frames", "updates_delivered", "retransmitted_bytes", "bytes_checked", "zero_rtt_stream_frames", "delivery_checks", "other_stream_frames_checked", "remembered_replaced_exactly"),
                           nontrivial=lambda s: bool(led.progress_after_block), sig_extra=sig)
        res.count("runs_blocked_then_progressed", 1 if led.progress_after_block else 0)
        res.count("runs_blocked", 1 if led.blocked_seen else 0)
        res.count("runs_resumed_0rtt", 1 if led.zero_rtt_stream_frames else 0)
        res.count("runs_0rtt_limits_raised_by_handshake", 1 if (led.zero_rtt_stream_frames and isinstance(led.remembered_until, float)) else 0)
        if ok:
            res.sample({"seed": seed, "limits": dict(sig), "ops": len(sc["script"]), "stream_frames": led.stream_frames,
                        "updates_delivered": led.updates_delivered, "retransmitted_bytes": led.retransmitted_bytes,
                        "blocked_then_progressed": sorted(led.progress_after_block), "fates": dict(sim.fates.counts)}, limit=2)
    res.count("cpu_s", round(time.time() - t0, 2))
    return res.as_dict()
