"""C13 — datagram emission respects size, padding and anti-amplification rules.

External byte ledger per (endpoint, peer address) kept only from what the harness passed in
and got out (vf.monitors.EmissionMonitor): datagram length <= configured max_datagram_size;
Initial-bearing datagrams >= 1200 bytes (client always, server when ack-eliciting);
bytes sent to an address <= 3 x bytes received from it until that address is validated.
"""

from __future__ import annotations

import random
import time

from ..common import Result

PROPERTY = "C13"
LEVEL = "exploration"
BUDGET = {"quick": 65, "thorough": 1400}
BATCH_TIMEOUT = {"quick": 300, "thorough": 1200}
RULE = (
    "cases = handshake-centred scenarios: loss / duplication / reordering of the flights, spoofed-source copies of the client's "
    "first datagrams arriving from third-party addresses, certificate chain with and without intermediates, independent "
    "max_datagram_size on both sides in {1200,1201,1252,1350,1452,1500}, early client data, client rebinding mid-connection; 30% of the cases resume a "
    "session with 0-RTT client data (up to a congestion window of it) and a server application answering with 0.5-RTT data before the handshake completes. "
    "non-trivial = a run in which the server sent at least one datagram to a not-yet-validated address; distinct = hash(size "
    "configuration, chain, fate multiset, spoof/migration pattern)."
)
RULE += ' Late addition: pattern big-client-hello-with-hole (ClientHello of 3-12 Initial packets, one held back or lost); short Initial datagrams are attributed to the amplification budget, the congestion window, or neither (= violation).'

ASSUMPTIONS = [
    "an address counts as validated for the server (conservatively late) once an authentic Handshake packet from it was delivered, or "
    "a PATH_RESPONSE echoing a PATH_CHALLENGE the server sent to that address was delivered",
    "'received' counts every byte of every datagram the simulator handed to the endpoint with that source address, including "
    "corrupted and spoofed ones",
    "0-RTT packets never validate an address (only Handshake packets and PATH_RESPONSE do); Retry and address-validation tokens are not exercised by this check yet",
]


def floors(tier):
    return {"datagrams_checked": 3000, "initial_datagrams": 300, "amplification_checks": 300}


def plan(tier, seed):
    n, per = (560, 8) if tier == "quick" else (30000, 25)
    base = seed * 1000003
    return [{"gen": "emission", "seeds": [base + i + k for k in range(per)]} for i in range(0, n, per)]


def gen_case(seed):
    from ..scenarios import gen_config, gen_fates, gen_script

    rng = random.Random("c13/%s" % seed)
    opts = gen_config(rng)
    opts["mds_client"] = rng.choice([1200, 1201, 1252, 1350, 1452, 1500])
    opts["mds_server"] = rng.choice([1200, 1201, 1252, 1350, 1452, 1500])
    r = rng.random()
    if r < 0.35:
        opts["certfile"] = "ssl_cert_with_chain.pem"
    elif r < 0.65:
        opts["cert_kind"] = "ec"  # flight smaller than one datagram: Initial datagrams padded at the datagram end
    fates = gen_fates(rng)
    fates["adv_seconds"] = rng.choice([1.0, 2.0, 4.0])
    pattern = rng.choice(["plain", "spoof", "spoof", "rebind", "rebind-early", "heavy-loss", "silent-client", "silent-client"])
    fates.pop("rebind_after", None)
    if pattern == "spoof":
        fates["spoof_first"] = rng.choice([1, 2, 5])
        fates["spoof_datagrams"] = rng.choice([1, 2, 3])
    elif pattern == "rebind":
        fates["rebind_after"] = rng.choice([6, 10, 20, 40])
    elif pattern == "rebind-early":
        fates["rebind_after"] = rng.choice([1, 2, 3, 4])
    elif pattern == "heavy-loss":
        fates["loss"] = 0.5
    elif pattern == "silent-client":
        # only the client's first datagram(s) get through: the server keeps retransmitting its
        # (padded) flight on probe timeouts towards an address it can never validate
        fates["blackouts"] = [[rng.choice([0.0005, 0.03, 0.06]), 1e9, "c2s"]]
        fates["adv_seconds"] = 40.0
        fates["adv_dgrams"] = 10**6
        fates["loss"] = 0.0
    script = gen_script(rng, fates["adv_seconds"], max_streams=4, budget_bytes=120000, allow_key_update=False, allow_stop=False)
    r5 = random.Random("c13-twice/%s" % seed)
    if pattern in ("rebind", "rebind-early") and r5.random() < 0.5:
        # the client's address changes twice in quick succession: what answers the challenge sent to the second address
        # arrives from a third one, which nobody ever challenged; the server has plenty to send (download)
        fates["rebind_again_after"] = fates["rebind_after"] + r5.choice([1, 1, 2, 3])
        fates["loss"] = min(fates.get("loss", 0.0), 0.05)
        script.append({"t": 0.3, "side": "server", "op": "write", "sid": 3, "n": r5.choice([30000, 100000]), "fin": True})
        script.append({"t": 0.3, "side": "client", "op": "write", "sid": 0, "n": r5.choice([2000, 20000]), "fin": False})
        script.sort(key=lambda o: o["t"])
        pattern += "+twice"
    r7 = random.Random("c13-close/%s" % seed)
    if pattern == "silent-client" and r7.random() < 0.5:
        # ... and the server application gives up and closes while the budget is (nearly) used up: closing packets are
        # datagrams to an unvalidated address like any other
        script.append({"t": r7.choice([0.3, 0.65, 1.0, 2.5, 6.0]), "side": "server", "op": "close", "early": True, "code": r7.choice([0, 1, 0x10E]),
                       "frame_type": r7.choice([None, 6]), "reason": r7.choice(["", "bye", "x" * 100, "y" * 600])})
        pattern += "+server-close"
    r6 = random.Random("c13-spoofinit/%s" % seed)
    if pattern in ("plain", "spoof") and r6.random() < 0.5:
        # an attacker who can read the client's first datagram (Initial keys are public) sends, with the victim's address as
        # source, a padded Initial of its own carrying a non-probing frame and the next packet number, between the
        # server's flight and the client's Handshake packets; after the handshake a 1-RTT packet with the victim's
        # source address follows (an on-path attacker, or the client itself spoofing): that address was never
        # validated by a Handshake packet or a PATH_RESPONSE, whatever the server believed in between
        d = fates.get("delay", 0.02)
        for k in ("retry", "frontend_vn", "resume", "resume_forget"):
            opts.pop(k, None)
        script.append({"t": round(d * r6.choice([1.2, 1.5, 1.8]), 5), "side": "server", "op": "forge", "ptype": "initial", "frames_hex": "01",
                       "pad_to": 1200, "early": True, "from_alt": True, "pn_gap": r6.choice([0, 30, 30]), "pn_no_reserve": True})
        for i in range(r6.choice([1, 2])):
            script.append({"t": round(0.45 + 0.3 * i + r6.random() * 0.2, 4), "side": "server", "op": "forge", "ptype": "1rtt", "frames_hex": "01", "from_alt": True})
        script.append({"t": 0.3, "side": "server", "op": "write", "sid": 3, "n": r6.choice([300000, 600000]), "fin": True})
        fates["loss"] = min(fates.get("loss", 0.0), 0.05)
        script.sort(key=lambda o: o["t"])
        pattern += "+spoofed-initial-then-packet-from-that-address"
    r10 = random.Random("c13-bighello/%s" % seed)
    if pattern in ("plain", "heavy-loss", "spoof") and r10.random() < 0.5:
        # a ClientHello that spans three or more Initial packets (a long ALPN list), one of the middle packets lost or
        # held back: the server acknowledges a gapped Initial space and probes it while it cannot answer yet — Initial
        # packets that are ack-eliciting without carrying CRYPTO
        for k in ("retry", "frontend_vn", "resume", "resume_forget"):
            opts.pop(k, None)
        n_names = r10.choice([30, 70, 200, 250])
        opts["alpn"] = ["vf"] + ["proto-%03d-%s" % (i, "x" * 40) for i in range(n_names)]
        opts["alpn_server"] = ["vf"]
        forced = dict(fates.get("forced", {}))
        forced["c2s:%d" % r10.choice([1, 1, 2])] = r10.choice(["drop", "late:0.3", "late:1.5"])
        fates["forced"] = forced
        pattern += "+big-client-hello-with-hole"
    if rng.random() < 0.4:
        # data written before the handshake completes (fills the congestion window as soon as keys exist)
        script.append({"t": 0.0, "side": "client", "op": "write", "sid": 40, "n": rng.choice([5000, 40000]), "fin": True})
        script.sort(key=lambda o: o["t"])
    r2 = random.Random("c13-0rtt/%s" % seed)
    if r2.random() < 0.3 and "big-client-hello" not in pattern:
        # (a resumed ClientHello larger than 1024 bytes makes connect() itself raise BufferWriteError — tls.py serialises
        # the hello without binder into a 1024-byte scratch buffer; local configuration, not network input: observation)
        # session resumption with 0-RTT: early client data (possibly a congestion window full of it) and a
        # server application that answers it before the handshake completes (0.5-RTT data) — the server
        # then has far more than 3x the received bytes to send to an address it has not validated yet
        opts["resume"] = {}
        script.append({"t": 0.0, "side": "client", "op": "write", "sid": 44, "n": r2.choice([100, 5000, 40000, r2.randrange(500, 9000), r2.randrange(500, 9000)]), "fin": r2.random() < 0.5})
        if r2.random() < 0.35:
            # nothing ever comes back: the client's probe timeouts fire while its Initial keys are still in use and the
            # congestion window is partly filled with 0-RTT data (probes are allowed a full datagram)
            fates["blackouts"] = [[0.0, 1e9, "s2c"]]
            fates["adv_seconds"] = 30.0
            fates["adv_dgrams"] = 10**6
            pattern += "+silent-server"
        if r2.random() < 0.7:
            script.append({"t": 0.0, "side": "server", "op": "write", "sid": 44, "n": r2.choice([5000, 40000, 200000]), "fin": True,
                           "early": True, "wait_stream": True})
        script.sort(key=lambda o: o["t"])
        pattern += "+0rtt"
    return {"seed": seed, "opts": opts, "fates": fates, "script": script, "horizon": min(fates["adv_seconds"], 40.0) + 60.0, "pattern": pattern}


def run_batch(batch):
    from .. import monitors
    from ..simprops import run_case

    res = Result()
    t0 = time.time()
    for seed in batch["seeds"]:
        sc = gen_case(seed)
        em = monitors.EmissionMonitor()
        sim, ok = run_case(sc, [em], res, {"gen": "emission", "seeds": [seed]},
                           counters=("datagrams_checked", "initial_datagrams", "amplification_checks", "unvalidated_sends"),
                           nontrivial=lambda s: em.unvalidated_sends > 0,
                           sig_extra=(sc["pattern"], sc["opts"]["mds_client"], sc["opts"]["mds_server"], sc["opts"].get("certfile"), sc["opts"].get("cert_kind")))
        res.maxc("max_sent_over_received_x100_unvalidated", em.max_ratio_x100)
        res.count("pattern_" + sc["pattern"])
        if "+0rtt" in sc["pattern"]:
            res.count("runs_0rtt_server_sent_before_handshake_complete", 1 if getattr(em, "server_sent_before_hs", 0) else 0)
            res.count("runs_0rtt_accepted", 1 if any(getattr(e, "early_data_accepted", False) for _t, e in sim.client.events) else 0)
        if ok:
            res.sample({"seed": seed, "pattern": sc["pattern"], "opts": sc["opts"], "fates": dict(sim.fates.counts), "datagrams_checked": em.datagrams_checked,
                        "initial_datagrams": em.initial_datagrams, "unvalidated_sends": em.unvalidated_sends, "max_ratio_x100": em.max_ratio_x100,
                        "addresses": sorted(str(k[1]) for k in em.received)}, limit=2)
    res.count("cpu_s", round(time.time() - t0, 2))
    return res.as_dict()
