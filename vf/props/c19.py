"""C19 — asyncio adapter stays consistent under any event-loop schedule.

The REAL aioquic.asyncio connect()/serve()/QuicServer/QuicConnectionProtocol run unmodified on
E6 (vf/c19_vloop.py): a virtual-time SelectorEventLoop with an in-memory datagram network that
drops / duplicates / delays / reorders datagrams by seeded, content-independent fates, and
seeded timer lateness.  One server, 1-5 concurrent clients, seeded application coroutines.

Oracles (harness side):
 (1) streams   self-identifying bytes: what a reader returns is always a prefix of what the
               peer's writer wrote; EOF that does not come from connection termination implies
               "everything written + write_eof called"; on connections that stay up, every
               finished stream reaches its reader completely (bounded progress).
 (2) waiters   every awaited wait_connected()/ping()/wait_closed()/connect() enter+exit
               finishes with success or ConnectionError before the scenario's quiescent end;
               exceptions raised inside loop callbacks (e.g. InvalidStateError from a waiter
               resolved twice) are captured by loop.set_exception_handler.
 (3) routing   after every datagram delivered to the server and at the end: every connection
               ID a live server-side connection issued (ConnectionIdIssued) and did not see
               retired (ConnectionIdRetired), its first host CID and the destination CID of the
               Initial that created it map to that connection in QuicServer._protocols; no entry
               maps to a connection that reported termination; a datagram addressed to a live
               ID reaches its connection.
 (4) retry     with retry on, connection state is created only by an Initial whose token the
               server itself sent (in a Retry) to that very source address; harness-built
               Initials with forged / replayed-from-another-address / other-instance / truncated
               / empty tokens never create state and never raise.
"""

from __future__ import annotations

import asyncio
import io
import random
import time

from ..common import Result, SeededUrandom, exc_signature, exc_witness, h, prf_bytes

PROPERTY = "C19"
BUILD = "plain"
LEVEL = "exploration"
BUDGET = {"quick": 70, "thorough": 1300}
BATCH_TIMEOUT = {"quick": 240, "thorough": 900}
RULE = (
    "scenario = seed -> (1-5 clients through aioquic.asyncio.connect(), one QuicServer through serve(), retry on/off, "
    "fate class clean/loss/dup/reorder/mixed with an adversarial phase followed by a fair phase, timer lateness 0-5 ms, "
    "per client a close kind: context exit / client close() at a seeded instant / client error close / server-side "
    "close() / QuicServer.close() / idle timeout under blackout / protocol error provoked by a forged 1-RTT packet, and "
    "seeded application coroutines: 1-6 bidi/uni streams written in chunks by write/writelines/drain with sleeps, "
    "write_eof, read to EOF, concurrent ping()s also around and after close, wait_connected(), change_connection_id(), "
    "request_key_update(), wait_closed(); server echoes/sinks and pushes its own streams). Non-trivial = every connection "
    "terminated, >=1 stream delivered bytes to its reader and >=1 waiter finished; distinct = (client count, multiset of "
    "close kinds, fate class, retry, multiset of operation kinds)."
)
RULE += " A third of the stream writers finish with close() instead of write_eof(); some server handlers drop their writer at once; generator 'lazy' (connect(wait_connected=False) followed by wait_connected())."

ASSUMPTIONS = [
    "applications respect the adapter's documented preconditions: one pending wait_connected() per protocol, no write after "
    "write_eof, request_key_update only after the handshake and before termination and at most once per side (a second update before the first is acknowledged is forbidden by RFC 9001 6.1 and not gated by the core; observed: the peer then drops every packet until idle timeout), first write directly after create_stream "
    "(the lazy-first-write case is probed separately under its own signature)",
    "a wait_connected() first awaited after the handshake completed finishes only at termination with ConnectionError; the "
    "property text allows 'success or a connection error', so this is counted as an observation, not a violation",
    "liveness is decided in bounded virtual time: waiters must be finished when every connection has terminated and a grace "
    "period has passed; a connection that still has an armed timer at the bound makes the scenario inconclusive",
    "QuicConnection (sans-IO core) event emission is trusted for ConnectionIdIssued/ConnectionIdRetired/ConnectionTerminated",
    "bounded-delivery (completeness) is not demanded on connections on which request_key_update() was called: the core drops the "
    "previous receive keys immediately, so under loss the two sides can end up in different key phases until idle timeout "
    "(counted as obs_streams_stalled_after_key_update; prefix/EOF/waiter/routing oracles still apply)",
]

FG_BOUND = 150.0  # virtual seconds a client body waits for its foreground operations
DELIVERY_BOUND = 90.0  # virtual seconds a graceful client waits for its streams to reach the peer's readers
CLIENT_BOUND = 500.0
SERVER_BOUND = 150.0
COMPLETE_GRACE = 35.0  # virtual seconds (after write_eof and after the network became fair) within which a stream must be delivered
SCEN_WALL = 25.0  # wall-clock watchdog per scenario (expected 0.3-1 s)

V1 = 0x00000001
V2 = 0x6B3343CF
HOST = "localhost"
PORT = 4433


def floors(tier):
    return {
        "scenarios": 20,
        "streams_checked": 40,
        "bytes_compared": 100000,
        "waiters_finished": 100,
        "routing_evaluations": 500,
        "routed_datagrams_checked": 500,
        "retry_creations_checked": 3,
        "retry_injections_checked": 5,
    }


def finalize(tier, merged):
    return {
        "distinct_close_orders": sum(1 for k in merged if k.startswith("ord:")),
        "waiters_by_kind_outcome": {k[7:]: v for k, v in merged.items() if k.startswith("waiter:")},
    }


def plan(tier, seed):
    n = 560 if tier == "quick" else 12000
    per = 8 if tier == "quick" else 20
    out = []
    base = seed * 1000003
    for i in range(0, n, per):
        out.append({"gen": "scen", "seeds": [base + j for j in range(i, min(n, i + per))]})
    out.insert(1, {"gen": "lazy", "seed": seed})
    return out


# ====================================================================== scenario specification


def _chunks(rng, total):
    """split total bytes into write operations: [n, method, pause]"""
    out = []
    left = total
    if total == 0:
        return out
    k = rng.choice([1, 1, 2, 3, 5])
    for i in range(k):
        n = left if i == k - 1 else rng.randrange(0, left + 1)
        left -= n
        out.append([n, rng.choice(["write", "write", "writelines", "drain"]), rng.choice([0, 0, 0.001, 0.02, 0.2])])
    return out


def gen_spec(seed):
    rng = random.Random("c19-spec/%d" % seed)
    n = rng.choices([1, 2, 3, 4, 5], [30, 28, 20, 12, 10])[0]
    retry = rng.random() < 0.35
    fclass = rng.choices(["clean", "loss", "dup", "reorder", "mixed"], [12, 22, 18, 18, 30])[0]
    base = rng.choice([0.005, 0.02, 0.05])
    fate = {"class": fclass, "base": base, "adv_until": rng.choice([1.5, 4.0]), "loss": 0.0, "dup": 0.0, "reorder": 0.0, "jitter": 0.0}
    if fclass in ("loss", "mixed"):
        fate["loss"] = rng.choice([0.05, 0.15, 0.3])
    if fclass in ("dup", "mixed"):
        fate["dup"] = rng.choice([0.1, 0.3])
    if fclass in ("reorder", "mixed"):
        fate["reorder"] = rng.choice([0.3, 0.7])
        fate["jitter"] = rng.choice([0.5, 2, 6]) * base
    spec = {
        "seed": seed,
        "nclients": n,
        "retry": retry,
        "fate": fate,
        "lateness": rng.choice([0.0, 0.001, 0.005]),
        "server_idle": rng.choice([10.0, 50.0, 60.0]),
        "server_close_all_at": rng.choice([0.03, 0.2, 1.0, 2.5]) if rng.random() < 0.08 else None,
        "version": "v2" if rng.random() < 0.15 else "v1",
        "inject": [],
        "clients": [],
    }
    if retry:
        kinds = ["forged", "replayed-other-address", "replayed-same-host-other-port", "other-instance", "truncated", "no-token", "forged-short"]
        rng.shuffle(kinds)
        spec["inject"] = kinds[: rng.choice([2, 3, 7])]
    budget = 90000 // n
    for ci in range(n):
        kind = rng.choices(
            ["ctx_exit", "client_close", "client_error_close", "server_close", "idle", "forged_error"], [36, 16, 6, 16, 12, 14]
        )[0]
        c = {
            "start_at": rng.choice([0.0, 0.0, round(rng.random() * 0.5, 4)]),
            "wait_connected": rng.random() < 0.8,
            "close_kind": kind,
            "close_at": round(rng.choice([0.0, 0.03, 0.1, 0.3, 1.0, 2.0]) + rng.random() * 0.05, 4),
            "idle": rng.choice([1.5, 3.0]) if kind == "idle" else (rng.choice([45.0, 60.0]) if kind == "ctx_exit" else rng.choice([8.0, 20.0, 45.0])),
            "ops": [],
            "bg_ops": [],
            "exit_ops": [],
            "post_ops": [],
            "server_ops": [],
            "lazy_pair": rng.random() < 0.03,
        }
        nstreams = rng.choice([1, 1, 2, 3, 4, 6])
        left = budget
        for si in range(nstreams):
            total = min(left, rng.choice([0, 1, 100, 1200, 5000, 20000, 40000]))
            left -= total
            uni = rng.random() < 0.35
            reply = None
            if not uni:
                mode = rng.choice(["echo_stream", "after_eof", "after_eof"])
                rl = total if mode == "echo_stream" else min(left, rng.choice([0, 1, 700, 5000, 20000]))
                if mode != "echo_stream":
                    left -= rl
                reply = {"mode": mode, "n": rl, "pause": rng.choice([0, 0, 0.01, 0.1])}
            c["ops"].append(
                {
                    "op": "stream",
                    "at": 0.0 if si == 0 else round(rng.choice([0.0, 0.0, 0.05, 0.4, 1.2]) + rng.random() * 0.02, 4),
                    "uni": uni,
                    "chunks": _chunks(rng, total),
                    "eof_delay": rng.choice([0, 0, 0.001, 0.05, 0.5]),
                    "read_size": rng.choice([-1, 1000, 65536, 7]) if total <= 5000 else rng.choice([-1, 4096, 65536]),
                    "reply": reply,
                }
            )
            r3 = random.Random("c19-finish/%s/%s/%s" % (seed, ci, si))
            # how the writing side says it is done: write_eof(), or close() — which for this adapter is the same half-close:
            # the peer's bytes must still arrive on the reader the application holds
            c["ops"][-1]["finish"] = r3.choice(["write_eof", "write_eof", "close"])
            # a server handler that only reads: it drops its reference to the writer at once (StreamWriter.__del__ closes it)
            c["ops"][-1]["drop_writer"] = r3.random() < 0.4
            if not uni and c["ops"][-1]["drop_writer"] and r3.random() < 0.5:
                c["ops"][-1]["reply"] = None
        for _ in range(rng.choice([0, 1, 1, 2, 3])):
            c["ops"].append({"op": "ping", "at": round(rng.choice([0.0, 0.05, 0.3, 1.0, 2.0]) + rng.random() * 0.05, 4), "n": rng.choice([1, 1, 2, 4])})
        for _ in range(rng.choice([0, 0, 1, 2])):
            c["ops"].append({"op": "change_cid", "at": round(rng.random() * 2.0, 4)})
        r2 = random.Random("c19-abandon/%s/%s" % (seed, len(spec["clients"])))
        for _ in range(r2.choice([0, 0, 1, 2])):
            # pings the application abandons after a short timeout (before, around and after the close instant)
            at = r2.choice([r2.random() * 2.0, max(0.0, c["close_at"] + r2.choice([-0.3, -0.05, -0.001, 0.0, 0.02]))])
            c["ops"].append({"op": "ping", "at": round(at, 4), "n": r2.choice([1, 2]), "timeout": r2.choice([0.0, 0.001, 0.01, 0.05, 0.2])})
            if r2.random() < 0.5:
                c["server_ops"].append({"op": "ping", "at": round(at, 4), "n": 1, "timeout": r2.choice([0.0, 0.001, 0.05])})
        if kind != "forged_error":
            # at most one key update per side: RFC 9001 6.1 forbids a second update before the first is acknowledged and
            # QuicConnection.request_key_update() does not enforce it (sans-IO core, not the adapter)
            for _ in range(rng.choice([0, 0, 1, 1])):
                c["ops"].append({"op": "key_update", "at": round(rng.random() * 2.0, 4)})
        if rng.random() < 0.5:
            c["bg_ops"].append({"op": "wait_closed", "at": round(rng.random() * 1.5, 4)})
        if not c["wait_connected"]:
            c["bg_ops"].append({"op": "wait_connected", "at": round(rng.choice([0.0, 0.0, 0.02, 0.5, 1.5]), 4)})
        # operations around the close instant (pings right around close, waiters started while closing)
        around = [-0.02, -0.001, 0.0, 0.0, 0.001, 0.02, 0.2, 1.0]
        if kind in ("client_close", "client_error_close", "server_close", "idle", "forged_error"):
            for _ in range(rng.choice([0, 1, 2, 3])):
                t = max(0.0, c["close_at"] + rng.choice(around))
                c["ops"].append({"op": "ping", "at": round(t, 4), "n": rng.choice([1, 2])})
        for _ in range(rng.choice([0, 0, 1, 2, 3])):
            c["exit_ops"].append({"op": rng.choice(["ping", "ping", "wait_closed"]), "delay": rng.choice([0.0, 0.0, 0.001, 0.05, 0.4, 1.5])})
        if rng.random() < 0.22:
            for _ in range(rng.choice([1, 2])):
                c["post_ops"].append({"op": rng.choice(["ping", "wait_connected", "wait_closed"]), "delay": rng.choice([0.0, 0.01, 1.0])})
        # server-side application for this client's connection
        so = c["server_ops"]
        for _ in range(rng.choice([0, 1, 1, 2])):
            so.append({"op": "ping", "at": round(rng.choice([0.0, 0.1, 0.5, 1.5]) + rng.random() * 0.05, 4), "n": rng.choice([1, 2])})
        if rng.random() < 0.4:
            pn = min(left, rng.choice([0, 50, 3000, 15000]))
            left -= pn
            so.append({"op": "push", "at": round(rng.random() * 1.0, 4), "chunks": _chunks(rng, pn), "eof_delay": rng.choice([0, 0.01, 0.3]), "read_size": rng.choice([-1, 500, 65536])})
        if rng.random() < 0.3:
            so.append({"op": "change_cid", "at": round(rng.random() * 2.0, 4)})
        if rng.random() < 0.3 and kind != "forged_error":
            so.append({"op": "key_update", "at": round(rng.random() * 2.0, 4)})
        if kind == "server_close":
            for _ in range(rng.choice([0, 1, 2])):
                so.append({"op": "ping", "at": round(max(0.0, c["close_at"] + rng.choice(around)), 4), "n": 1})
        spec["clients"].append(c)
    return spec


def spec_signature(spec):
    kinds = sorted(c["close_kind"] for c in spec["clients"])
    if spec["server_close_all_at"] is not None:
        kinds.append("server_close_all")
    ops = {}
    for c in spec["clients"]:
        for grp in ("ops", "bg_ops", "exit_ops", "post_ops", "server_ops"):
            for o in c[grp]:
                k = grp[0] + ":" + o["op"] + (":uni" if o.get("uni") else "")
                ops[k] = ops.get(k, 0) + 1
    return (spec["nclients"], tuple(kinds), spec["fate"]["class"], spec["retry"], tuple(sorted(ops.items())))


# ====================================================================== ledgers


class StreamRec:
    __slots__ = ("label", "sid", "direction", "key", "written", "eof", "read_len", "eof_seen", "eof_by_term", "reader_started",
                 "poisoned", "done_evt", "writer_conn", "reader_conn", "eof_at", "eof_seen_at")

    def __init__(self, seed, label, sid, direction):
        self.label, self.sid, self.direction = label, sid, direction
        self.key = "%s/%s/%d/%s" % (seed, label, sid, direction)
        self.written = 0
        self.eof = False
        self.read_len = 0
        self.eof_seen = False
        self.eof_by_term = False
        self.reader_started = False
        self.poisoned = False
        self.done_evt = None
        self.writer_conn = None
        self.reader_conn = None
        self.eof_at = None
        self.eof_seen_at = None

    def brief(self):
        return {"stream": "%s/%d/%s" % (self.label, self.sid, self.direction), "written": self.written, "eof_written": self.eof,
                "read": self.read_len, "eof_seen": self.eof_seen, "eof_by_termination": self.eof_by_term,
                "write_eof_at": self.eof_at, "reader_eof_at": self.eof_seen_at}


class Waiter:
    __slots__ = ("kind", "label", "side", "t0", "t1", "state", "after_term", "after_close", "exc", "note")

    def __init__(self, kind, label, side, t0, after_term, after_close):
        self.kind, self.label, self.side, self.t0 = kind, label, side, t0
        self.t1 = None
        self.state = "open"
        self.after_term = after_term
        self.after_close = after_close
        self.exc = None
        self.note = None

    def brief(self):
        return {"kind": self.kind, "conn": self.label, "side": self.side, "started": round(self.t0, 6), "ended": None if self.t1 is None else round(self.t1, 6),
                "state": self.state, "started_after_termination": self.after_term, "started_after_close_call": self.after_close}


class PInfo:
    """harness-side record for one QuicConnectionProtocol instance"""

    def __init__(self, role, label, index):
        self.role, self.label, self.index = role, label, index
        self.terminated = False
        self.term = None
        self.term_at = None
        self.handshake = False
        self.close_called = False
        self.closed_at = None
        self.created_at = 0.0
        self.issued = []
        self.retired = set()
        self.first_dcid = None
        self.host_cid0 = None
        self.rx = 0
        self.rx_last = None
        self.trace = []
        self.addr = None
        self.wc_pending = False
        self.peer_addr = None
        self.created_by_tag = None
        self.key_updated = False


_MON = None


def mon_class():
    global _MON
    if _MON is not None:
        return _MON
    from aioquic.asyncio import QuicConnectionProtocol

    class MonProtocol(QuicConnectionProtocol):
        """Observation-only subclass (the documented create_protocol extension point)."""

        def __init__(self, quic, stream_handler=None, *, scen=None, info=None):
            super().__init__(quic, stream_handler=stream_handler)
            self.vf = info
            self.vf_scen = scen

        def connection_made(self, transport):
            super().connection_made(transport)
            self.vf_scen.on_connection_made(self, transport)

        def datagram_received(self, data, addr):
            v = self.vf
            v.rx += 1
            v.rx_last = data
            if v.peer_addr is None:
                v.peer_addr = addr
            if len(v.trace) < 4000:
                v.trace.append("D")
            super().datagram_received(data, addr)

        def close(self, *args, **kwargs):
            v = self.vf
            if not v.close_called and not v.terminated:
                v.close_called = True
                v.closed_at = self.vf_scen.loop.time()
                v.trace.append("C")
            super().close(*args, **kwargs)

        def quic_event_received(self, event):
            self.vf_scen.on_event(self, event)
            super().quic_event_received(event)

    _MON = MonProtocol
    return _MON


# ====================================================================== wire helpers (independent of aioquic)

LONG_TYPES = {V1: {0: "initial", 1: "0rtt", 2: "handshake", 3: "retry"}, V2: {1: "initial", 2: "0rtt", 3: "handshake", 0: "retry"}}


def parse_long(data):
    """-> dict(version, ptype, dcid, scid, token, rest) or None"""
    from ..frames import ParseError, Reader

    if len(data) < 7 or not data[0] & 0x80:
        return None
    try:
        r = Reader(data, 0)
        first = r.u8()
        version = r.uint(4)
        dcid = r.take(r.u8())
        scid = r.take(r.u8())
        ptype = LONG_TYPES.get(version, {}).get((first >> 4) & 3)
        token = b""
        if ptype == "initial":
            token = r.take(r.varint())
        elif ptype == "retry":
            rest = data[r.p:]
            token = rest[:-16] if len(rest) >= 16 else b""
        return {"version": version, "ptype": ptype, "dcid": dcid, "scid": scid, "token": token}
    except ParseError:
        return None


def dcid_of(data, cid_len=8):
    if not data:
        return None
    if data[0] & 0x80:
        p = parse_long(data)
        return p["dcid"] if p else None
    if len(data) >= 1 + cid_len:
        return bytes(data[1:1 + cid_len])
    return None


def build_initial(version, dcid, scid, token, urnd):
    """A well-formed, correctly protected client Initial of 1200 bytes carrying `token`."""
    from .. import frames as F
    from .. import refcrypto as rc

    ckeys, _ = rc.initial_keys(version, dcid)
    pn_len = 2
    type_code = {V1: 0, V2: 1}[version]
    first = 0xC0 | (type_code << 4) | (pn_len - 1)
    hdr0 = bytes([first]) + version.to_bytes(4, "big") + bytes([len(dcid)]) + dcid + bytes([len(scid)]) + scid
    hdr0 += F.enc_varint(len(token)) + token
    payload_len = 1200 - len(hdr0) - 2 - pn_len - 16
    payload = F.f_crypto(0, urnd(60))
    payload += bytes(payload_len - len(payload))
    hdr = hdr0 + F.enc_varint(pn_len + len(payload) + 16, 2)
    return rc.protect(ckeys, hdr, 0, pn_len, payload)


def build_short(keys, dcid, pn, payload):
    from .. import refcrypto as rc

    pn_len = 4
    first = 0x40 | (pn_len - 1)
    if len(payload) < 8:
        payload = payload + bytes(8 - len(payload))
    return rc.protect(keys, bytes([first]) + dcid, pn, pn_len, payload)


def client_1rtt_keys(keylog_text, version):
    from .. import refcrypto as rc

    sec = None
    for line in keylog_text.splitlines():
        parts = line.split()
        if len(parts) == 3 and parts[0] == "CLIENT_TRAFFIC_SECRET_0":
            sec = bytes.fromhex(parts[2])
    if sec is None:
        return None
    suite = "AES_128_GCM_SHA256" if len(sec) == 32 else "AES_256_GCM_SHA384"
    return rc.Keys(suite, sec, version)


# ====================================================================== the scenario


class HarnessError(Exception):
    pass


class Scenario:
    def __init__(self, spec, res: Result, case):
        self.spec = spec
        self.seed = spec["seed"]
        self.res = res
        self.case = case
        self.rng = random.Random("c19-run/%d" % self.seed)
        self.streams = {}  # (label, sid, direction) -> StreamRec
        self.waiters = []
        self.protos = []  # every MonProtocol created (clients and server side)
        self.server_protos = []
        self.client_protos = {}
        self.addr2label = {}
        self.handler_exc = []  # contexts from loop exception handler
        self.harness_errors = []
        self.tasks = []
        self.server = None
        self.server_closed = False
        self.issued_tokens = {}  # (ip, port) -> set(tokens sent in Retry packets to that address)
        self.retries_seen = []
        self.injected = 0
        self.inject_done = set()
        self.created_during_delivery = 0
        self.violated = False
        self.finished_eval = False
        self.keylogs = {}
        self.n_routing = 0
        self.n_routed = 0
        self.obs = {}
        self.inconclusive = None
        self.other_token_handler = None
        self.server_close_time = None

    # ------------------------------------------------------------------ plumbing
    def count(self, name, n=1):
        self.res.count(name, n)

    def violation(self, signature, what, witness=None):
        self.violated = True
        w = {"spec_summary": {"nclients": self.spec["nclients"], "retry": self.spec["retry"], "fate": self.spec["fate"],
                              "close_kinds": [c["close_kind"] for c in self.spec["clients"]], "server_close_all_at": self.spec["server_close_all_at"]},
             "t": round(self.loop.time(), 6)}
        if witness:
            w.update(witness)
        self.res.violation(signature, what, self.case, w)

    def spawn(self, coro):
        t = asyncio.ensure_future(coro)
        self.tasks.append(t)
        t.add_done_callback(self._task_done)
        return t

    def _task_done(self, t):
        if t.cancelled():
            return
        exc = t.exception()
        if exc is not None and not self.finished_eval:
            self.harness_errors.append(exc)

    def _exception_handler(self, loop, context):
        if self.finished_eval:
            return
        self.handler_exc.append(context)

    def _unraisable(self, u):
        # e.g. asyncio.StreamWriter.__del__ -> QuicStreamAdapter.close() -> write_eof() on the (unusable) writer of a
        # peer-initiated unidirectional stream raises ValueError at garbage collection: not a loop callback, observation only
        name = type(u.exc_value).__name__ if u.exc_value is not None else "?"
        where = getattr(u.object, "__qualname__", None) or type(u.object).__name__
        self.res.count("obs_unraisable_%s_in_%s" % (name, where))

    # ------------------------------------------------------------------ protocol factories / hooks
    def client_factory(self, ci):
        Mon = mon_class()

        def factory(quic, stream_handler=None):
            info = PInfo("client", "c%d" % ci, ci)
            info.created_at = self.loop.time()
            p = Mon(quic, stream_handler=stream_handler, scen=self, info=info)
            self.protos.append(p)
            self.client_protos[ci] = p
            return p

        return factory

    def server_factory(self, quic, stream_handler=None):
        Mon = mon_class()
        d = self.net.current
        if d is None:
            raise HarnessError("server created a protocol outside of a datagram delivery")
        key = (d.src_addr[0], d.src_addr[1])
        label = self.addr2label.get(key)
        if label is None or d.tag is not None:
            label = "inj:%s" % (d.tag or "unknown-address")
        info = PInfo("server", label, len(self.server_protos))
        info.created_at = self.loop.time()
        info.created_by_tag = d.tag
        hdr = parse_long(d.data)
        info.first_dcid = hdr["dcid"] if hdr else None
        info.host_cid0 = bytes(quic.host_cid)
        p = Mon(quic, stream_handler=stream_handler, scen=self, info=info)
        p.vf.addr = None
        self.protos.append(p)
        self.server_protos.append(p)
        self.created_during_delivery += 1
        # ---- oracle (4): state creation under address validation
        if self.spec["retry"]:
            self.count("retry_creations_checked")
            token = hdr["token"] if hdr else b""
            ok = bool(token) and token in self.issued_tokens.get(key, ())
            if ok:
                self.count("retry_created_with_own_token_for_address")
            else:
                why = d.tag or ("no-token" if not token else "token-not-issued-to-this-address")
                self.violation(
                    "retry:state-created:" + why,
                    "QuicServer(retry=True) created connection state for an Initial from %r whose token (%d bytes) was not sent by this server to that address"
                    % (key, len(token)),
                    {"token_len": len(token), "injected": d.tag, "issued_to": [list(k) for k, v in self.issued_tokens.items() if token in v]},
                )
        # the per-connection server application
        nth = sum(1 for q in self.server_protos if q.vf.label == label)
        self.spawn(self.server_conn_app(p, first=(nth == 1)))
        return p

    def on_connection_made(self, proto, transport):
        v = proto.vf
        if v.role == "client":
            v.addr = transport.addr
            self.addr2label[(transport.addr[0], transport.addr[1])] = v.label
            self.net.set_name(transport, v.label)

    def on_event(self, proto, event):
        v = proto.vf
        name = type(event).__name__
        if name == "ConnectionIdIssued":
            v.issued.append(bytes(event.connection_id))
        elif name == "ConnectionIdRetired":
            v.retired.add(bytes(event.connection_id))
        elif name == "HandshakeCompleted":
            v.handshake = True
        elif name == "ConnectionTerminated":
            if v.terminated:
                self.count("obs_terminated_event_twice")
            v.terminated = True
            v.term_at = self.loop.time()
            v.term = (event.error_code, event.frame_type, event.reason_phrase)
            v.trace.append("X")
            self.count("terminations_%s_code_0x%x" % (v.role, event.error_code))
        elif name == "StreamReset":
            self.count("obs_stream_reset_events")

    def trace_hook(self, kind, owner):
        v = getattr(owner, "vf", None)
        if v is not None and len(v.trace) < 4000:
            v.trace.append(kind)

    # ------------------------------------------------------------------ waiter tracking
    async def track(self, kind, proto, fn, label=None, side=None):
        v = proto.vf if proto is not None else None
        w = Waiter(kind, label or (v.label if v else "?"), side or (v.role if v else "client"), self.loop.time(),
                   bool(v and v.terminated), bool(v and v.close_called))
        self.waiters.append(w)
        try:
            r = await fn()
        except ConnectionError:
            w.state = "ConnectionError"
            r = None
        except asyncio.CancelledError:
            raise
        except Exception as exc:
            w.state = "exc"
            w.exc = exc
            r = None
        else:
            w.state = "ok"
        w.t1 = self.loop.time()
        return w, r

    # ------------------------------------------------------------------ streams
    def srec(self, label, sid, direction):
        k = (label, sid, direction)
        r = self.streams.get(k)
        if r is None:
            r = self.streams[k] = StreamRec(self.seed, label, sid, direction)
            r.done_evt = asyncio.Event()
        return r

    async def write_stream(self, proto, writer, rec, chunks, eof_delay, finish="write_eof"):
        rec.writer_conn = proto
        for n, method, pause in chunks:
            data = prf_bytes(rec.key, n, rec.written)
            rec.written += n
            if method == "writelines" and n >= 2:
                a = self.rng.randrange(0, n)
                writer.writelines([data[:a], data[a:]])
            else:
                writer.write(data)
            if method == "drain":
                await writer.drain()
            if pause:
                await asyncio.sleep(pause)
        if eof_delay:
            await asyncio.sleep(eof_delay)
        rec.eof = True
        rec.eof_at = self.loop.time()
        if finish == "close":
            writer.close()
            self.count("streams_finished_with_close")
        else:
            writer.write_eof()
        self.count("streams_written")

    async def read_stream(self, proto, reader, rec, read_size):
        rec.reader_conn = proto
        rec.reader_started = True
        v = proto.vf
        while True:
            chunk = await reader.read(read_size)
            if not chunk:
                break
            if rec.poisoned:
                continue
            n = len(chunk)
            exp = prf_bytes(rec.key, n, rec.read_len)
            self.count("bytes_compared", n)
            if chunk != exp:
                self.violation(
                    "stream:wrong-or-reordered-bytes",
                    "reader of stream %s/%d/%s returned %d bytes at offset %d that are not the bytes written at that offset"
                    % (rec.label, rec.sid, rec.direction, n, rec.read_len),
                    {"stream": rec.brief(), "got": chunk[:32].hex(), "expected": exp[:32].hex(), "where_in_other_streams": self._locate(chunk[:16])},
                )
                rec.poisoned = True
                continue
            rec.read_len += n
            if rec.read_len > rec.written:
                self.violation("stream:bytes-beyond-written", "reader returned %d bytes, writer wrote %d" % (rec.read_len, rec.written), {"stream": rec.brief()})
                rec.poisoned = True
        rec.eof_seen = True
        rec.eof_seen_at = self.loop.time()
        rec.eof_by_term = v.terminated
        self.count("stream_eofs_seen")
        if not rec.poisoned:
            if not v.terminated:
                # EOF produced by the peer's FIN: everything must have arrived and the writer must have finished
                if not rec.eof or rec.read_len != rec.written:
                    self.violation(
                        "stream:eof-before-all-bytes",
                        "reader of %s/%d/%s hit EOF on a live connection after %d bytes; writer wrote %d, write_eof called: %s"
                        % (rec.label, rec.sid, rec.direction, rec.read_len, rec.written, rec.eof),
                        {"stream": rec.brief()},
                    )
                else:
                    self.count("streams_complete_by_fin")
            else:
                self.count("streams_cut_by_termination" if rec.read_len < rec.written or not rec.eof else "streams_complete_at_termination")
            more = await reader.read(1)
            if more:
                self.violation("stream:data-after-eof", "reader returned data after EOF", {"stream": rec.brief()})
        self.count("streams_checked")
        rec.done_evt.set()

    def _locate(self, frag):
        out = []
        if not frag:
            return out
        for r in self.streams.values():
            blob = prf_bytes(r.key, r.written, 0)
            i = blob.find(frag)
            if i >= 0:
                out.append("%s/%d/%s@%d" % (r.label, r.sid, r.direction, i))
        return out[:4]

    # ------------------------------------------------------------------ server side application
    def server_stream_handler(self, reader, writer):
        proto = writer.transport.protocol
        sid = writer.get_extra_info("stream_id")
        self.spawn(self.server_stream(proto, reader, writer, sid))

    def _client_stream_op(self, label, sid):
        if not label.startswith("c"):
            return None
        ci = int(label[1:])
        return self._stream_ops.get((ci, sid))

    async def server_stream(self, proto, reader, writer, sid):
        label = proto.vf.label
        rec_in = self.srec(label, sid, "c2s")
        op = self._client_stream_op(label, sid)
        uni = bool(sid & 2)
        read_size = op["read_size"] if op else -1
        if uni or op is None or op.get("reply") is None:
            if not uni and op is not None and op.get("drop_writer"):
                import gc

                rec_out = self.srec(label, sid, "s2c")
                rec_out.writer_conn = proto
                rec_out.eof = True
                rec_out.eof_at = self.loop.time()
                writer = None
                gc.collect()
                self.count("server_handlers_that_dropped_the_writer")
            await self.read_stream(proto, reader, rec_in, read_size)
            return
        reply = op["reply"]
        rec_out = self.srec(label, sid, "s2c")
        rec_out.writer_conn = proto
        if reply["mode"] == "echo_stream":
            # reply while reading: every chunk received is answered by as many self-identifying bytes
            rec_in.reader_conn = proto
            rec_in.reader_started = True
            v = proto.vf
            nreads = 0
            while True:
                chunk = await reader.read(read_size if read_size > 0 else 65536)
                if not chunk:
                    break
                n = len(chunk)
                exp = prf_bytes(rec_in.key, n, rec_in.read_len)
                self.count("bytes_compared", n)
                if chunk != exp and not rec_in.poisoned:
                    self.violation("stream:wrong-or-reordered-bytes", "server reader of %s/%d returned wrong bytes at offset %d" % (label, sid, rec_in.read_len),
                                   {"stream": rec_in.brief(), "got": chunk[:32].hex(), "expected": exp[:32].hex(), "where_in_other_streams": self._locate(chunk[:16])})
                    rec_in.poisoned = True
                rec_in.read_len += n
                if rec_in.read_len > rec_in.written and not rec_in.poisoned:
                    self.violation("stream:bytes-beyond-written", "reader returned %d bytes, writer wrote %d" % (rec_in.read_len, rec_in.written), {"stream": rec_in.brief()})
                    rec_in.poisoned = True
                data = prf_bytes(rec_out.key, n, rec_out.written)
                rec_out.written += n
                writer.write(data)
                nreads += 1
                if reply["pause"] and nreads <= 3:  # (a consumer that stays slow would make delivery times the harness's doing)
                    await asyncio.sleep(reply["pause"])
            rec_in.eof_seen = True
            rec_in.eof_seen_at = self.loop.time()
            rec_in.eof_by_term = v.terminated
            self.count("stream_eofs_seen")
            if not rec_in.poisoned:
                if not v.terminated:
                    if not rec_in.eof or rec_in.read_len != rec_in.written:
                        self.violation("stream:eof-before-all-bytes", "server reader of %s/%d hit EOF on a live connection after %d of %d bytes (write_eof called: %s)"
                                       % (label, sid, rec_in.read_len, rec_in.written, rec_in.eof), {"stream": rec_in.brief()})
                    else:
                        self.count("streams_complete_by_fin")
                else:
                    self.count("streams_cut_by_termination" if rec_in.read_len < rec_in.written or not rec_in.eof else "streams_complete_at_termination")
            self.count("streams_checked")
            rec_in.done_evt.set()
            rec_out.eof = True
            rec_out.eof_at = self.loop.time()
            writer.write_eof()
            self.count("streams_written")
        else:
            await self.read_stream(proto, reader, rec_in, read_size)
            await self.write_stream(proto, writer, rec_out, _chunks(random.Random("reply/%s" % rec_out.key), reply["n"]), reply["pause"])

    async def server_conn_app(self, proto, first):
        v = proto.vf
        label = v.label
        # the server-side "connect waiter"
        v.wc_pending = True
        w, _ = await self.track("wait_connected", proto, proto.wait_connected)
        v.wc_pending = False
        self.spawn(self.track("wait_closed", proto, proto.wait_closed))
        if not (first and label.startswith("c")) or w.state != "ok":
            return
        c = self.spec["clients"][int(label[1:])]
        t0 = self.loop.time()
        for op in c["server_ops"]:
            self.spawn(self.server_op(proto, op, t0))
        if c["close_kind"] == "server_close":
            await asyncio.sleep(c["close_at"])
            self.count("closes_server_side")
            proto.close(error_code=self.rng.choice([0, 0, 0x17]), reason_phrase=self.rng.choice(["", "bye"]))

    async def server_op(self, proto, op, t0):
        await self._sleep_until(t0 + op["at"])
        await self.conn_op(proto, op)

    async def _sleep_until(self, t):
        d = t - self.loop.time()
        if d > 0:
            await asyncio.sleep(d)

    # ------------------------------------------------------------------ operations usable on either side
    async def conn_op(self, proto, op):
        v = proto.vf
        kind = op["op"]
        if kind == "ping":
            if op.get("timeout") is not None:
                # an application that gives up on a ping (asyncio.wait_for cancels the awaiting coroutine): the adapter's
                # bookkeeping for that ping must survive the cancellation (acknowledgement or termination arriving later)
                async def abandoned(_t=op["timeout"]):
                    try:
                        await asyncio.wait_for(proto.ping(), _t)
                    except asyncio.TimeoutError:
                        self.count("pings_abandoned_by_timeout")

                ws = [self.spawn(self.track("ping", proto, abandoned)) for _ in range(op["n"])]
            else:
                ws = [self.spawn(self.track("ping", proto, proto.ping)) for _ in range(op["n"])]
            await asyncio.wait(ws)
        elif kind == "change_cid":
            proto.change_connection_id()
            self.count("ops_change_connection_id")
        elif kind == "key_update":
            if v.handshake and not v.terminated and not v.close_called:
                proto.request_key_update()
                v.key_updated = True
                self.count("ops_request_key_update")
            else:
                self.count("ops_key_update_skipped_precondition")
        elif kind == "push":
            if v.terminated:
                return
            reader, writer = await proto.create_stream(is_unidirectional=True)
            writer.write(b"")
            sid = writer.get_extra_info("stream_id")
            rec = self.srec(v.label, sid, "s2c")
            self._push_ops[(v.label, sid)] = op
            await self.write_stream(proto, writer, rec, op["chunks"], op["eof_delay"])
        elif kind == "wait_closed":
            await self.track("wait_closed", proto, proto.wait_closed)
        elif kind == "wait_connected":
            if v.wc_pending:
                self.count("ops_wait_connected_skipped_already_pending")
                return
            v.wc_pending = True
            hs_before = v.handshake
            w, _ = await self.track("wait_connected", proto, proto.wait_connected)
            v.wc_pending = False
            if hs_before and not w.after_term and w.state == "ConnectionError":
                self.count("obs_wait_connected_after_handshake_finished_only_at_termination_with_ConnectionError")
        else:
            raise HarnessError("unknown op %r" % kind)

    # ------------------------------------------------------------------ client side application
    def client_stream_handler_for(self, ci):
        def handler(reader, writer):
            proto = writer.transport.protocol
            sid = writer.get_extra_info("stream_id")
            label = proto.vf.label
            rec = self.srec(label, sid, "s2c")
            op = self._push_ops.get((label, sid))
            self.spawn(self.read_stream(proto, reader, rec, op["read_size"] if op else -1))

        return handler

    async def client_stream_op(self, ci, proto, op):
        v = proto.vf
        if v.terminated:
            self.count("ops_stream_skipped_terminated")
            return
        reader, writer = await proto.create_stream(is_unidirectional=op["uni"])
        sid = writer.get_extra_info("stream_id")
        if (v.label, sid, "c2s") in self.streams:
            self.violation(
                "stream:create_stream-returned-id-already-in-use",
                "two create_stream() calls on one connection returned writers for the same stream id %d (second call before the first writer wrote)" % sid,
                {"stream_id": sid},
            )
            # everything about this stream id is now shared by two writers/readers: exclude it from the other oracles
            self.srec(v.label, sid, "c2s").poisoned = True
            self.srec(v.label, sid, "s2c").poisoned = True
            return
        rec = self.srec(v.label, sid, "c2s")
        self._stream_ops[(ci, sid)] = op
        lazy = op.get("lazy_first_write")
        if lazy:
            await asyncio.sleep(lazy)
            if rec.poisoned:
                return
        else:
            # first write directly after create_stream() (this is what makes the stream id taken)
            writer.write(b"")
        wt = self.spawn(self.write_stream(proto, writer, rec, op["chunks"], op["eof_delay"], op.get("finish", "write_eof")))
        if not op["uni"]:
            rec_back = self.srec(v.label, sid, "s2c")
            await self.read_stream(proto, reader, rec_back, op["read_size"])
        await asyncio.wait([wt])

    async def client_fg(self, ci, proto, op, t0):
        await self._sleep_until(t0 + op["at"])
        if op["op"] == "stream":
            await self.client_stream_op(ci, proto, op)
        else:
            await self.conn_op(proto, op)

    async def client_main(self, ci):
        from aioquic.asyncio import connect

        c = self.spec["clients"][ci]
        label = "c%d" % ci
        if c["start_at"]:
            await asyncio.sleep(c["start_at"])
        cfg = self.client_config(ci)
        cm = connect(HOST, PORT, configuration=cfg, create_protocol=self.client_factory(ci),
                     stream_handler=self.client_stream_handler_for(ci), wait_connected=c["wait_connected"])
        w, proto = await self.track("connect_enter", None, cm.__aenter__, label=label, side="client")
        if w.state != "ok":
            if w.state == "exc":
                w.note = "connect() raised"
            self.count("clients_connect_failed")
            proto = self.client_protos.get(ci)
            if proto is not None:
                await self.post_ops(ci, proto, c)
            return
        v = proto.vf
        if c["wait_connected"]:
            v.handshake = True
        t0 = self.loop.time()
        ops = list(c["ops"])
        if c["lazy_pair"]:
            ops.append({"op": "stream", "at": 0.3, "uni": False, "chunks": [[10, "write", 0]], "eof_delay": 0, "read_size": -1,
                        "reply": {"mode": "after_eof", "n": 5, "pause": 0}, "lazy_first_write": 0.01})
            ops.append({"op": "stream", "at": 0.305, "uni": False, "chunks": [[20, "write", 0]], "eof_delay": 0, "read_size": -1,
                        "reply": {"mode": "after_eof", "n": 5, "pause": 0}})
            self.count("probe_lazy_first_write_pairs")
        fg = [self.spawn(self.client_fg(ci, proto, op, t0)) for op in ops]
        for op in c["bg_ops"]:
            self.spawn(self.client_fg(ci, proto, op, t0))
        kind = c["close_kind"]
        closer = None
        if kind in ("client_close", "client_error_close"):
            closer = self.spawn(self.client_closer(proto, c, t0))
        elif kind == "forged_error":
            closer = self.spawn(self.forge_error(ci, proto, c, t0))
        if fg:
            await asyncio.wait(fg, timeout=FG_BOUND)
        if closer is not None:
            await asyncio.wait([closer], timeout=FG_BOUND)
        if kind == "ctx_exit" and self.spec["server_close_all_at"] is None:
            # graceful: leave only when everything written on this connection reached the peer's reader
            await self.await_delivery(label, proto)
        elif not v.terminated and kind != "ctx_exit":
            # the scheduled close event (server close / idle / provoked error) should end the connection
            await self._wait_terminated(proto, 40.0)
        for op in c["exit_ops"]:
            self.spawn(self.exit_op(proto, op))
        self.count("closes_%s" % kind)
        await self.track("connect_exit", proto, lambda: cm.__aexit__(None, None, None))
        await self.post_ops(ci, proto, c)

    async def post_ops(self, ci, proto, c):
        for op in c["post_ops"]:
            self.spawn(self.exit_op(proto, op))

    async def exit_op(self, proto, op):
        if op["delay"]:
            await asyncio.sleep(op["delay"])
        await self.conn_op(proto, {"op": op["op"], "n": 1})

    async def _wait_terminated(self, proto, bound):
        end = self.loop.time() + bound
        while not proto.vf.terminated and self.loop.time() < end:
            await asyncio.sleep(0.25)

    async def await_delivery(self, label, proto):
        end = max(self.loop.time(), self.spec["fate"]["adv_until"]) + DELIVERY_BOUND
        while True:
            recs = [r for r in self.streams.values() if r.label == label and r.eof and not r.eof_seen and not r.poisoned]
            if not recs or proto.vf.terminated:
                return
            left = end - self.loop.time()
            if left <= 0:
                break
            try:
                await asyncio.wait_for(recs[0].done_evt.wait(), min(left, 5.0))
            except asyncio.TimeoutError:
                pass

    async def client_closer(self, proto, c, t0):
        await self._sleep_until(t0 + c["close_at"])
        if c["close_kind"] == "client_error_close":
            proto.close(error_code=0x31, reason_phrase="client says no")
        else:
            proto.close()
        await self.track("wait_closed", proto, proto.wait_closed)

    async def forge_error(self, ci, proto, c, t0):
        """make the server see a protocol error: a correctly protected 1-RTT packet 'from the client' carrying a STREAM frame
        on a server-initiated unidirectional stream (STREAM_STATE_ERROR)."""
        from .. import frames as F

        await self._sleep_until(t0 + c["close_at"])
        for attempt in range(40):
            if proto.vf.terminated:
                return
            sp = [p for p in self.server_protos if p.vf.label == "c%d" % ci and not p.vf.terminated]
            keys = client_1rtt_keys(self.keylogs[ci].getvalue(), V2 if self.spec["version"] == "v2" else V1)
            if sp and keys is not None and sp[0].vf.handshake:
                v = sp[0].vf
                live = [cid for cid in v.issued if cid not in v.retired] or [v.host_cid0]
                pkt = build_short(keys, live[0], 100000 + attempt, F.f_stream(3, 0, b"forged", fin=False) + bytes(20))
                self.net.inject(proto.vf.addr, self.server_addr, pkt, 0.0, "forged-1rtt-stream-frame")
                self.count("forged_error_packets_injected")
                return
            await asyncio.sleep(0.1)
        self.count("forged_error_not_possible")

    # ------------------------------------------------------------------ configuration
    def client_config(self, ci):
        from ..simnet import make_configs

        c = self.spec["clients"][ci]
        opts = {"idle_client": c["idle"]}
        if self.spec["version"] == "v2":
            opts["versions_client"] = ["v2", "v1"]
        if c["close_kind"] == "forged_error":
            opts["cipher_suites_client"] = ["AES_128_GCM_SHA256"]
        ccfg, _ = make_configs(opts)
        self.keylogs[ci] = io.StringIO()
        ccfg.secrets_log_file = self.keylogs[ci]
        return ccfg

    def server_config(self):
        from ..simnet import make_configs

        _, scfg = make_configs({"idle_server": self.spec["server_idle"]})
        return scfg

    # ------------------------------------------------------------------ network hooks: retry + routing oracles
    def on_send(self, name, data, addr):
        if name == "server" and self.spec["retry"] and data and data[0] & 0x80:
            hdr = parse_long(data)
            if hdr and hdr["ptype"] == "retry":
                key = (addr[0], addr[1])
                self.issued_tokens.setdefault(key, set()).add(hdr["token"])
                self.count("retry_packets_seen")
                self.retries_seen.append((key, hdr))
                self._schedule_injections(key, addr, hdr)

    def _urnd(self, n):
        return bytes(self.rng.getrandbits(8) for _ in range(n))

    def _schedule_injections(self, key, addr, hdr):
        """after the server has issued a token to `addr`, present Initials with tokens that must not be accepted"""
        version = hdr["version"]
        token = hdr["token"]
        for kind in self.spec["inject"]:
            if kind in self.inject_done or self.injected >= 8:
                continue
            self.inject_done.add(kind)
            self.injected += 1
            other = ("fd00::bad:%x" % self.injected, 50000 + self.injected, 0, 0)
            src = other
            if kind == "forged":
                tok = self._urnd(len(token))
            elif kind == "forged-short":
                tok = self._urnd(self.rng.choice([1, 7, 16, 255, 257]))
            elif kind == "replayed-other-address":
                tok = token
            elif kind == "replayed-same-host-other-port":
                # a token is issued to an address = (host, port): the same host on another port did not prove anything
                tok = token
                src = (addr[0], 1024 + (addr[1] + 7919) % 60000) + tuple(addr[2:])
            elif kind == "other-instance":
                from aioquic.quic.retry import QuicRetryTokenHandler

                if self.other_token_handler is None:
                    self.other_token_handler = QuicRetryTokenHandler()
                tok = self.other_token_handler.create_token(other, self._urnd(8), self._urnd(8))
            elif kind == "truncated":
                tok = token[: self.rng.choice([1, len(token) // 2, len(token) - 1])]
                src = addr  # the address the genuine token was issued to
            elif kind == "no-token":
                tok = b""
            else:
                raise HarnessError(kind)
            dcid = hdr["scid"] if kind == "replayed-other-address" and self.rng.random() < 0.5 and False else self._urnd(8)
            pkt = build_initial(version, dcid, self._urnd(8), tok, self._urnd)
            self.net.inject(src, self.server_addr, pkt, self.rng.choice([0.0, 0.001, 0.03]), kind)

    def before_deliver(self, d, tr):
        if tr is not self.server_transport:
            return
        self._created_before = len(self.server_protos)
        self._expect = None
        if self.server_closed:
            return
        if d.tag is None or d.tag == "forged-1rtt-stream-frame":
            cid = dcid_of(d.data)
            if cid is not None:
                for p in self.server_protos:
                    v = p.vf
                    if not v.terminated and cid in self._live_ids(v):
                        self._expect = (p, v.rx, cid)
                        break

    def _live_ids(self, v, proto=None):
        ids = {v.first_dcid, v.host_cid0}
        ids.update(v.issued)
        if proto is not None:
            # An ID counts as issued from the moment its NEW_CONNECTION_ID frame was put into a datagram (hooked state:
            # the connection's own list of host IDs, flag was_sent) — not only once the adapter got round to processing
            # the ConnectionIdIssued event: the peer may use the ID as soon as it has the frame.
            try:
                for c in proto._quic._host_cids:
                    if c.was_sent:
                        ids.add(bytes(c.cid))
                        if bytes(c.cid) not in v.issued and bytes(c.cid) != v.host_cid0:
                            self.count("routing_ids_on_the_wire_before_their_event_was_processed")
            except AttributeError:
                pass
        ids.discard(None)
        return ids - v.retired

    def after_deliver(self, d, tr, exc):
        if tr is not self.server_transport:
            return
        if d.tag is not None and d.tag != "forged-1rtt-stream-frame":
            # ---- oracle (4): harness-built Initials must neither create state nor raise
            self.count("retry_injections_checked")
            self.count("retry_injected_" + d.tag)
            if exc is not None:
                self.violation("retry:raised:%s:%s" % (d.tag, exc_signature(exc)), "QuicServer.datagram_received raised %r on an Initial with a %s token" % (exc, d.tag), exc_witness(exc))
            # (state creation is reported by server_factory)
        if self._expect is not None:
            p, rx0, cid = self._expect
            self.n_routed += 1
            if p.vf.rx != rx0 + 1 or p.vf.rx_last is not d.data:
                if exc is None:
                    self.violation(
                        "routing:datagram-for-live-cid-not-delivered-to-its-connection",
                        "a datagram addressed to connection ID %s of live server connection %s did not reach it" % (cid.hex(), p.vf.label),
                        {"cid": cid.hex(), "kind": self._cid_kind(p.vf, cid)},
                    )
        self.routing_eval("after-datagram")

    def _cid_kind(self, v, cid):
        if cid == v.first_dcid:
            return "first-destination-cid"
        if cid == v.host_cid0:
            return "initial-host-cid"
        return "issued-cid"

    def routing_eval(self, when):
        """oracle (3)"""
        server = self.server
        if server is None:
            return
        table = server._protocols  # the routing table named by the property's anchor
        self.n_routing += 1
        for p in self.server_protos:
            v = p.vf
            if v.terminated:
                continue
            if self.server_closed:
                continue
            for cid in self._live_ids(v, p):
                if table.get(cid) is not p:
                    kind = self._cid_kind(v, cid)
                    self.violation(
                        "routing:live-connection-unreachable-through:" + kind,
                        "%s: live server connection %s is not reachable through its %s %s (table maps it to %s)"
                        % (when, v.label, kind, cid.hex(), "nothing" if cid not in table else "another connection"),
                        {"cid": cid.hex(), "issued": [c.hex() for c in v.issued], "retired": sorted(c.hex() for c in v.retired),
                         "table": sorted(k.hex() for k, q in table.items() if q is p)},
                    )
        for cid, q in list(table.items()):
            v = getattr(q, "vf", None)
            if v is not None and v.terminated:
                self.violation(
                    "routing:entry-for-terminated-connection:" + self._cid_kind(v, cid),
                    "%s: routing table still maps %s to server connection %s which reported termination %r"
                    % (when, cid.hex(), v.label, v.term),
                    {"cid": cid.hex(), "kind": self._cid_kind(v, cid)},
                )

    # ------------------------------------------------------------------ main coroutine
    async def main(self):
        from aioquic.asyncio import serve

        self._stream_ops = {}
        self._push_ops = {}
        self.server = await serve(HOST, PORT, configuration=self.server_config(), create_protocol=self.server_factory,
                                  retry=self.spec["retry"], stream_handler=self.server_stream_handler)
        self.server_addr = (self.net.resolve(HOST), PORT, 0, 0)
        self.server_transport = self.net.by_addr[(self.server_addr[0], PORT)]
        self.net.set_name(self.server_transport, "server")
        clients = [self.spawn(self.client_main(ci)) for ci in range(self.spec["nclients"])]
        if self.spec["server_close_all_at"] is not None:
            self.spawn(self.close_server_at(self.spec["server_close_all_at"]))
        await asyncio.wait(clients, timeout=CLIENT_BOUND)
        # let every server-side connection (including ones created by delayed duplicates) end by itself
        end = self.loop.time() + SERVER_BOUND
        while self.loop.time() < end and any(not p.vf.terminated for p in self.protos):
            await asyncio.sleep(1.0)
        await asyncio.sleep(3.0)
        self.routing_eval("end")
        if not self.server_closed:
            self.server_closed = True
            self.server.close()
        await asyncio.sleep(5.0)
        self.routing_eval("after-server-close")

    async def close_server_at(self, t):
        await asyncio.sleep(t)
        self.count("closes_server_close_all")
        self.server_close_time = self.loop.time()
        self.server_closed = True
        self.server.close()

    # ------------------------------------------------------------------ run + final evaluation
    def run(self):
        from ..c19_vloop import LoopStalled, VLoop, VNet, Watchdog

        spec = self.spec
        urandom = SeededUrandom(self.seed)
        urandom.install()
        self.loop = loop = VLoop(seed=self.seed, max_lateness=spec["lateness"], wall_limit=SCEN_WALL)
        params = dict(spec["fate"])
        params["blackouts"] = {}
        for ci, c in enumerate(spec["clients"]):
            if c["close_kind"] == "idle":
                params["blackouts"]["c%d" % ci] = [[c["start_at"] + c["close_at"] + 0.2, 1e18]]
        self.net = net = VNet(loop, self.seed, params)
        net.on_send = self.on_send
        net.before_deliver = self.before_deliver
        net.after_deliver = self.after_deliver
        loop.trace_hook = self.trace_hook
        loop.set_exception_handler(self._exception_handler)
        asyncio.set_event_loop(loop)
        stalled = None
        import sys

        old_hook = sys.unraisablehook
        sys.unraisablehook = self._unraisable
        try:
            try:
                loop.run_until_complete(self.main())
            except Watchdog as exc:
                self.inconclusive = "scenario %d: watchdog (%s) at virtual t=%.3f after %d loop iterations" % (self.seed, exc, loop.time(), loop.iterations)
            except LoopStalled as exc:
                stalled = str(exc)
            if self.inconclusive is None:
                self.evaluate(stalled)
        finally:
            self.finished_eval = True
            try:
                loop.extend_wall(10.0)
                for t in self.tasks:
                    if not t.done():
                        t.cancel()
                pend = [t for t in asyncio.all_tasks(loop) if not t.done()]
                for t in pend:
                    t.cancel()
                if pend:
                    loop.run_until_complete(asyncio.gather(*pend, return_exceptions=True))
            except BaseException:
                pass
            asyncio.set_event_loop(None)
            try:
                loop.close()
            except Exception:
                pass
            import gc

            self.protos = self.protos  # keep until collected below
            gc.collect()
            sys.unraisablehook = old_hook
            urandom.uninstall()
        if self.harness_errors:
            raise self.harness_errors[0]

    def evaluate(self, stalled):
        res = self.res
        loop = self.loop
        spec = self.spec
        if stalled is not None:
            # main() itself can only stall when the loop has nothing left to run
            raise HarnessError("loop stalled in main(): %s" % stalled)
        # ---- connections that never terminated
        stuck = []
        for p in self.protos:
            v = p.vf
            if not v.terminated:
                if loop.has_live_timer(p):
                    self.inconclusive = "scenario %d: connection %s/%s still has an armed timer at the virtual-time bound" % (self.seed, v.role, v.label)
                else:
                    stuck.append(p)
        if self.inconclusive:
            return
        # ---- oracle (2a): exceptions inside callbacks / protocol / transport methods
        for ctx in self.handler_exc:
            exc = ctx.get("exception")
            msg = ctx.get("message", "")
            if exc is None or "never retrieved" in msg:
                self.count("obs_exception_handler_other")
                continue
            if isinstance(exc, HarnessError):
                raise exc
            sig = exc_signature(exc)
            if sig.endswith("@?"):
                # no aioquic frame on the stack: the harness itself failed
                raise exc
            self.violation(
                "loop:" + sig,
                "exception raised inside an event-loop callback and caught by the loop's exception handler: %r (%s)" % (exc, msg),
                dict(exc_witness(exc), handle=repr(ctx.get("handle"))[:200]),
            )
        # ---- oracle (2b): waiters
        for w in self.waiters:
            if w.state == "open":
                sig = "waiter:%s-%snever-finishes" % (w.kind, "after-termination-" if w.after_term else "")
                conn = next((p for p in self.protos if p.vf.label == w.label and p.vf.role == w.side), None)
                if conn is not None and conn in stuck:
                    sig += ":connection-never-terminated-and-no-timer-armed"
                self.violation(
                    sig,
                    "%s() awaited on %s connection %s at t=%.4f (after ConnectionTerminated was processed: %s, after close(): %s) is still pending when every "
                    "connection has ended and the loop is quiet (virtual t=%.1f)" % (w.kind, w.side, w.label, w.t0, w.after_term, w.after_close, loop.time()),
                    {"waiter": w.brief()},
                )
                res.count("waiter:%s/%s/pending" % (w.side, w.kind))
            elif w.state == "exc":
                self.violation(
                    "waiter:%s-finished-with:%s" % (w.kind, exc_signature(w.exc)),
                    "%s() finished with %r (neither success nor a connection error)" % (w.kind, w.exc),
                    dict(exc_witness(w.exc), waiter=w.brief()),
                )
                res.count("waiter:%s/%s/other-exception" % (w.side, w.kind))
            else:
                res.count("waiters_finished")
                res.count("waiter:%s/%s/%s%s" % (w.side, w.kind, w.state, "/started-after-termination" if w.after_term else ""))
        for p in stuck:
            v = p.vf
            if not any(w.state == "open" and w.label == v.label and w.side == v.role for w in self.waiters):
                self.violation(
                    "conn:never-terminated-and-no-timer-armed",
                    "%s connection %s never reported termination and has no timer armed at virtual t=%.1f (close() called: %s)" % (v.role, v.label, loop.time(), v.close_called),
                    {"trace_tail": "".join(v.trace[-30:])},
                )
        # ---- oracle (1c): a finished stream on a connection that stayed up reaches the peer's reader completely
        t_end_all = loop.time()
        for r in self.streams.values():
            if not r.eof or r.poisoned or r.writer_conn is None:
                continue
            wconn = r.writer_conn
            rconn = r.reader_conn
            if rconn is None:
                if r.direction == "s2c":
                    rconn = next((p for p in self.protos if p.vf.role == "client" and p.vf.label == r.label), None)
                else:
                    rconn = next((p for p in self.server_protos if p.vf.label == r.label), None)
            if rconn is None:
                continue
            t0 = max(r.eof_at, spec["fate"]["adv_until"])
            ends = [t_end_all]
            for c in (wconn, rconn):
                for t in (c.vf.term_at, c.vf.closed_at):
                    if t is not None:
                        ends.append(t)
            if self.server_close_time is not None:
                ends.append(self.server_close_time)
            up_for = min(ends) - t0
            if (wconn.vf.key_updated or rconn.vf.key_updated) and not (r.eof_seen and not r.eof_by_term):
                self.count("streams_completeness_skipped_key_update")
                if up_for < COMPLETE_GRACE:
                    continue
                # sans-IO core, not the adapter: after a local key update the previous receive keys are dropped at once; if the
                # first packets of the new phase are lost the peer keeps sending in the old phase and nothing is ever accepted
                # again (connection dies by idle timeout).  Observed on the unchanged tree; outside this property.
                self.count("obs_streams_stalled_after_key_update")
                continue
            if r.eof_seen and not r.eof_by_term and r.read_len == r.written and r.eof_seen_at <= t0 + COMPLETE_GRACE:
                self.count("streams_completeness_checked")
                continue
            if up_for < COMPLETE_GRACE:
                self.count("streams_connection_ended_before_delivery_bound")
                continue
            self.count("streams_completeness_checked")
            if True:
                self.violation(
                    "stream:not-delivered-on-live-connection",
                    "stream %s/%d/%s: writer finished (%d bytes, write_eof at t=%.3f); both connections stayed up for %.1f more virtual seconds on a fair network, "
                    "but the peer's reader had %d bytes and EOF seen=%s" % (r.label, r.sid, r.direction, r.written, r.eof_at, up_for, r.read_len, r.eof_seen),
                    {"stream": r.brief(), "reader_started": r.reader_started},
                )
        # ---- streams: leftovers
        for r in self.streams.values():
            if r.reader_started and not r.eof_seen and not r.poisoned:
                conn = r.reader_conn
                if conn is not None and conn.vf.terminated:
                    self.violation(
                        "stream:reader-never-got-eof-after-termination",
                        "reader of %s/%d/%s is still blocked although its connection reported termination" % (r.label, r.sid, r.direction),
                        {"stream": r.brief()},
                    )
        # ---- evidence
        res.count("scenarios")
        res.count("routing_evaluations", self.n_routing)
        res.count("routed_datagrams_checked", self.n_routed)
        res.count("clients", spec["nclients"])
        res.count("server_connections_created", len(self.server_protos))
        for k, n in self.net.counts.items():
            res.count("net_" + k, n)
        res.count("timers_armed", loop.timers_armed)
        res.count("timers_fired_late", loop.timers_late)
        res.count("obs_timers_armed_for_a_past_deadline", loop.timers_armed_in_past)
        res.count("loop_iterations", loop.iterations)
        for p in self.protos:
            tr = p.vf.trace
            idx = [i for i, ch in enumerate(tr) if ch in "CX"]
            if idx:
                i = idx[0]
                res.maxc("ord:%s|%s|%s" % (p.vf.role[0], "".join(tr[max(0, i - 3):i]), "".join(tr[i:i + 5])), 1)
        delivered = sum(1 for r in self.streams.values() if r.read_len > 0)
        finished = sum(1 for w in self.waiters if w.state in ("ok", "ConnectionError"))
        if delivered and finished and all(p.vf.terminated for p in self.protos):
            res.nontrivial.add(h(spec_signature(spec)))
        res.sample(
            {
                "seed": self.seed,
                "clients": spec["nclients"],
                "retry": spec["retry"],
                "fate": spec["fate"],
                "close_kinds": [c["close_kind"] for c in spec["clients"]],
                "streams": len(self.streams),
                "waiters": len(self.waiters),
                "server_connections": len(self.server_protos),
                "net": dict(self.net.counts),
                "virtual_end": round(loop.time(), 2),
                "example_trace_around_close": "".join(self.protos[0].vf.trace[-12:]) if self.protos else "",
            },
            limit=2,
        )


# ====================================================================== batch entry points


def run_scenario(seed, res):
    case = {"gen": "scen", "seeds": [seed]}
    spec = gen_spec(seed)
    sc = Scenario(spec, res, case)
    t0 = time.time()
    try:
        sc.run()
    except Exception as exc:  # harness failure inside one scenario: never a verdict
        import os
        import traceback

        if os.environ.get("C19_DEBUG"):
            traceback.print_exc()
        res.inconclusive.append("scenario %d: harness error: %s" % (seed, "".join(traceback.format_exception(type(exc), exc, exc.__traceback__))[-1500:]))
        res.count("scenarios_harness_error")
        return sc, time.time() - t0
    res.evaluations += 1
    if sc.inconclusive:
        res.inconclusive.append(sc.inconclusive)
        res.count("scenarios_inconclusive")
    return sc, time.time() - t0


def run_batch(batch):
    res = Result()
    t0 = time.process_time()
    if batch["gen"] == "lazy":
        from ..c19_lazy import lazy_connect

        lazy_connect(batch, res)
    elif batch["gen"] != "scen":
        raise ValueError(batch["gen"])
    else:
        for seed in batch["seeds"]:
            run_scenario(seed, res)
    res.count("cpu_s", round(time.process_time() - t0, 2))
    return res.as_dict()
