"""C17 — wire codecs round-trip and agree with an independent codec.

Oracle = an independent codec written from the RFCs (vf/c17_refcodec.py):
  values -> bytes -> values   O1 decode(encode(v)) == v; O2 byte equality with the reference
                              encoder (for transport parameters / TLS extensions after aligning
                              the free order) and cross-decoding in both directions; O3 an
                              encoder that returns for an in-domain value must have represented it
                              (out-of-domain integers: observation only).
  bytes -> values             mutated-valid (length lies at every nesting level, truncation at
                              every byte, trailing garbage, flips, splices) and arbitrary inputs:
                              only documented parse errors (ValueError / tls.Alert); an accepted
                              value must re-encode to an equivalent encoding; the strict bounded
                              reference decoder must not have rejected the input for an inner
                              length exceeding its enclosing field; if both accept, same value.
"""

from __future__ import annotations

import time

from ..common import Result

PROPERTY = "C17"
LEVEL = "exploration"
BUDGET = {"quick": 75, "thorough": 1300}
BATCH_TIMEOUT = {"quick": 400, "thorough": 2400}
RULE = (
    "values: integers at 0,1,2^k-1,2^k,2^k+1 (k=6,14,30,62), fixed-width at 0,max,max+1,-1,... (exhaustive boundary sets) + "
    "seeded random; ACK range sets = all 4095 non-empty subsets of a 12-element universe at 5 bases + random sets with "
    "boundary/extreme gaps; headers = QuicPacketBuilder output for both versions x types x DCID x SCID lengths 0..20 x token "
    "lengths {0,1,63,64,300}, reference-encoded headers with every Length size / pn length / CID length incl. 21,255; Retry "
    "and Version Negotiation grids; transport parameters = each parameter alone at boundary values + sampled presence patterns; "
    "TLS messages = every present/absent pattern of the modelled optional extensions x {0,1,3} unknown extensions with "
    "empty/one/some/maximal lists. bytes: reference encodings with each recorded length field altered, truncated at every byte, "
    "trailing bytes, flips, splices, plus random strings. A value case is non-trivial when the encoder returned and its bytes "
    "were compared with the reference (signature = codec + structural class of the value); a bytes case is non-trivial by its "
    "(mutation kind, aioquic outcome, reference outcome class) signature."
)
RULE += ' Every mutated header is also parsed at a non-zero offset of a larger buffer (same outcome as on its own; an accepted packet ends inside the buffer).'

ASSUMPTIONS = [
    "the reference codec (vf/c17_refcodec.py, checked at run time against the RFC 9000/9001/9369 examples) is right where it and aioquic agree",
    "pull_<message>() is only called on a buffer whose first byte is that message's handshake type (its documented precondition); "
    "pull_quic_header is always given host_cid_length",
    "header encoding is observed through QuicPacketBuilder with a stand-in CryptoPair that leaves the header unprotected",
    "ALPN names and server names in generated values are ASCII (aioquic's API models them as str); a preferred address of 0.0.0.0/:: "
    "means 'absent' (RFC 9000 18.2) and is not generated as a value",
    "integers outside a codec's domain (256 for push_uint8, 2^64+5 for push_uint_var) are outside the property's quantifier: a push that "
    "returns for them and stores a truncated value is only counted (obs_push_returns_for_out_of_domain_value_<width>)",
    "leniency of aioquic towards truncated-looking / trailing / RFC-illegal inputs that the strict reference rejects for a reason other "
    "than an inner length exceeding its enclosing field is an 'either' region (counted as *_obs_lenient_*)",
]

V1, V2 = 0x00000001, 0x6B3343CF
ACK_BASES = [0, 52, 16372, (1 << 30) - 6, (1 << 62) - 12]
TLS_MSGS = ("client_hello", "server_hello", "encrypted_extensions", "certificate_request",
            "certificate", "certificate_verify", "finished", "new_session_ticket")
TLS_REPS = {"client_hello": 3, "server_hello": 12, "encrypted_extensions": 25, "certificate_request": 100,
            "certificate": 250, "certificate_verify": 300, "finished": 300, "new_session_ticket": 50}


def floors(tier):
    return {
        "varint_byte_equal_checks": 2000, "uint8_values": 50, "uint64_values": 50, "int_boundary_sets_done": 1,
        "ack_universe_subsets": 4095, "ack_byte_equal_checks": 5000,
        "header_byte_equal_checks": 1000, "header_cross_decodes": 1000, "retry_byte_equal_checks": 1000,
        "vn_byte_equal_checks": 500, "tp_byte_equal_checks": 500, "tp_cross_decodes": 1000,
        "client_hello_byte_equal_checks": 100, "server_hello_byte_equal_checks": 100,
        "encrypted_extensions_byte_equal_checks": 100, "certificate_request_byte_equal_checks": 100,
        "certificate_byte_equal_checks": 100, "certificate_verify_byte_equal_checks": 100,
        "finished_byte_equal_checks": 100, "new_session_ticket_byte_equal_checks": 100,
        "client_hello_bytes_cases": 1000, "tp_bytes_cases": 1000, "header_bytes_cases": 1000, "ack_bytes_cases": 500,
    }


def finalize(tier, merged):
    return {
        "exhaustive": bool(
            merged.get("int_boundary_sets_done", 0) >= 1
            and merged.get("ack_universe_subsets", 0) >= 4095 * len(ACK_BASES)
            and merged.get("varint_exhaustive_short_inputs", 0) >= 65792
        ),
        "exhaustive_scope": "integer boundary sets; all 1- and 2-byte varint inputs; all non-empty subsets of a 12-element ACK "
                            "universe at bases %r; (thorough also: header builder / Retry / VN length grids, TLS presence patterns)" % ACK_BASES,
        "states": int(merged.get("ack_universe_subsets", 0)),
    }


def plan(tier, seed):
    q = tier == "quick"
    s = seed * 1000003
    b = [{"gen": "ints", "seed": s, "boundary": True, "n": 2000, "nbytes": 2000}]
    for i in range(6 if q else 60):
        b.append({"gen": "ints", "seed": s + 1 + i, "n": 15000 if q else 50000, "nbytes": 3000})
    for base in ACK_BASES:
        b.append({"gen": "ack_universe", "seed": s, "base": base, "lo": 1, "hi": 4096})
    for i in range(6 if q else 60):
        b.append({"gen": "ack_random", "seed": s + i, "n": 400 if q else 1500, "nbytes": 1500})
    for version in (V1, V2):
        for ptype in ("initial", "zero_rtt", "handshake"):
            b.append({"gen": "headers_builder", "seed": s, "version": version, "ptype": ptype})
        b.append({"gen": "retry_vn", "what": "retry", "seed": s, "version": version})
        for i in range(2 if q else 16):
            b.append({"gen": "headers_decode", "seed": s + i, "version": version})
    b.append({"gen": "headers_builder", "seed": s, "version": V1, "ptype": "one_rtt"})
    for k in range(3):
        b.append({"gen": "retry_vn", "what": "vn", "seed": s + k, "stride": 9 if q else 3, "offset": k})
    for i in range(6 if q else 60):
        b.append({"gen": "header_bytes", "seed": s + i, "n": 40 if q else 120, "nbytes": 1500})
    b.append({"gen": "tp_values", "seed": s, "singletons": True, "n": 200})
    for i in range(6 if q else 60):
        b.append({"gen": "tp_values", "seed": s + 1 + i, "n": 1200 if q else 4000})
        b.append({"gen": "tp_bytes", "seed": s + i, "n": 25 if q else 80, "nbytes": 1500})
    for msg in TLS_MSGS:
        for i in range(3 if q else 30):
            b.append({"gen": "tls_values", "msg": msg, "seed": s + i, "reps": TLS_REPS[msg]})
        for i in range(4 if q else 40):
            b.append({"gen": "tls_bytes", "msg": msg, "seed": s + i, "n": 20 if q else 60, "nbytes": 800})
    # round-robin over (generator, message) groups: a budget cut-off then thins every codec evenly
    groups = {}
    for x in b:
        groups.setdefault((x["gen"], x.get("msg"), x.get("what")), []).append(x)
    # the exhaustive sets go first so that a budget cut-off on a loaded machine never loses them
    out = [groups[("ints", None, None)].pop(0)] + groups.pop(("ack_universe", None, None))
    while any(groups.values()):
        for k in list(groups):
            if groups[k]:
                out.append(groups[k].pop(0))
    return out


def run_batch(batch):
    from .. import c17_checks_a as A
    from .. import c17_checks_b as B
    from .. import c17_checks_c as C

    gens = {
        "ints": A.gen_ints, "ack_universe": A.gen_ack_universe, "ack_random": A.gen_ack_random,
        "headers_builder": B.gen_headers_builder, "headers_decode": B.gen_headers_decode, "retry_vn": B.gen_retry_vn,
        "header_bytes": B.gen_header_bytes, "tp_values": C.gen_tp_values, "tp_bytes": C.gen_tp_bytes,
        "tls_values": C.gen_tls_values, "tls_bytes": C.gen_tls_bytes, "replay_bytes": C.gen_replay_bytes,
        "replay_header_offset": B.gen_replay_header_offset,
    }
    res = Result()
    t0 = time.process_time()
    gens[batch["gen"]](batch, res)
    res.count("cpu_s_" + batch["gen"], round(time.process_time() - t0, 2))
    # one concrete sample per generator kind
    res.sample({"gen": batch["gen"], "batch": {k: v for k, v in batch.items() if k != "hex"},
                "evaluations": res.evaluations, "counters": {k: v for k, v in sorted(res.counters.items())[:12]}}, limit=1)
    return res.as_dict()
