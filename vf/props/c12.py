"""C12 — acknowledgements are sound and timely.

Offline/online checker over the independent tap's packet log versus the simulator's delivery
log (vf.monitors.AckMonitor): every acknowledged number must have been delivered authentic in
that packet number space; after handshake completion an ack-eliciting packet carrying the
highest number so far must be acknowledged within the advertised 25 ms (timers fired on
time); in the Initial/Handshake spaces the next transmission in that space must carry the ACK.
"""

from __future__ import annotations

import random
import time

from ..common import Result

PROPERTY = "C12"
LEVEL = "exploration"
BUDGET = {"quick": 65, "thorough": 1400}
BATCH_TIMEOUT = {"quick": 300, "thorough": 1200}
RULE = (
    "cases = seeded transfer scenarios over networks that drop, duplicate and reorder datagrams in both directions (so gaps, "
    "duplicates, lost ACKs and lost ACK-of-ACKs occur), plus corrupted copies of genuine datagrams delivered first and long "
    "1-3% loss runs in which ACK range sets grow and get pruned; non-trivial = a run in which at least one ACK frame with more "
    "than one range was checked and at least one timeliness obligation was met; distinct = hash(config, op multiset, fate multiset)."
)
ASSUMPTIONS = [
    "'delivered authentic' is decided by the independent tap (vf.refwire) at emission and by the simulator's delivery log",
    "timeliness is only demanded for packets the endpoint could process (receive keys installed, space not discarded, not closing, "
    "current path validated) and with timers fired exactly at the requested deadline; 30 % of the cases include key updates and "
    "client address rebinding (their stalls were repaired, see DESIGN section 11)",
    "max_ack_delay is the value aioquic puts on the wire (25 ms); a 1 microsecond slack absorbs float rounding",
]


def floors(tier):
    return {"ack_frames_checked": 2000, "acked_numbers_checked": 20000, "timeliness_met": 300, "next_tx_obligations": 30}


def plan(tier, seed):
    n, per = (420, 7) if tier == "quick" else (30000, 25)
    base = seed * 1000003
    return [{"gen": "acks", "seeds": [base + i + k for k in range(per)]} for i in range(0, n, per)]


def gen_case(seed):
    from ..scenarios import gen_scenario

    rng = random.Random("c12/%s" % seed)
    r2 = random.Random("c12-ku/%s" % seed)
    ku = r2.random() < 0.3
    sc = gen_scenario(seed, allow_key_update=ku, allow_stop=True)
    if not ku:
        # (70 % of the cases stay free of key updates and address rebinding)
        sc["fates"].pop("rebind_after", None)
        sc["script"] = [o for o in sc["script"] if o["op"] != "key_update"]
    mode = rng.choice(["mixed", "mixed", "long-low-loss", "corrupt-first"])
    if mode == "long-low-loss":
        sc["fates"].update({"loss": rng.choice([0.01, 0.02, 0.03]), "dup": 0.01, "adv_seconds": 30.0, "adv_dgrams": 3000, "jitter": 0.0})
        sc["script"].append({"t": 0.3, "side": "client", "op": "write", "sid": 400, "n": 600000, "fin": True})
        sc["script"].append({"t": 0.4, "side": "server", "op": "write", "sid": 401, "n": 300000, "fin": True})
        sc["script"].sort(key=lambda o: o["t"])
        sc["horizon"] = 200.0
        sc["step_cap"] = 80000
    elif mode == "corrupt-first":
        sc["fates"]["corrupt_first"] = 0.3
    sc["mode"] = mode + ("+ku-rebind" if ku else "")
    return sc


def run_batch(batch):
    from .. import monitors
    from ..simprops import run_case

    res = Result()
    t0 = time.time()
    for seed in batch["seeds"]:
        sc = gen_case(seed)
        am = monitors.AckMonitor(check_timeliness=True)
        multi = {"n": 0}
        sim, ok = run_case(sc, [am], res, {"gen": "acks", "seeds": [seed]},
                           counters=("ack_frames_checked", "acked_numbers_checked", "timeliness_obligations", "timeliness_met", "next_tx_obligations", "exempt"),
                           nontrivial=lambda s: am.timeliness_met > 0 and am.ack_frames_checked > 5, sig_extra=(sc["mode"],))
        if ok:
            res.sample({"seed": seed, "mode": sc["mode"], "opts": sc["opts"], "fates": dict(sim.fates.counts), "ack_frames_checked": am.ack_frames_checked,
                        "acked_numbers_checked": am.acked_numbers_checked, "timeliness_met": am.timeliness_met, "exempt": am.exempt}, limit=2)
    res.count("cpu_s", round(time.time() - t0, 2))
    return res.as_dict()
