"""C12 — acknowledgements are sound and timely.

Offline/online checker over the independent tap's packet log versus the simulator's delivery
log (vf.monitors.AckMonitor): every acknowledged number must have been delivered authentic in
that packet number space; after handshake completion an ack-eliciting packet carrying the
highest number so far must be acknowledged within the advertised 25 ms (timers fired on
time); in the Initial/Handshake spaces the next transmission in that space must carry the ACK.
"""

from __future__ import annotations

import random
import time

from ..common import Result

PROPERTY = "C12"
LEVEL = "exploration"
BUDGET = {"quick": 65, "thorough": 1400}
BATCH_TIMEOUT = {"quick": 300, "thorough": 1200}
RULE = (
    "cases = seeded transfer scenarios over networks that drop, duplicate and reorder datagrams in both directions (so gaps, "
    "duplicates, lost ACKs and lost ACK-of-ACKs occur), plus corrupted copies of genuine datagrams delivered first and long "
    "1-3% loss runs in which ACK range sets grow and get pruned; non-trivial = a run in which at least one ACK frame with more "
    "than one range was checked and at least one timeliness obligation was met; distinct = hash(config, op multiset, fate multiset)."
)
RULE += " Late additions: many-ranges-burst with far-apart numbers (230-300 packets, 17 000-30 000 apart); rebind-while-window-full (server window exhausted, full-sized packets from a new client address); acknowledgements are owed on an unvalidated path while the monitor's own 3x ledger leaves room for an ACK-bearing packet (200 bytes)."

ASSUMPTIONS = [
    "'delivered authentic' is decided by the independent tap (vf.refwire) at emission and by the simulator's delivery log",
    "timeliness is only demanded for packets the endpoint could open (observed at CryptoPair.decrypt_packet of that endpoint, not in "
    "its ack_queue), while it is not closing and while the address it has to use is validated according to the monitor's own path "
    "model (Handshake packet opened from it, or PATH_RESPONSE echoing a challenge sent to it), with timers fired exactly at the "
    "requested deadline; 30 % of the cases include key updates and client address rebinding, 20 % forged path probes from an "
    "address the client does not use",
    "max_ack_delay is the value aioquic puts on the wire (25 ms); a 1 microsecond slack absorbs float rounding",
]


def floors(tier):
    return {"ack_frames_checked": 2000, "acked_numbers_checked": 20000, "timeliness_met": 300, "next_tx_obligations": 30}


def plan(tier, seed):
    n, per = (420, 7) if tier == "quick" else (30000, 25)
    base = seed * 1000003
    return [{"gen": "acks", "seeds": [base + i + k for k in range(per)]} for i in range(0, n, per)]


def gen_case(seed):
    from ..scenarios import gen_scenario

    rng = random.Random("c12/%s" % seed)
    r2 = random.Random("c12-ku/%s" % seed)
    ku = r2.random() < 0.3
    sc = gen_scenario(seed, allow_key_update=ku, allow_stop=True)
    if not ku:
        # (70 % of the cases stay free of key updates and address rebinding)
        sc["fates"].pop("rebind_after", None)
        sc["script"] = [o for o in sc["script"] if o["op"] != "key_update"]
    mode = rng.choice(["mixed", "mixed", "long-low-loss", "corrupt-first"])
    if mode == "long-low-loss":
        sc["fates"].update({"loss": rng.choice([0.01, 0.02, 0.03]), "dup": 0.01, "adv_seconds": 30.0, "adv_dgrams": 3000, "jitter": 0.0})
        sc["script"].append({"t": 0.3, "side": "client", "op": "write", "sid": 400, "n": 600000, "fin": True})
        sc["script"].append({"t": 0.4, "side": "server", "op": "write", "sid": 401, "n": 300000, "fin": True})
        sc["script"].sort(key=lambda o: o["t"])
        sc["horizon"] = 200.0
        sc["step_cap"] = 80000
    elif mode == "corrupt-first":
        sc["fates"]["corrupt_first"] = 0.3
    sc["mode"] = mode + ("+ku-rebind" if ku else "")
    r6 = random.Random("c12-probe/%s" % seed)
    if r6.random() < 0.2:
        # path probes: packets with only probing frames (PATH_CHALLENGE, PADDING, NEW_CONNECTION_ID is left out because it
        # would need a fresh sequence number) sealed with the client's keys and delivered to the server from an address
        # the client is not using: they do not move the connection to that path, yet they are ack-eliciting
        for i in range(r6.choice([1, 2, 3])):
            t = round(0.6 + r6.random() * max(0.5, sc["fates"]["adv_seconds"]), 4)
            sc["script"].append({"t": t, "side": "server", "op": "forge", "ptype": "1rtt", "from_alt": True,
                                 "frames_hex": "1a" + "%016x" % r6.getrandbits(64) + r6.choice(["", "00" * 20])})
        sc["script"].sort(key=lambda o: o["t"])
    r12 = random.Random("c12-rebind-full/%s" % seed)
    if r12.random() < 0.06:
        # directed: the server has a congestion window full of data in flight that nothing acknowledges (its datagrams are
        # lost for a while) when the client, from a new address (NAT rebinding), sends full-sized ack-eliciting packets:
        # the new path is not validated, but three times what arrived leaves ample room for an ACK-bearing packet, and ACK
        # frames do not wait for the congestion window
        from .. import simnet

        for k in ("resume", "resume_forget", "retry", "frontend_vn"):
            sc["opts"].pop(k, None)
        if sc["opts"].get("versions_server") == ["v1"]:
            sc["opts"].pop("versions_server")
        d = r12.choice([0.01, 0.02, 0.04])
        t0 = 1.0
        fates = {"delay": d, "adv_seconds": t0 + 1.0, "adv_dgrams": 10**6, "loss": 0.0, "blackouts": [[t0 - 0.001, t0 + r12.choice([0.3, 0.6]), "s2c"]]}
        script = [{"t": t0, "side": "server", "op": "write", "sid": 3, "n": r12.choice([100000, 300000]), "fin": True},
                  {"t": round(t0 + 2 * d + r12.choice([0.01, 0.05, 0.1]), 4), "side": "client", "op": "write", "sid": 0, "n": r12.choice([1150, 3000, 6000]), "fin": False}]
        sim0 = simnet.SimNet(sc["opts"], simnet.Fates(seed, dict(fates)), [], [], seed=seed, horizon=t0 - 0.01)
        try:
            simnet.run_sim(sim0)
            fates["rebind_after"] = len(sim0.datagrams["client"])
        except Exception:
            pass
        sc["fates"], sc["script"] = fates, script
        sc["horizon"] = 60.0
        sc["mode"] = "rebind-while-window-full"
    r7 = random.Random("c12-ranges/%s" % seed)
    if r7.random() < 0.08:
        # directed: far more than MAX_ACK_RANGES (32) disjoint ranges in one endpoint's ack queue: a long run of small
        # ack-eliciting packets (PINGs) of which every second one is lost on average, while nothing the receiver
        # sends gets through, so no ACK-of-ACK ever prunes its queue; every arriving packet with the highest number
        # is still owed its acknowledgement in time, whatever the frame has to leave out
        snd = r7.choice(["client", "server"])
        fwd, back = ("c2s", "s2c") if snd == "client" else ("s2c", "c2s")
        n = r7.choice([200, 260, 400])
        t0 = 1.0
        sc["opts"].pop("resume", None)
        sc["opts"].pop("resume_forget", None)
        sc["fates"] = {"delay": sc["fates"]["delay"], "adv_seconds": 4.0, "adv_dgrams": 10**6, "loss": 0.0, "dup": 0.0,
                       "loss_windows": [[t0, t0 + 2.0, fwd, r7.choice([0.4, 0.5, 0.6])]], "blackouts": [[t0 - 0.05, t0 + 2.5, back]]}
        sc["script"] = [{"t": round(t0 + i * 0.0015, 4), "side": snd, "op": "ping", "uid": 5000 + i} for i in range(n)]
        sc["horizon"] = 60.0
        sc["mode"] = "many-ranges"
    r8 = random.Random("c12-burst/%s" % seed)
    if r8.random() < 0.05:
        # directed: the same, but as one burst: a peer that skips every second packet number (or whose every second
        # packet is lost) delivers 70-140 small ack-eliciting packets within one acknowledgement delay, before the
        # receiver's ACK timer fires once: more ranges than one ACK frame may carry, and each packet was the highest on
        # arrival
        vic = r8.choice(["client", "server"])
        n = r8.choice([70, 100, 140])
        for k in ("resume", "resume_forget"):
            sc["opts"].pop(k, None)
        sc["fates"] = {"delay": sc["fates"]["delay"], "adv_seconds": 0.0, "loss": 0.0}
        t0 = 1.0
        gaps = [1, 1, 2]
        if r8.random() < 0.4:
            # ... far apart (4-byte gap fields) and so many that the ACK frames for all of them outgrow one packet
            n = r8.choice([230, 260, 300])
            gaps = [r8.choice([17000, 20000, 30000])]
        sc["script"] = [{"t": round(t0 + (i // 25) * 0.0001, 4), "side": vic, "op": "forge", "ptype": "1rtt", "frames_hex": "01", "pn_gap": r8.choice(gaps)} for i in range(n)]
        sc["script"] += [{"t": t0 + 1.0, "side": "client", "op": "ping", "uid": 6000}, {"t": t0 + 2.0, "side": "server", "op": "ping", "uid": 6001}]
        sc["horizon"] = 30.0
        sc["mode"] = "many-ranges-burst"
    r9 = random.Random("c12-longrtt/%s" % seed)
    if r9.random() < 0.08:
        # directed: a long path (RTT 0.2-0.6 s, so the endpoints measure a large smoothed RTT) towards a peer that
        # advertises a max_ack_delay of its own far above 25 ms (legal up to 2^14 ms; aioquic itself always says 25):
        # what an endpoint owes is the delay *it* advertised, whatever the path and the peer's parameters are.
        # Isolated ack-eliciting packets (PINGs every 0.3-0.7 s) in both directions, little else.
        for k in ("resume", "resume_forget", "retry", "frontend_vn"):
            sc["opts"].pop(k, None)
        if sc["opts"].get("versions_server") == ["v1"]:
            sc["opts"].pop("versions_server")
        big = r9.choice([100, 200, 1000, 16383])
        who = r9.choice(["client", "server", "both"])
        for side in ("client", "server"):
            if who in (side, "both"):
                sc["opts"]["advertise_" + side] = {"max_ack_delay": big}
        sc["fates"] = {"delay": r9.choice([0.1, 0.15, 0.3]), "adv_seconds": 0.0, "loss": 0.0}
        sc["script"] = [{"t": 0.2, "side": "client", "op": "write", "sid": 0, "n": 3000, "fin": False},
                        {"t": 0.2, "side": "server", "op": "write", "sid": 1, "n": 3000, "fin": False}]
        t = 2.0
        for i in range(12):
            t += r9.choice([0.3, 0.5, 0.7])
            sc["script"].append({"t": round(t, 3), "side": r9.choice(["client", "server"]), "op": "ping", "uid": 7000 + i})
        sc["horizon"] = 60.0
        sc["mode"] = "long-rtt-peer-max-ack-delay"
    r3 = random.Random("c12-late0rtt/%s" % seed)
    if r3.random() < 0.12:
        # directed: a resumed session whose 0-RTT datagram (early data written just after the first flight left) is held
        # back until the server has completed the handshake, while the client's first 1-RTT packets are lost: when it
        # finally arrives it carries the highest packet number of the application space
        sc["opts"].update(resume={})
        for k in ("resume_forget", "retry", "frontend_vn"):
            sc["opts"].pop(k, None)
        if sc["opts"].get("versions_server") == ["v1"]:
            sc["opts"].pop("versions_server")
        sc["fates"] = {"delay": sc["fates"]["delay"], "adv_seconds": 2.0, "adv_dgrams": 10**6, "loss": 0.0,
                       "forced": {"c2s:1": "late:%s" % r3.choice([0.9, 1.2, 1.6])}}
        sc["script"] = [{"t": 0.0005, "side": "client", "op": "write", "sid": 0, "n": r3.choice([50, 400]), "fin": False}]
        sc["mode"] = "late-0rtt"
    return sc


def tune_late0rtt(sc):
    """Directed case: find (by repeated unmonitored runs, like C01's targeted cases) which client datagrams carry 1-RTT
    packets and would reach the server before the held-back 0-RTT datagram, and drop exactly those: the server then
    completes the handshake from a Handshake-only retransmission and the 0-RTT packet arrives as the first — hence
    highest-numbered — application-space packet."""
    from .. import simnet

    delay = sc["fates"]["delay"]
    forced = {k: v for k, v in sc["fates"]["forced"].items() if k == "c2s:1"}
    late = float(forced["c2s:1"].split(":")[1])
    arrival = 0.0005 + delay + late
    for _ in range(20):
        sc["fates"]["forced"] = dict(forced)
        sim = simnet.SimNet(sc["opts"], simnet.Fates(sc["seed"], sc["fates"]), sc["script"], [], seed=sc["seed"], horizon=arrival + 0.05)
        try:
            simnet.run_sim(sim)
        except Exception:
            break
        cand = [rec for rec in sim.datagrams["client"]
                if rec.t_out + delay < arrival and ("c2s:%d" % rec.index) not in forced and any(v.ptype == "1rtt" for v in rec.views or [])]
        if not cand:
            break
        forced["c2s:%d" % cand[0].index] = "drop"
    sc["fates"]["forced"] = dict(forced)
    return sc


def run_batch(batch):
    from .. import monitors
    from ..simprops import run_case

    res = Result()
    t0 = time.time()
    for seed in batch["seeds"]:
        sc = gen_case(seed)
        if sc["mode"] == "late-0rtt":
            sc = tune_late0rtt(sc)
            res.count("late_0rtt_cases")
        am = monitors.AckMonitor(check_timeliness=True)
        multi = {"n": 0}
        # (a packet the endpoint never opened owes no acknowledgement — so "was it opened at all" needs an oracle of its own:
        # a 1-RTT packet travelling behind a long-header packet of the same datagram must be)
        po = monitors.PeerOpensMonitor()
        sim, ok = run_case(sc, [am, po], res, {"gen": "acks", "seeds": [seed]},
                           counters=("ack_frames_checked", "acked_numbers_checked", "timeliness_obligations", "timeliness_met", "next_tx_obligations", "exempt", "exempt_not_opened", "opened_and_owed", "path_changes", "exempt_path_switched", "owed_on_unvalidated_path_with_budget"),
                           nontrivial=lambda s: am.timeliness_met > 0 and am.ack_frames_checked > 5, sig_extra=(sc["mode"],))
        res.maxc("max_ranges_in_one_ack_frame", am.max_ranges)
        for k, v in po.checked.items():
            res.count("must_open_checked_" + k, v)
        if sc["mode"] in ("many-ranges", "many-ranges-burst"):
            res.count("many_ranges_cases")
            res.count("many_ranges_cases_reaching_32_ranges", 1 if am.max_ranges >= 32 else 0)
        if ok:
            res.sample({"seed": seed, "mode": sc["mode"], "opts": sc["opts"], "fates": dict(sim.fates.counts), "ack_frames_checked": am.ack_frames_checked,
                        "acked_numbers_checked": am.acked_numbers_checked, "timeliness_met": am.timeliness_met, "exempt": am.exempt}, limit=2)
    res.count("cpu_s", round(time.time() - t0, 2))
    return res.as_dict()
