"""C20 — logging is observationally transparent.

Paired-run relational monitor: every scenario is executed three times with identical seeds
(off1, off2 without loggers; on with QuicLogger + secrets_log_file). off1 == off2 is the
harness self-check (else inconclusive); on must equal off1 in its abstract trace (events,
emitted packets with their frames, final state) and must not raise where off did not.
The qlog document must be strict JSON and account for the packets sent and received.
"""

from __future__ import annotations

import io
import json
import random
import time

from ..common import Result, SeededUrandom, Violation, h

PROPERTY = "C20"
LEVEL = "exploration"
BUDGET = {"quick": 70, "thorough": 1500}
BATCH_TIMEOUT = {"quick": 300, "thorough": 1500}
RULE = (
    "cases = triples (off, off, on) of the same seeded scenario: benign and lossy transfers (C01 style), scenarios with hostile "
    "injected datagrams (random bytes, mutated copies of genuine datagrams, truncations), closes with awkward reason phrases, and "
    "HTTP/3 exchanges with header values that are not UTF-8; plus pairs (off, on) of whole HTTP/3 conversations between two real "
    "H3Connections (requests, responses, trailers, server push, WebTransport, datagrams, QPACK-blocked HEADERS and PUSH_PROMISE resumed "
    "by late encoder-stream data, reordering and loss) whose per-stream outcome, termination state and escaping exceptions must agree; "
    "plus pairs against a peer advertising transport parameters aioquic never sends itself (preferred_address, unknown / GREASE ids); "
    "os.urandom is seeded so the runs of a case see the same packet boundaries. "
    "non-trivial = the self-check passed and the logged run recorded at least 5 qlog packet events; distinct = hash(scenario kind, "
    "config, op multiset, fate multiset)."
)
RULE += ' Hostile scenarios include forged ACK_ECN frames and closes with unnamed transport error codes (0x10, 0x11, 0x1234, 2^62-1).'

ASSUMPTIONS = [
    "the traffic secrets reach the independent tap through a harness-side wrapper around the traffic-key callback in all three runs, "
    "so the library's own secrets log is only exercised in the 'on' run",
    "a triple whose two unlogged runs differ (harness nondeterminism) is counted inconclusive, never a violation",
    "packet accounting: transport:packet_sent records must equal the packets the tap saw emitted; packet_received may not exceed, "
    "and packet_received + packet_dropped may not fall short of, the authentic packets delivered while the connection was live",
]


def floors(tier):
    return {"triples_compared": 40, "trace_items_compared": 5000, "qlog_documents_checked": 40, "hostile_injections": 50,
            "h3rt_pairs_compared": 20, "h3rt_blocked_resumes_observed": 5, "h3rt_push_promises_received": 5}


def plan(tier, seed):
    n, per = (240, 4) if tier == "quick" else (12000, 12)
    base = seed * 1000003
    out = [{"gen": "triple", "seeds": [base + i + k for k in range(per)]} for i in range(0, n, per)]
    nh = 12 if tier == "quick" else 200
    for i in range(nh):
        out.insert(i * 3, {"gen": "h3", "seed": base + 900000 + i, "cases": 40})
    for i in range(4 if tier == "quick" else 60):
        out.insert(i * 7 + 2, {"gen": "tp", "seed": base + 700000 + i, "cases": 25})
    nr = 16 if tier == "quick" else 400
    for i in range(nr):
        out.insert(i * 3 + 1, {"gen": "h3rt", "seed": base + 800000 + i, "cases": 6})
    return out


class TraceMonitor:
    """Collects the abstract trace of a run (duck-typed simnet Monitor)."""

    name = "trace"

    def __init__(self):
        self.evaluations = 0
        self.items = []
        self.sent_packets = {"client": 0, "server": 0}
        self.delivered_authentic_live = {"client": 0, "server": 0}
        self.delivered_datagrams_live = {"client": 0, "server": 0}

    def attach(self, sim):
        self.sim = sim

    def on_event(self, ep, ev, t):
        d = {k: v for k, v in vars(ev).items()}
        for k, v in list(d.items()):
            if isinstance(v, (bytes, bytearray)):
                d[k] = "bytes[%d]:%s" % (len(v), h(bytes(v)))
        self.items.append(("event", ep.name, type(ev).__name__, tuple(sorted((k, repr(v)) for k, v in d.items() if k not in ("connection_id",)))))

    def on_datagram_out(self, ep, rec, t):
        pk = []
        for v in rec.views or []:
            if v.ptype == "padding":
                pk.append(("padding", v.size))
                continue
            self.sent_packets[ep.name] += 1
            fr = []
            for f in v.frames:
                fr.append((f["name"],) + tuple(f.get(k) for k in ("stream_id", "offset", "length", "fin", "maximum", "limit", "seq", "retire_prior_to", "error_code", "final_size", "largest")))
            pk.append((v.ptype, v.pn, v.error, tuple(fr)))
        self.items.append(("datagram", ep.name, round(t, 6), len(rec.data), tuple(pk)))

    def on_deliver(self, ep, rec, from_addr, t, altered=False):
        live = ep.conn._state.name in ("FIRSTFLIGHT", "CONNECTED") and not ep.terminated
        if live:
            self.delivered_datagrams_live[ep.name] += 1
            if not altered:
                self.delivered_authentic_live[ep.name] += sum(1 for v in rec.views or [] if v.ptype not in ("padding", "unknown"))
                if rec.sender == "frontend":
                    # a genuine Retry / Version Negotiation packet built by the server's front-end (not shown to the tap)
                    self.delivered_authentic_live[ep.name] += 1

    def after_deliver(self, *a, **k):
        pass

    def before_send(self, *a, **k):
        pass

    def on_step(self, *a, **k):
        pass

    def on_app(self, ep, op, t, outcome):
        self.items.append(("app", ep.name, op["op"], outcome))

    def at_end(self, sim):
        for ep in (sim.client, sim.server):
            if ep is not None:
                self.items.append(("final", ep.name, ep.conn._state.name, ep.terminated, repr(ep.term_event)))


def gen_case(seed):
    from ..scenarios import gen_scenario

    rng = random.Random("c20/%s" % seed)
    kind = rng.choice(["benign", "lossy", "hostile", "hostile", "close"])
    sc = gen_scenario(seed, harsh=0.0 if kind == "benign" else None, allow_key_update=rng.random() < 0.5)
    sc["script"] = [o for o in sc["script"] if not (o["op"] == "write" and o["n"] > 40000)]
    if kind == "benign":
        sc["fates"].update({"loss": 0.0, "dup": 0.0, "jitter": 0.0})
        sc["fates"].pop("blackouts", None)
    if kind == "hostile":
        for i in range(rng.choice([3, 8, 20])):
            side = rng.choice(["client", "server"])
            t = round(rng.random() * 2.0, 4)
            r = rng.random()
            if r < 0.3:
                op = {"t": t, "side": side, "op": "inject", "hex": rng.randbytes(rng.choice([0, 1, 5, 21, 60, 1200])).hex()}
            else:
                sender = "server" if side == "client" else "client"
                op = {"t": t, "side": side, "op": "inject", "of": [sender, rng.randrange(0, 12)],
                      "flips": [[rng.randrange(0, 1500), rng.choice([1, 0x80, 0xFF])] for _ in range(rng.choice([0, 1, 1, 3]))],
                      "trunc": rng.choice([0, 0, 1, 17, 400])}
            sc["script"].append(op)
    r2 = random.Random("c20-forged/%s" % seed)
    if kind == "hostile" and r2.random() < 0.6:
        # authentic-looking but hostile packets (the peer's own keys): ACK frames for packet numbers that were never
        # sent, as the first ACK an endpoint ever processes (Initial space, before the genuine answer arrives) and later
        # in the application space; plus a few other frames a peer may send at any time
        delay = sc["fates"].get("delay", 0.02)
        acks = ["0203000003", "023f000000", "020a0001020103", "02ff7fffffffffffffff000000"[:10] + "0000"]
        # ACK frames with ECN counts (type 0x03): for a packet number that was certainly sent, with small and 8-byte counts
        ecn = ["0300000000" + "010000", "0300000000" + "40c8" + "05" + "c000000000001234", "0301000001" + "000000"]
        for k in ("retry", "frontend_vn"):
            sc["opts"].pop(k, None)
        if r2.random() < 0.7:
            sc["script"].append({"t": round(delay * r2.choice([1.2, 1.5, 1.9]), 5), "side": "client", "op": "forge", "ptype": "initial",
                                 "frames_hex": r2.choice(acks[:3] + ecn[:2]), "pad_to": 1200, "early": True})
        for i in range(r2.choice([1, 2, 4])):
            op = {"t": round(0.3 + r2.random() * 2.0, 4), "side": r2.choice(["client", "server"]), "op": "forge", "ptype": "1rtt",
                  "frames_hex": r2.choice(acks[:3] + ecn + ["01", "1a0102030405060708", "1800"])}
            if r2.random() < 0.3:
                op["first_or"] = r2.choice([0x08, 0x10, 0x18])  # reserved header bits set: a received packet like any other, then a close
                op["frames_hex"] = "01"
            sc["script"].append(op)
    if kind in ("close", "hostile") and rng.random() < 0.7:
        sc["script"].append({"t": round(0.05 + rng.random() * 2.5, 4), "side": rng.choice(["client", "server"]), "op": "close",
                             "code": rng.choice([0, 7, 0x10E, 0x10, 0x11, 0x128, 0x1234, 2**62 - 1]), "frame_type": rng.choice([None, 0, 6]),
                             "reason": rng.choice(["", "bye", "café ☃", "x" * 300, "\x00\x01"])})
    sc["script"].sort(key=lambda o: o["t"])
    sc["horizon"] = sc["fates"]["adv_seconds"] + 60.0
    sc["kind"] = kind
    return sc


def one_run(sc, logging_on):
    """Execute the scenario once. Returns (trace items, raised signature or None, qlog logger, counters)."""
    from aioquic.quic.logger import QuicLogger

    from .. import monitors, simnet

    su = SeededUrandom("c20/%s" % sc["seed"])
    su.install()
    try:
        tm = TraceMonitor()
        dm = monitors.DeliveryModel(forbid_termination=False, completion=False)
        logger = QuicLogger() if logging_on else None
        secrets = io.StringIO() if logging_on else None

        def cfg_hook(ccfg, scfg):
            if logging_on:
                ccfg.quic_logger = logger
                scfg.quic_logger = logger
                ccfg.secrets_log_file = secrets
                scfg.secrets_log_file = secrets

        fates = simnet.Fates(sc["seed"], sc["fates"])
        sim = simnet.SimNet(sc["opts"], fates, sc["script"], [tm, dm], seed=sc["seed"], tap=True, horizon=sc["horizon"],
                            use_keylog=False, config_hook=cfg_hook, key_hook=True)
        raised = None
        try:
            sim.run()
        except simnet.ApiRaised as ar:
            from ..common import exc_signature

            raised = (exc_signature(ar.exc, "api:%s:" % ar.call), repr(ar.exc)[:200])
            tm.items.append(("raised", ar.endpoint, ar.call, type(ar.exc).__name__))
        except Violation as v:
            # delivery violations are C01's business; both runs must agree on them anyway
            tm.items.append(("delivery-violation", v.signature))
        return tm, raised, logger, secrets, sim
    finally:
        su.uninstall()


def first_diff(a, b):
    for i, (x, y) in enumerate(zip(a, b)):
        if x != y:
            return i, x, y
    if len(a) != len(b):
        i = min(len(a), len(b))
        return i, (a[i] if i < len(a) else None), (b[i] if i < len(b) else None)
    return None


def triple(batch, res):
    for seed in batch["seeds"]:
        sc = gen_case(seed)
        case = {"gen": "triple", "seeds": [seed]}
        res.evaluations += 1
        off1, r1, _l, _s, sim1 = one_run(sc, False)
        off2, r2, _l, _s, _sim = one_run(sc, False)
        if off1.items != off2.items or r1 != r2:
            d = first_diff(off1.items, off2.items)
            res.inconclusive.append("self-check failed (seed %s): unlogged runs differ at item %s" % (seed, d[0] if d else "raise"))
            res.count("selfcheck_failed")
            continue
        on, r3, logger, secrets, sim3 = one_run(sc, True)
        res.count("triples_compared")
        res.count("trace_items_compared", len(off1.items))
        res.count("hostile_injections", sum(1 for o in sc["script"] if o["op"] == "inject"))
        res.count("kind_" + sc["kind"])
        if r3 is not None and r1 is None:
            res.violation("logging-only-exception:" + r3[0], "with logging on %s; without logging the same scenario ran through" % (r3[1],), case, {"kind": sc["kind"]})
            continue
        d = first_diff(off1.items, on.items)
        if d is not None:
            i, x, y = d
            what = (x or y)[0]
            detail = ""
            if what == "datagram" and x and y and x[0] == y[0] == "datagram":
                detail = "length" if x[3] != y[3] else "frames"
            elif what == "event":
                detail = (x or y)[2]
            res.violation("trace-differs:%s:%s" % (what, detail), "logged run diverges from the unlogged run at trace item %d: off=%r on=%r" % (i, str(x)[:300], str(y)[:300]), case, {"kind": sc["kind"], "index": i})
            continue
        # ---- document checks
        try:
            doc = logger.to_dict()
            text = json.dumps(doc, allow_nan=False)
            json.loads(text)
        except Exception as exc:
            from ..common import exc_signature, exc_witness

            res.violation("qlog-not-serialisable:" + exc_signature(exc), "json.dumps(QuicLogger.to_dict()) failed: %r" % (exc,), case, exc_witness(exc))
            continue
        res.count("qlog_documents_checked")
        ok = True
        for tr in doc["traces"]:
            side = tr["vantage_point"]["type"]
            names = [e["name"] for e in tr["events"]]
            n_sent = names.count("transport:packet_sent")
            n_recv = names.count("transport:packet_received")
            n_drop = names.count("transport:packet_dropped")
            res.count("qlog_packet_events", n_sent + n_recv + n_drop)
            if n_sent != on.sent_packets[side]:
                res.violation("qlog:packet_sent-count-mismatch", "%s emitted %d packets (tap) but logged %d transport:packet_sent records" % (side, on.sent_packets[side], n_sent), case, None)
                ok = False
                break
            # injected (mutated) copies of genuine datagrams may still contain intact packets
            slack = sum(len(sim3.datagrams[o["of"][0]][o["of"][1]].views or []) for o in sc["script"]
                        if o["op"] == "inject" and "of" in o and o["side"] == side and o["of"][1] < len(sim3.datagrams[o["of"][0]]))
            if n_recv > on.delivered_authentic_live[side] + slack:
                # Retry / Version Negotiation are logged as received too and are counted in the authentic set by the tap
                res.violation("qlog:packet_received-exceeds-delivered", "%s logged %d packet_received records for %d authentic packets delivered" % (side, n_recv, on.delivered_authentic_live[side]), case, None)
                ok = False
                break
            if n_recv + n_drop < on.delivered_datagrams_live[side] and n_recv + n_drop < on.delivered_authentic_live[side]:
                res.violation("qlog:received-packets-unaccounted", "%s: %d packet_received + %d packet_dropped records for %d authentic packets in %d datagrams delivered while live" % (side, n_recv, n_drop, on.delivered_authentic_live[side], on.delivered_datagrams_live[side]), case, None)
                ok = False
                break
        if not ok:
            continue
        if secrets is not None and sim3.client.handshake_complete and "CLIENT_TRAFFIC_SECRET_0" not in secrets.getvalue():
            res.violation("keylog:missing-client-traffic-secret", "handshake completed but the secrets log lacks CLIENT_TRAFFIC_SECRET_0", case, None)
            continue
        if sum(1 for tr in doc["traces"] for e in tr["events"] if e["name"].startswith("transport:packet_")) >= 5:
            from ..scenarios import scenario_signature

            res.nontrivial.add(h(sc["kind"], scenario_signature(sc, sim3.fates.counts)))
        res.sample({"seed": seed, "kind": sc["kind"], "trace_items": len(off1.items), "qlog_events": sum(len(tr["events"]) for tr in doc["traces"]),
                    "injections": sum(1 for o in sc["script"] if o["op"] == "inject"), "raised_in_both": r1[0] if r1 else None}, limit=3)


# ------------------------------------------------------------------ HTTP/3 layer with and without the logger


def h3(batch, res):
    """Same peer stream bytes fed to an H3Connection over a real connected pair, logger off vs on."""
    import pylsqpack
    from aioquic.h3.connection import H3Connection
    from aioquic.quic.events import StreamDataReceived
    from aioquic.quic.logger import QuicLogger

    from .. import frames as F
    from .. import puppet, simnet

    rng = random.Random("c20h3/%s" % batch["seed"])

    def build_pair(logging_on):
        logger = QuicLogger() if logging_on else None
        pair = puppet.HandshakePair({"alpn": ["h3"]})
        if logging_on:
            pair.ccfg.quic_logger = logger
            pair.scfg.quic_logger = logger
            # connections were created in __init__ for the client: rebuild with the logger configured
            from aioquic.quic.connection import QuicConnection

            pair.client = QuicConnection(configuration=pair.ccfg)
        pair.complete()
        return pair, logger

    def headers_block(enc, stream_id, headers):
        _ctrl, block = enc.encode(stream_id, headers)
        return F.enc_varint(0x1) + F.enc_varint(len(block)) + block

    VALUES = [b"plain", b"", b"caf\xc3\xa9", b"\xff\xfe", b"\x80", b"a" * 3000, b"x\xc3", b"ok ok"]
    NAMES = [b"x-a", b"x-b\xc3\xa9", b"x-\xff", b"cookie", b"te"]
    for ci in range(batch["cases"]):
        value = rng.choice(VALUES)
        name = rng.choice(NAMES)
        hdrs = [(b":method", b"GET"), (b":scheme", b"https"), (b":authority", b"localhost"), (b":path", b"/" + rng.choice([b"", b"\xc3\xa9", b"\xff"])), (name, value)]
        body = rng.randbytes(rng.choice([0, 5, 100]))
        chunks = rng.choice([1, 2, 5])
        results = []
        for logging_on in (False, True):
            pair, logger = build_pair(logging_on)
            server_h3 = H3Connection(pair.server)
            enc = pylsqpack.Encoder()
            data = headers_block(enc, 0, hdrs) + F.enc_varint(0x0) + F.enc_varint(len(body)) + body
            evs = []
            raised = None
            step = max(1, len(data) // chunks)
            pos = 0
            try:
                while pos < len(data):
                    part = data[pos : pos + step]
                    pos += len(part)
                    out = server_h3.handle_event(StreamDataReceived(data=part, end_stream=pos >= len(data), stream_id=0))
                    evs.extend((type(e).__name__, tuple(getattr(e, "headers", ()) or ()), len(getattr(e, "data", b"") or b""), getattr(e, "stream_ended", None)) for e in out)
                dg = pair.server.datagrams_to_send(now=pair.now + 0.01)
                evs.append(("datagrams", len(dg)))
                evs.append(("close_pending", repr(pair.server._close_event)))
            except Exception as exc:
                from ..common import exc_signature

                raised = exc_signature(exc)
            doc_ok = None
            if logging_on and raised is None:
                try:
                    json.dumps(logger.to_dict(), allow_nan=False)
                    doc_ok = True
                except Exception as exc:
                    doc_ok = repr(exc)
            results.append((evs, raised, doc_ok))
        res.evaluations += 1
        res.count("h3_pairs_compared")
        res.count("trace_items_compared", len(results[0][0]))
        case = {"gen": "h3", "seed": batch["seed"], "cases": ci + 1}
        (e0, r0, _), (e1, r1, d1) = results
        if r1 is not None and r0 is None:
            res.violation("h3:logging-only-exception:" + r1, "HTTP/3 handle_event raised only with the qlog logger on (header %r: %r)" % (name, value[:20]), case, None)
            break
        if r0 is None and e0 != e1:
            res.violation("h3:events-differ-with-logging", "HTTP/3 events differ with logging on: off=%r on=%r" % (str(e0)[:200], str(e1)[:200]), case, None)
            break
        if d1 not in (None, True):
            res.violation("h3:qlog-not-serialisable", "qlog document with HTTP/3 frames is not JSON serialisable: %s" % d1, case, None)
            break
        res.nontrivial.add(h("h3", name, value[:4], chunks, len(body) > 0))
    res.sample({"gen": "h3", "seed": batch["seed"], "cases": batch["cases"]}, limit=1)


def h3rt(batch, res):
    """Whole HTTP/3 conversations (requests, responses, trailers, server push, WebTransport, datagrams; QPACK
    dynamic table with the encoder stream held back so that header blocks and PUSH_PROMISEs block and resume)
    between two real H3Connections over a real QUIC pair — the C14 round-trip workload — replayed with the same
    seed once without and once with a qlog logger on both endpoints. The per-stream HTTP/3 outcome of both
    endpoints, the termination state and the exceptions escaping handle_event must not depend on logging."""
    from aioquic.quic.connection import QuicConnection
    from aioquic.quic.logger import QuicLogger

    from .. import c14_lib as L
    from .. import puppet
    from ..common import SeededUrandom
    from . import c14

    env = L.Env()
    c14._determinism_shim()
    rng = random.Random("c20h3rt/%s" % batch["seed"])
    for ci in range(batch["cases"]):
        seed = rng.getrandbits(48)
        case = {"gen": "h3rt", "seed": batch["seed"], "cases": ci + 1}
        runs = []
        for logging_on in (False, True):
            logger = QuicLogger() if logging_on else None

            def factory(opts=None, _l=logger):
                pair = puppet.HandshakePair(opts)
                if _l is not None:
                    pair.ccfg.quic_logger = _l
                    pair.scfg.quic_logger = _l
                    pair.client = QuicConnection(configuration=pair.ccfg)
                return pair

            sub = Result()
            cap = []
            su = SeededUrandom(seed)
            su.install()
            try:
                c14._rt_case(env, seed, sub, case, factory, puppet.CLIENT_ADDR, puppet.SERVER_ADDR, capture=cap)
            finally:
                su.uninstall()
            doc_ok = None
            if logger is not None:
                try:
                    json.dumps(logger.to_dict(), allow_nan=False)
                    doc_ok = True
                except Exception as exc:
                    doc_ok = repr(exc)
            sd = sub.as_dict()
            raised = sorted(v["signature"] for v in sd["violations"] if "raised" in v["signature"])
            outcome = [(ep.name, ep.out.norm(), ep.terminated) for ep in cap]
            runs.append((outcome, raised, doc_ok, sd, cap))
        res.evaluations += 1
        res.count("h3rt_pairs_compared")
        (o0, r0, _d0, sd0, cap0), (o1, r1, d1, sd1, cap1) = runs
        res.count("trace_items_compared", sum(len(s["items"]) for _n, o, _t in o0 for s in o["streams"].values()))
        resumes = sum(ep.resumes for ep in cap0)
        res.count("h3rt_blocked_resumes_observed", resumes)
        res.count("h3rt_push_promises_received", sum(1 for _n, o, _t in o0 for s in o["streams"].values() for it in s["items"] if it[0] == "P"))
        if r1 and not r0:
            res.violation("h3rt:logging-only-exception:" + r1[0], "HTTP/3 handle_event raised only with the qlog logger on, same seed and traffic", case, {"signatures": r1})
            break
        if not r0 and o0 != o1:
            d = first_diff(repr(o0), repr(o1))
            res.violation("h3rt:events-differ-with-logging", "HTTP/3 outcome differs with logging on (first difference at char %s)" % (d,), case,
                          {"off": repr(o0)[:600], "on": repr(o1)[:600]})
            break
        if d1 not in (None, True):
            res.violation("h3rt:qlog-not-serialisable", "qlog document of an HTTP/3 conversation is not JSON serialisable: %s" % d1, case, None)
            break
        if logging_on:
            res.count("qlog_documents_checked")
        res.nontrivial.add(h("h3rt", bool(resumes), len(o0[0][1]["streams"]), len(o0[1][1]["streams"]), cap0[0].terminated is None))
    res.sample({"gen": "h3rt", "seed": batch["seed"], "cases": batch["cases"]}, limit=1)


def tp(batch, res):
    """Handshake + short exchange + close against a peer that advertises transport parameters aioquic itself never
    sends (preferred_address with raw connection ID / reset token bytes, unknown and GREASE parameter ids, maximal
    integer values): what the client reports and how it ends must not depend on the qlog logger, logging must not
    raise, and the qlog document must be strict JSON."""
    from aioquic.buffer import Buffer
    from aioquic.quic.connection import QuicConnection
    from aioquic.quic.logger import QuicLogger
    from aioquic.quic.packet import QuicPreferredAddress, pull_quic_transport_parameters, push_quic_transport_parameters

    from .. import frames as F
    from .. import puppet
    from ..common import exc_signature

    rng = random.Random("c20tp/%s" % batch["seed"])
    orig = QuicConnection._serialize_transport_parameters
    for ci in range(batch["cases"]):
        variant = rng.choice(["preferred-v4", "preferred-v6", "preferred-both", "unknown-ids", "all", "all"])
        who = rng.choice(["server", "server", "client-unknown-only"])
        pa = QuicPreferredAddress(
            ipv4_address=("1.2.3.4", 4433) if variant in ("preferred-v4", "preferred-both", "all") else None,
            ipv6_address=("2001:db8::1", 4433) if variant in ("preferred-v6", "preferred-both", "all") else None,
            connection_id=rng.randbytes(rng.choice([0, 4, 8, 20])),
            stateless_reset_token=rng.randbytes(16),
        )
        extra = b""
        if variant in ("unknown-ids", "all"):
            for _ in range(rng.choice([1, 3])):
                pid = rng.choice([31 * rng.randrange(1, 100) + 27, 0x7F00 + rng.randrange(256), 0x3FFFFFFFFFFFFF00 + rng.randrange(256)])
                val = rng.randbytes(rng.choice([0, 1, 8, 40]))
                extra += F.enc_varint(pid) + F.enc_varint(len(val)) + val

        def patched(self, _pa=pa, _extra=extra, _who=who):
            data = orig(self)
            if self._is_client != (_who != "server"):
                return data
            if _who == "server" and variant != "unknown-ids":
                params = pull_quic_transport_parameters(Buffer(data=data))
                params.preferred_address = _pa
                buf = Buffer(capacity=3 * len(data) + 512)
                push_quic_transport_parameters(buf, params)
                data = buf.data
            return data + _extra

        results = []
        for logging_on in (False, True):
            logger = QuicLogger() if logging_on else None
            QuicConnection._serialize_transport_parameters = patched
            raised = None
            evs = []
            try:
                pair = puppet.HandshakePair({"alpn": ["vf"]})
                if logging_on:
                    pair.ccfg.quic_logger = logger
                    pair.scfg.quic_logger = logger
                    pair.client = QuicConnection(configuration=pair.ccfg)
                try:
                    pair.complete()
                    pair.client.send_stream_data(0, b"x" * 300, end_stream=True)
                    pair.roundtrips(2)
                    pair.client.close(error_code=0, reason_phrase="done")
                    pair.roundtrips(2)
                    for _ in range(6):
                        for conn in (pair.client, pair.server):
                            t = conn.get_timer()
                            if t is not None:
                                pair.now = max(pair.now, t)
                                conn.handle_timer(now=pair.now)
                        pair.roundtrips(1)
                except RuntimeError as exc:  # handshake did not complete: an outcome to compare, not an error of the harness
                    evs.append(("handshake-incomplete", str(exc)[:40]))
                except Exception as exc:
                    raised = exc_signature(exc)
                for name in ("client", "server"):
                    evs.append((name, [(type(e).__name__, getattr(e, "error_code", None), len(getattr(e, "data", b"") or b"")) for e in pair.events[name]],
                                (pair.client if name == "client" else pair.server)._state.name if (name == "client" or pair.server is not None) else None))
            finally:
                QuicConnection._serialize_transport_parameters = orig
            doc_ok = None
            if logging_on and raised is None:
                try:
                    json.dumps(logger.to_dict(), allow_nan=False)
                    doc_ok = True
                except Exception as exc:
                    doc_ok = repr(exc)[:200]
            results.append((evs, raised, doc_ok))
        res.evaluations += 1
        res.count("tp_pairs_compared")
        res.count("tp_variant_" + variant)
        case = {"gen": "tp", "seed": batch["seed"], "cases": ci + 1}
        (e0, r0, _), (e1, r1, d1) = results
        if r1 is not None and r0 is None:
            res.violation("tp:logging-only-exception:" + r1, "connection API raised only with the qlog logger on (peer transport parameters: %s by %s)" % (variant, who), case, None)
            break
        if r0 is None and e0 != e1:
            res.violation("tp:events-differ-with-logging", "events / final state differ with logging on (peer transport parameters: %s by %s): off=%r on=%r" % (variant, who, str(e0)[:200], str(e1)[:200]), case, None)
            break
        if d1 not in (None, True):
            res.violation("tp:qlog-not-serialisable", "qlog document is not JSON serialisable after a peer advertised %s (%s): %s" % (variant, who, d1), case, None)
            break
        if d1 is True:
            res.count("qlog_documents_checked")
        res.nontrivial.add(h("tp", variant, who, len(pa.connection_id), len(extra) > 0))
    res.sample({"gen": "tp", "seed": batch["seed"], "cases": batch["cases"]}, limit=1)


def run_batch(batch):
    res = Result()
    t0 = time.time()
    if batch["gen"] == "tp":
        tp(batch, res)
    elif batch["gen"] == "triple":
        triple(batch, res)
    elif batch["gen"] == "h3rt":
        h3rt(batch, res)
    else:
        h3(batch, res)
    res.count("cpu_s_" + batch["gen"], round(time.time() - t0, 2))
    return res.as_dict()
