"""C16 — peer stream bytes can never make the HTTP layers raise.

Totality monitor.  The HTTP layer under test (H3Connection / H0Connection, client and server role)
sits on a REAL, connected QuicConnection (vf.puppet.HandshakePair).  StreamDataReceived /
DatagramFrameReceived events are synthesised from a hostile-stream grammar (vf/c16_gen.py, built
with vf.frames.enc_varint and hand-written QPACK encoders, no aioquic code), appended after valid
prefixes and delivered under seeded chunkings, with the qlog logger off and on.

Oracle per case (each case runs in an os.fork() of a prepared connection, so state never leaks
between cases and a crash of the C QPACK library is seen as a signal death):
  1. every handle_event() call returns a list of H3Event (any exception = violation);
  2. then datagrams_to_send / get_timer / next_event / handle_timer on the transport for 20 steps:
     none may raise;
  3. if the layer called QuicConnection.close(): an independent reader (vf.refwire.Tap, keys from the
     key log) must see an application CONNECTION_CLOSE (0x1d) whose code is an HTTP/3 / QPACK /
     H3_DATAGRAM error code, and every later event must return [] without raising.
"""

from __future__ import annotations

import json
import os
import random
import signal
import traceback

from ..common import Result, exc_signature, exc_witness

PROPERTY = "C16"
BUILD = "plain"
LEVEL = "exploration"
SIGNAL_IS_VIOLATION = True
BUDGET = {"quick": 70, "thorough": 1300}
BATCH_TIMEOUT = {"quick": 300, "thorough": 1800}
RULE = (
    "cases = grammar-enumerated hostile byte strings (every frame type 0x0..0x41+GREASE+2^62-1 x 6 length classes x "
    "{request,push,control,server-bidi} streams; every truncation of valid streams of each kind; SETTINGS / id-frame / "
    "critical-stream / ordering / PUSH_PROMISE / QPACK block / QPACK instruction / header name+value / datagram / "
    "WebTransport / unknown-type families; H0 request lines) plus seeded random compositions, each appended after a valid "
    "prefix (fresh, control+QPACK streams, populated dynamic table, completed / open / trailer-complete / blocked request), "
    "for client and server role, qlog off and on, delivered whole / byte-wise / randomly chunked. A case is non-trivial when "
    "the layer produced HTTP events or closed the connection (or raised); distinct = (protocol, role, stream kind, frame "
    "kind, prefix kind, outcome class) tuples."
)
RULE += " Late additions: prefix ctrl_stopped_late (STOP_SENDING on the victim's critical streams handled by the transport, the StopSendingReceived events reach the HTTP layer only after the hostile bytes); family 'pseudo' (absent / empty / unusual :method :scheme :authority :path :protocol combinations, :status spellings)."

ASSUMPTIONS = [
    "events are synthesised directly (a peer can place any bytes on any stream); only event sequences a real transport "
    "could deliver are generated: peer-initiated streams within the advertised stream/flow-control limits, locally "
    "initiated bidirectional streams only after the local side opened them, no data after FIN, no empty non-FIN event",
    "H3_DATAGRAM_ERROR (0x33, RFC 9297) counts as an HTTP/3 error code next to 0x100..0x110 and 0x200..0x202",
    "a forked case that exceeds its 120 s alarm is inconclusive, not a violation",
]

H3_CODES = set(range(0x100, 0x111)) | {0x200, 0x201, 0x202, 0x33}
CASE_ALARM = 120

REQUEST_HEADERS = [(b":method", b"GET"), (b":scheme", b"https"), (b":authority", b"localhost"), (b":path", b"/"), (b"x-custom", b"abc")]


def floors(tier):
    return {"handle_event_calls": 2000, "transport_calls": 2000, "closes_checked_on_wire": 100, "cases_logger_on": 100,
            "cases_h0": 50, "post_close_events": 100}


def finalize(tier, merged):
    hist = {k[5:]: v for k, v in merged.items() if k.startswith("hist|")}
    classes = {}
    for k, v in hist.items():
        o = k.rsplit("|", 1)[1]
        classes[o] = classes.get(o, 0) + v
    return {"outcome_classes": classes, "histogram_cells": len(hist)}


# ---------------------------------------------------------------------------- plan


def plan(tier, seed):
    from .. import c16_gen as G

    batches = []
    thorough = tier == "thorough"
    per_batch = 450 if not thorough else 900
    for proto, prefixes in (("h3", G.H3_PREFIXES), ("h0", G.H0_PREFIXES)):
        for role in ("server", "client"):
            for prefix in prefixes:
                n = len(G.enumerate_cases(proto, role, prefix, tier, seed))
                keep = 1.0
                if not thorough and proto == "h3":
                    keep = {"fresh": 0.5, "ctrl": 0.5}.get(prefix, 0.22)
                n_eff = int(n * keep) * (1 if not thorough else 3)
                parts = max(1, (n_eff + per_batch - 1) // per_batch)
                for part in range(parts):
                    for logger in (False, True):
                        batches.append({"gen": "enum", "proto": proto, "role": role, "prefix": prefix, "logger": logger,
                                        "wt": bool(part % 2), "part": part, "parts": parts, "keep": keep, "tier": tier,
                                        "seed": seed})
    nrand = 24 if not thorough else 300
    for i in range(nrand):
        role = ("server", "client")[i % 2]
        prefix = G.H3_PREFIXES[(i // 2) % len(G.H3_PREFIXES)]
        for logger in (False, True):
            batches.append({"gen": "rand", "proto": "h3", "role": role, "prefix": prefix, "logger": logger, "wt": bool(i % 3 == 0),
                            "seed": seed * 1000003 + i, "count": 300 if not thorough else 600})
    # spread expensive and cheap batches evenly over the run (deterministic shuffle)
    random.Random(seed).shuffle(batches)
    # one batch of every (protocol, role, logger) class first, so that a run cut short by the budget still meets the floors
    front, rest, seen = [], [], set()
    for b in batches:
        k = (b["proto"], b["role"], b["logger"])
        if k in seen:
            rest.append(b)
        else:
            seen.add(k)
            front.append(b)
    return front + rest


# ---------------------------------------------------------------------------- victim


class Ctx:
    """Hands out stream ids a real transport could deliver events on."""

    def __init__(self, vic):
        self.vic = vic
        self.role = vic.role
        self.proto = vic.proto
        self.prefix = vic.prefix
        self.ctrl = self.qenc = self.qdec = None
        self.open_req = None
        self.dyn = 0
        self.finished = set()
        self._uni = 2 if self.role == "server" else 3
        self._req = 0
        self._srv = 1
        self._push = 0
        self.pool = []  # request streams the local application opened before the peer stopped the critical streams
        self.local_sends_closed = False

    def next_push_id(self):
        self._push += 1
        return self._push - 1

    def new_uni(self):
        sid = self._uni
        self._uni += 4
        return sid

    def new_req(self):
        if self.role == "server":
            sid = self._req
            self._req += 4
            return sid
        # client victim: the local application opens the request stream first
        quic, http = self.vic.quic, self.vic.http
        if self.pool:
            return self.pool.pop(0)
        sid = quic.get_next_available_stream_id()
        if self.local_sends_closed:
            # (the peer stopped the victim's QPACK encoder stream: a local send_headers() is the application's business,
            # not network input; the request stream is opened at the transport level instead)
            quic.send_stream_data(sid, b"", end_stream=False)
            return sid
        http.send_headers(sid, REQUEST_HEADERS, end_stream=True)
        return sid

    def new_srvbidi(self):
        if self.role == "client":
            sid = self._srv
            self._srv += 4
            return sid
        quic, http = self.vic.quic, self.vic.http
        if self.proto == "h3":
            return http.create_webtransport_stream(session_id=0)
        sid = quic.get_next_available_stream_id()
        quic.send_stream_data(sid, b"hello")
        return sid


_SHARE_MODULES = ("aioquic._crypto", "aioquic._buffer", "cryptography", "_cffi_backend", "pylsqpack", "OpenSSL", "logging",
                  "_thread", "service_identity", "_io")


class Base:
    """One genuine handshake per batch.  Every case gets a private deep copy of the connected
    QuicConnection (C-level cipher objects, keys and the configuration are shared by reference; they
    are not mutated) and of the wire tap, so no state leaks between cases.  os.fork() per case would
    give the same isolation but costs 100+ ms here when the machine is busy."""

    def __init__(self, proto, role, logger):
        import gc
        import types

        from aioquic.quic.connection import QuicConnection

        from ..puppet import HandshakePair
        from ..refwire import Tap

        self.proto, self.role, self.logger = proto, role, logger
        pair = HandshakePair(opts={"alpn": ["h3"] if proto == "h3" else ["hq-interop"]})
        if logger:
            from aioquic.quic.logger import QuicLogger

            pair.ccfg.quic_logger = QuicLogger()
            pair.scfg.quic_logger = QuicLogger()
            pair.client = QuicConnection(configuration=pair.ccfg)
        pair.complete()
        self.pair = pair
        self.quic0 = pair.server if role == "server" else pair.client
        if not self.quic0._handshake_confirmed:
            raise RuntimeError("handshake not confirmed on the victim")
        if (self.quic0._quic_logger is not None) != logger:
            raise RuntimeError("logger option did not take effect")
        if self.quic0._quic_logger is not None:
            self.quic0._quic_logger._events.clear()  # what the handshake logged is irrelevant here; keeps copies small
        self.now = pair.now
        tap = Tap({"client": pair.ccfg.connection_id_length, "server": pair.scfg.connection_id_length})
        tap.add_keylog(pair.keylog.getvalue())
        tap.initial_dcids.append(pair.client_odcid)
        tap.client_odcid = pair.client_odcid
        for sender, data in pair.wire:
            tap.on_datagram(sender, data, 0.0)
        tap.packets.clear()
        self.tap0 = tap
        # objects shared between copies
        self.shared = []
        seen = set()
        stack = [self.quic0, self.tap0]
        skip = (type, types.ModuleType, types.FunctionType, types.BuiltinFunctionType, types.CodeType)
        while stack:
            o = stack.pop()
            if id(o) in seen or isinstance(o, skip):
                continue
            seen.add(id(o))
            if type(o).__module__.startswith(_SHARE_MODULES):
                self.shared.append(o)
                continue
            stack.extend(gc.get_referents(o))
        self.selftest()

    def clone(self):
        import copy

        memo = {id(o): o for o in self.shared}
        quic, tap = copy.deepcopy((self.quic0, self.tap0), memo)
        return quic, tap

    def selftest(self):
        """The copy must behave like the original: close it and read the close frame with the tap."""
        quic, tap = self.clone()
        if quic is self.quic0 or quic._loss is self.quic0._loss or quic._cryptos is self.quic0._cryptos:
            raise RuntimeError("harness: clone shares mutable state")
        quic.close(error_code=0x100, reason_phrase="selftest")
        seen = []
        for data, _ in quic.datagrams_to_send(now=self.now):
            for v in tap.on_datagram(self.role, data, self.now):
                if v.error:
                    raise RuntimeError("harness: tap cannot read the clone's packets: %s" % v.error)
                seen += [(f["name"], f.get("error_code")) for f in v.frames]
        if ("CONNECTION_CLOSE_APP", 0x100) not in seen:
            raise RuntimeError("harness: clone self-test saw %r" % (seen,))
        if self.quic0._close_event is not None or self.quic0._close_pending:
            raise RuntimeError("harness: clone self-test touched the original")


class Victim:
    def __init__(self, base, wt, prefix):
        self.base = base
        self.proto, self.role, self.logger, self.prefix = base.proto, base.role, base.logger, prefix
        self.quic, self.tap = base.clone()
        self.now = base.now
        # observe the layer's close() calls from outside
        self.close_calls = []
        orig_close = self.quic.close

        def spy_close(*a, **kw):
            self.close_calls.append((kw.get("error_code", a[0] if a else 0), kw.get("reason_phrase", "")))
            return orig_close(*a, **kw)

        self.quic.close = spy_close
        if self.proto == "h3":
            from aioquic.h3.connection import H3Connection

            self.http = H3Connection(self.quic, enable_webtransport=wt)
        else:
            from aioquic.h0.connection import H0Connection

            self.http = H0Connection(self.quic)
        self.ctx = Ctx(self)
        self.counters = {}
        self.violations = []
        self.http_events = 0
        self.raised = False

    def count(self, k, n=1):
        self.counters[k] = self.counters.get(k, 0) + n

    # ------------------------------------------------------------ oracle part 1: handle_event
    def feed(self, slot, data, fin, stage="hostile"):
        """One synthesised event. Returns False when handle_event raised."""
        from aioquic.h3.events import H3Event
        from aioquic.quic.events import DatagramFrameReceived, StreamDataReceived

        if slot == "event":
            ev, data = data, b""  # a transport event produced by the real QuicConnection (e.g. StopSendingReceived)
        elif slot == "dgram":
            ev = DatagramFrameReceived(data=data)
        else:
            if slot in self.ctx.finished:
                raise RuntimeError("harness: data after FIN on stream %r" % slot)
            if not data and not fin:
                raise RuntimeError("harness: empty non-FIN event")
            ev = StreamDataReceived(data=data, end_stream=fin, stream_id=slot)
            if fin:
                self.ctx.finished.add(slot)
        was_closed = bool(self.close_calls)
        self.count("handle_event_calls")
        try:
            ret = self.http.handle_event(ev)
        except Exception as exc:  # the property: this never happens
            self.raised = True
            sig = mech_signature(exc, self.proto)
            self.violations.append({
                "signature": sig,
                "what": "%s %s: handle_event raised %r on %s (stage %s, logger %s)" % (
                    self.proto, self.role, exc, _brief_event(slot, data, fin), stage, "on" if self.logger else "off"),
                "witness": exc_witness(exc),
            })
            return False
        if not isinstance(ret, list) or not all(isinstance(e, H3Event) for e in ret):
            self.violations.append({"signature": "handle_event:returned-non-event-list", "what": "returned %r" % (ret,), "witness": None})
            return True
        self.http_events += len(ret)
        if was_closed:
            self.count("post_close_events")
            if ret:
                self.violations.append({
                    "signature": "post-close:events-returned",
                    "what": "layer closed the connection (%r) but a later event still produced %r" % (self.close_calls[0], ret[:2]),
                    "witness": None})
        return True

    # ------------------------------------------------------------ oracle part 2: the transport
    def _tcall(self, name, *a, **kw):
        self.count("transport_calls")
        try:
            return getattr(self.quic, name)(*a, **kw)
        except Exception as exc:
            closing = "after-layer-close" if self.close_calls else "no-close"
            sig = exc_signature(exc, "transmit:") + ":" + name + ":" + closing
            self.violations.append({
                "signature": sig,
                "what": "%s %s: QuicConnection.%s raised %r after the HTTP layer handled peer bytes (close calls: %r)" % (
                    self.proto, self.role, name, exc, [(hex(c), len(r)) for c, r in self.close_calls]),
                "witness": exc_witness(exc)})
            raise _TransportRaised()

    def drive(self, steps=20):
        """-> list of PacketViews the victim emitted"""
        views = []
        quiet = 0
        try:
            for _ in range(steps):
                dgrams = self._tcall("datagrams_to_send", now=self.now)
                for data, _addr in dgrams:
                    views.extend(self.tap.on_datagram(self.role, data, self.now))
                t = self._tcall("get_timer")
                while self._tcall("next_event") is not None:
                    pass
                if t is None:
                    quiet += 1
                    if quiet >= 2:
                        break
                    continue
                self.now = max(self.now, t)
                self._tcall("handle_timer", now=self.now)
        except _TransportRaised:
            pass
        return views

    def check_close(self, views):
        """Oracle part 3. Returns outcome string."""
        if not self.close_calls:
            return None
        code = self.close_calls[0][0]
        found = None
        for v in views:
            if v.error:
                raise RuntimeError("harness: tap could not read a victim packet: %s" % v.error)
            for f in v.frames:
                if f["name"] in ("CONNECTION_CLOSE", "CONNECTION_CLOSE_APP") and found is None:
                    found = f
        self.count("closes_checked_on_wire")
        if found is None:
            if not any(s.startswith("transmit:") for s in (v["signature"] for v in self.violations)):
                self.violations.append({
                    "signature": "wire-close:missing", "witness": None,
                    "what": "layer closed with 0x%x but no CONNECTION_CLOSE frame was emitted in 20 transport steps" % code})
        elif found["name"] != "CONNECTION_CLOSE_APP":
            self.violations.append({
                "signature": "wire-close:transport-close-frame", "witness": None,
                "what": "close frame on the wire is a transport CONNECTION_CLOSE (0x1c) code 0x%x, not an application close "
                        "(layer passed 0x%x)" % (found["error_code"], code)})
        elif found["error_code"] not in H3_CODES:
            self.violations.append({
                "signature": "wire-close:not-an-http3-code", "witness": None,
                "what": "application close on the wire carries code 0x%x (layer passed 0x%x)" % (found["error_code"], code)})
        return "closed(0x%x)" % code


class _TransportRaised(Exception):
    pass


def _brief_event(slot, data, fin):
    if slot == "event":
        return "transport event"
    return "%s len=%d fin=%s head=%s" % ("datagram" if slot == "dgram" else "stream %d" % slot, len(data), fin, data[:24].hex())


_H3_FRAMES = {0x0: "DATA", 0x1: "HEADERS", 0x2: "PRIORITY", 0x3: "CANCEL_PUSH", 0x4: "SETTINGS", 0x5: "PUSH_PROMISE",
              0x7: "GOAWAY", 0xD: "MAX_PUSH_ID", 0xE: "DUPLICATE_PUSH", 0x41: "WEBTRANSPORT_STREAM"}
_H3_STREAMS = {0: "control", 1: "push", 2: "qpack-encoder", 3: "qpack-decoder", 0x54: "webtransport"}


def mech_signature(exc, proto):
    """<Type>@<module.function>:<what was being parsed>; 'qlog:' prefix when the logger is on the stack."""
    frames = [f for f, _ in traceback.walk_tb(exc.__traceback__)]
    aio = [f for f in frames if "/aioquic/" in f.f_code.co_filename.replace("\\", "/")]
    prefix = "qlog:" if any(f.f_code.co_filename.endswith("logger.py") for f in aio) else ""
    sig = exc_signature(exc, prefix)
    if prefix:
        return sig  # the logger's function name is the mechanism, whatever frame was being logged
    ctxname = None
    for f in reversed(aio):
        ft = f.f_locals.get("frame_type")
        if isinstance(ft, int):
            ctxname = _H3_FRAMES.get(int(ft), "frame-other")
            if f.f_locals.get("frame_data", b"") is None:
                ctxname += "-resumed"
            break
    if ctxname is None:
        for f in reversed(aio):
            st = f.f_locals.get("stream")
            if st is not None and hasattr(st, "stream_type"):
                if st.stream_type is not None:
                    ctxname = "uni:" + _H3_STREAMS.get(int(st.stream_type), "unknown-type")
                else:
                    ctxname = "bidi-stream" if st.stream_id % 4 < 2 else "uni:untyped"
                break
    if ctxname is None:
        if proto == "h0":
            ctxname = "h0-request-line"
        elif any(f.f_code.co_name == "_receive_datagram" for f in aio):
            ctxname = "datagram"
        else:
            ctxname = "other"
    return sig + ":" + ctxname


# ---------------------------------------------------------------------------- prefixes


def apply_prefix(vic):
    """Valid history before the hostile bytes. Every call is monitored like any other event."""
    from .. import c16_gen as G

    ctx = vic.ctx
    V = G.V
    role = vic.role
    segs = []
    if vic.proto == "h0":
        if vic.prefix in ("req_done", "req_open"):
            sid = ctx.new_req()
            body = b"GET /index.html\r\n" if role == "server" else b"<html>response"
            if vic.prefix == "req_done":
                segs.append((sid, body, True))
            else:
                segs.append((sid, body, False))
                ctx.open_req = sid
    elif vic.prefix != "fresh":
        ctx.ctrl, ctx.qenc, ctx.qdec = ctx.new_uni(), ctx.new_uni(), ctx.new_uni()
        ctrl = V(0) + G.fr(4, G.settings_payload(G.VALID_SETTINGS))
        if role == "server":
            ctrl += G.fr(0xD, V(16))
        segs += [(ctx.ctrl, ctrl, False), (ctx.qenc, V(2) + G.ei_capacity(4096), False), (ctx.qdec, V(3), False)]
        hdr = G.valid_headers_frame(role, [G.f_literal(b"x-prefix", b"1")])
        if vic.prefix == "ctrl_dyn":
            ins = b"".join(G.ei_insert_literal(b"x-custom-%d" % i, b"value-%d" % i) for i in range(5))
            segs.append((ctx.qenc, ins, False))
            ctx.dyn = 5
            sid = ctx.new_req()
            blk = G.block(G.valid_message_fields(role) + [G.f_dynamic(0), G.f_dynamic(4)], ric=5)
            segs.append((sid, G.fr(1, blk) + G.fr(0, b"body"), True))
        elif vic.prefix == "req_done":
            sid = ctx.new_req()
            segs.append((sid, hdr + G.fr(0, b"body"), True))
        elif vic.prefix == "req_open":
            sid = ctx.new_req()
            segs.append((sid, hdr + G.fr(0, b"abc"), False))
            ctx.open_req = sid
        elif vic.prefix == "req_trailers":
            sid = ctx.new_req()
            segs.append((sid, hdr + G.fr(0, b"abc") + G.fr(1, G.block([G.f_literal(b"x-trailer", b"t")])), False))
            ctx.open_req = sid
        elif vic.prefix == "req_blocked":
            sid = ctx.new_req()
            blk = G.block(G.valid_message_fields(role) + [G.f_dynamic(0)], ric=3)
            segs.append((sid, G.fr(1, blk), False))
            ctx.open_req = sid
    for slot, data, fin in segs:
        if not vic.feed(slot, data, fin, stage="prefix"):
            break
    if vic.prefix == "ctrl_stopped" and not vic.raised:
        peer_stops_critical_streams(vic)
    elif vic.prefix == "ctrl_stopped_late" and not vic.raised:
        # ... the same frames, but the StopSendingReceived events are still queued in the transport when the HTTP layer
        # handles what the peer placed on its streams *before* them (STREAM frames earlier in the same packet, or an
        # application that drains events after several datagrams): the sending halves are already reset
        peer_stops_critical_streams(vic, hold=True)
    vic.prefix_events = vic.http_events
    vic.prefix_closed = bool(vic.close_calls)


def peer_stops_critical_streams(vic, hold=False):
    """The peer sends STOP_SENDING for the three unidirectional streams the victim's HTTP/3 layer writes to (control, QPACK
    encoder, QPACK decoder): a legal transport frame for a stream it receives on.  The frame goes through the
    connection's real handler (which resets the sending half and queues StopSendingReceived); the event is fed to the
    HTTP layer like any other.  What the peer then places on its streams must still not make handle_event raise —
    e.g. a header block whose acknowledgement has to be written to the stopped decoder stream."""
    from aioquic import tls
    from aioquic.buffer import Buffer
    from aioquic.quic.connection import QuicReceiveContext

    from .. import c16_gen as G

    http, quic = vic.http, vic.quic
    if vic.role == "client":
        vic.ctx.pool = [vic.ctx.new_req() for _ in range(3)]
    vic.ctx.local_sends_closed = True
    for sid in (http._local_control_stream_id, http._local_encoder_stream_id, http._local_decoder_stream_id):
        if sid is None:
            raise RuntimeError("harness: HTTP/3 layer has not opened its unidirectional streams")
        rc = QuicReceiveContext(epoch=tls.Epoch.ONE_RTT, host_cid=quic.host_cid, network_path=quic._network_paths[0],
                                quic_logger_frames=[], time=vic.now, version=quic._version)
        quic._handle_stop_sending_frame(rc, 0x05, Buffer(data=G.V(sid) + G.V(0x10C)))
        while not hold:
            ev = quic.next_event()
            if ev is None:
                break
            vic.count("transport_events_fed_after_stop_sending")
            if not vic.feed("event", ev, False, stage="prefix"):
                return


# ---------------------------------------------------------------------------- chunking


def chunk_events(segs, mode, cseed):
    """segments -> list of (slot, data, fin) events; never an empty non-FIN event."""
    rng = random.Random(cseed)
    per = []
    for slot, data, fin in segs:
        if slot == "dgram":
            per.append([(slot, data, False)])
            continue
        if not data and not fin:
            continue
        pieces = []
        n = len(data)
        m = mode
        if m == "bytes" and n > 300:
            m = "rand"
        if m == "whole" or n <= 1:
            pieces = [data] if data else []
        elif m == "bytes":
            pieces = [data[i:i + 1] for i in range(n)]
        else:
            k = rng.randrange(1, 7)
            cuts = sorted(set(rng.randrange(1, n) for _ in range(k)))
            if rng.random() < 0.5:
                cuts = sorted(set(cuts + [rng.choice([1, 2, n - 1])]))
            cuts = [c for c in cuts if 0 < c < n]
            last = 0
            for c in cuts + [n]:
                if c > last:
                    pieces.append(data[last:c])
                    last = c
        evs = [(slot, pc, False) for pc in pieces]
        if fin:
            if evs and (m == "whole" or rng.random() < 0.5):
                evs[-1] = (slot, evs[-1][1], True)
            else:
                evs.append((slot, b"", True))
        per.append(evs)
    if mode == "rand" and len(per) > 1 and rng.random() < 0.5:
        # interleave streams, keeping per-segment order and the order of segments on the same stream
        out = []
        queues = [list(q) for q in per]
        while any(queues):
            heads = []
            blocked = set()
            for i, q in enumerate(queues):
                if not q:
                    continue
                s = q[0][0]
                if s != "dgram" and s in blocked:
                    continue
                heads.append(i)
                blocked.update(x[0] for x in q if x[0] != "dgram")
            i = rng.choice(heads)
            out.append(queues[i].pop(0))
        return out
    return [e for q in per for e in q]


# ---------------------------------------------------------------------------- one case (runs in a forked child)


def exec_case(base, wt, prefix, case):
    """Fresh copy of the connection, fresh HTTP layer, valid prefix, hostile bytes, transport drive."""
    from .. import c16_gen as G

    vic = Victim(base, wt, prefix)
    apply_prefix(vic)
    prefix_viol = len(vic.violations)
    for v in vic.violations:
        v["signature"] += ":in-valid-prefix"
    closed_ok = prefix == "ctrl_stopped" and vic.prefix_closed and vic.close_calls[0][0] == 0x104  # H3_CLOSED_CRITICAL_STREAM
    prefix_ok = not ((vic.prefix_closed and not closed_ok) or vic.raised or (
        prefix != "fresh" and vic.prefix_events == 0 and prefix not in ("ctrl", "req_blocked", "ctrl_stopped", "ctrl_stopped_late")))
    ctx = vic.ctx
    base_events = vic.http_events
    segs, label = G.build(case, ctx) if case is not None else ([], ("-", "-"))
    events = chunk_events(segs, case.get("chunk", "whole"), case.get("cseed", 0)) if case is not None else []
    if not vic.raised:
        for slot, data, fin in events:
            if slot != "dgram" and slot in ctx.finished:
                continue  # a composition placed data after FIN: not deliverable by a transport
            if not vic.feed(slot, data, fin):
                break
    if prefix == "ctrl_stopped_late" and not vic.raised:
        # the held-back StopSendingReceived events reach the HTTP layer now
        while True:
            ev = vic.quic.next_event()
            if ev is None:
                break
            vic.count("transport_events_fed_after_stop_sending")
            if not vic.feed("event", ev, False):
                break
    views = vic.drive()
    closed = vic.check_close(views)
    if closed and not vic.raised:
        # the layer must stay quiet from now on
        later = [("dgram", G.V(0) + b"late", False), (ctx.new_uni(), G.V(0x21) + b"late", False),
                 (ctx.new_uni(), G.V(1) + G.V(7) + G.valid_headers_frame("client"), True)]
        if vic.role == "server":
            later.append((ctx.new_req(), G.valid_headers_frame("server"), True))
        elif ctx.open_req is not None and ctx.open_req not in ctx.finished:
            later.append((ctx.open_req, G.fr(0, b"late"), True))
        for slot, data, fin in later:
            if not vic.feed(slot, data, fin, stage="after-close"):
                break
        vic.drive(steps=3)
    if vic.raised:
        outcome = "raised"
    elif closed:
        outcome = closed
    elif vic.http_events > base_events:
        outcome = "events"
    else:
        outcome = "ignored"
    return {"label": list(label), "outcome": outcome, "viol": vic.violations, "counters": vic.counters,
            "n_events": len(events), "bytes": sum(len(s[1]) for s in segs), "prefix_ok": prefix_ok,
            "prefix_events": vic.prefix_events, "prefix_viol": prefix_viol}


def _dumps(out):
    return json.dumps(out, default=lambda o: o.hex() if isinstance(o, (bytes, bytearray)) else repr(o)).encode()


def fork_group(base, wt, prefix, cases):
    """Run cases one after the other in ONE forked child (each on its own copy of the connection);
    results stream back line by line so that a signal death is attributed to the case in progress.
    -> (list of result dicts for the completed cases, death signal | None)"""
    r, w = os.pipe()
    pid = os.fork()
    if pid == 0:
        code = 0
        try:
            os.close(r)
            for case in cases:
                signal.alarm(CASE_ALARM)
                try:
                    out = exec_case(base, wt, prefix, case)
                except BaseException:
                    out = {"harness_error": traceback.format_exc()[-3000:]}
                data = _dumps(out) + b"\n"
                pos = 0
                while pos < len(data):
                    pos += os.write(w, data[pos:pos + 65536])
            signal.alarm(0)
        except BaseException:
            code = 3
        finally:
            os._exit(code)
    os.close(w)
    buf = bytearray()
    while True:
        b = os.read(r, 1 << 16)
        if not b:
            break
        buf += b
    os.close(r)
    _, status = os.waitpid(pid, 0)
    outs = [json.loads(line) for line in bytes(buf).split(b"\n") if line.strip() and line.endswith(b"}")]
    if os.WIFSIGNALED(status):
        return outs, os.WTERMSIG(status)
    if len(outs) != len(cases):
        raise RuntimeError("forked group returned %d of %d results (status %r)" % (len(outs), len(cases), status))
    return outs, None


# ---------------------------------------------------------------------------- batch


def _select_cases(batch):
    from .. import c16_gen as G

    if batch["gen"] == "replay":
        return [dict(c) for c in batch["cases"]]
    if batch["gen"] == "rand":
        rng = random.Random(batch["seed"])
        out = []
        for i in range(batch["count"]):
            out.append({"fam": "rand", "p": [rng.getrandbits(40)], "chunk": rng.choice(["whole", "rand", "rand", "bytes"]),
                        "cseed": rng.getrandbits(30)})
        return out
    cases = G.enumerate_cases(batch["proto"], batch["role"], batch["prefix"], batch["tier"], batch["seed"])
    rng = random.Random("sel/%s/%s/%s/%d" % (batch["proto"], batch["role"], batch["prefix"], batch["seed"]))
    # identical selection and chunking for the logger-off and logger-on twin
    picked = []
    thorough = batch["tier"] == "thorough"
    for c in cases:
        if batch["keep"] < 1.0 and rng.random() >= batch["keep"]:
            continue
        if thorough:
            modes = ["whole", "rand", "bytes" if rng.random() < 0.5 else "rand"]
        else:
            modes = [rng.choice(["whole", "rand", "rand", "bytes"])]
        for m in modes:
            d = dict(c)
            d["chunk"] = m
            d["cseed"] = rng.getrandbits(30)
            picked.append(d)
    return [c for i, c in enumerate(picked) if i % batch["parts"] == batch["part"]]


GROUP = 120


class _CaseAlarm(BaseException):
    pass


def _on_alarm(signum, frame):
    raise _CaseAlarm()


def run_batch(batch):
    import time

    cpu0 = time.process_time()
    res = Result()
    proto, role, logger, prefix = batch["proto"], batch["role"], bool(batch["logger"]), batch["prefix"]
    wt = bool(batch.get("wt"))
    cases = _select_cases(batch)
    base = Base(proto, role, logger)
    res.count("connections_prepared")

    def replay_case(case_list):
        return {"gen": "replay", "proto": proto, "role": role, "logger": logger, "prefix": prefix, "wt": wt, "cases": case_list}

    if not cases:  # replay of a violation inside the valid prefix
        cases = [None]
    todo = list(cases)
    bad_prefix = 0
    # A forked child runs ~10x slower here (copy-on-write faults), so cases normally run in this process, each on its own
    # deep copy of the connection; a crash of the C QPACK code then kills the batch process, which the runner reports as a
    # signal violation for the batch (SIGNAL_IS_VIOLATION). Replays fork per case so that a crash is attributed exactly.
    use_fork = batch["gen"] == "replay" or bool(os.environ.get("VF_C16_FORK"))
    if not use_fork:
        import faulthandler

        faulthandler.enable()
        signal.signal(signal.SIGALRM, _on_alarm)
    while todo:
        g = 1 if batch["gen"] == "replay" else GROUP
        group, todo = todo[:g], todo[g:]
        if use_fork:
            outs, sig = fork_group(base, wt, prefix, group)
        else:
            outs, sig = [], None
            for c in group:
                signal.alarm(CASE_ALARM)
                try:
                    outs.append(exec_case(base, wt, prefix, c))
                except _CaseAlarm:
                    res.inconclusive.append("case %r: exceeded the %d s alarm" % (c, CASE_ALARM))
                    outs.append(None)
                finally:
                    signal.alarm(0)
        if sig is not None:
            culprit = group[len(outs)]
            todo = group[len(outs) + 1:] + todo
            name = signal.Signals(sig).name if sig in [x.value for x in signal.Signals] else str(sig)
            if sig == signal.SIGALRM:
                res.inconclusive.append("case %r: exceeded the %d s alarm" % (culprit, CASE_ALARM))
            else:
                res.evaluations += 1
                res.count("hist|%s|%s|%s|%s|%s|%s" % (proto, role, "-", (culprit or {}).get("fam", "prefix"), prefix, "signal"))
                res.violation("signal:%s:%s-%s" % (name, proto, (culprit or {}).get("fam", "prefix")),
                              "process died on %s while the HTTP layer handled peer bytes" % name,
                              replay_case([culprit] if culprit else []), {"case": culprit})
        for case, out in zip(group, outs):
            if out is None:
                continue
            if out.get("harness_error"):
                raise RuntimeError("case %r: %s" % (case, out["harness_error"]))
            res.evaluations += 1
            sk, fk = out["label"]
            outcome = out["outcome"]
            res.count("hist|%s|%s|%s|%s|%s|%s" % (proto, role, sk, fk, prefix, outcome))
            res.count("cases_%s" % proto)
            res.count("cases_logger_on" if logger else "cases_logger_off")
            res.count("cases_chunk_%s" % (case or {}).get("chunk", "whole"))
            res.count("events_synthesised", out["n_events"])
            res.count("hostile_bytes", out["bytes"])
            res.count("prefix_http_events", out["prefix_events"])
            if not out["prefix_ok"]:
                bad_prefix += 1
            for k, v in out["counters"].items():
                res.count(k, v)
            if outcome != "ignored":
                res.nontrivial.add("%s|%s|%s|%s|%s|%s" % (proto, role, sk, fk, prefix, outcome))
            for i, v in enumerate(out["viol"]):
                res.violation(v["signature"], v["what"], replay_case([] if i < out["prefix_viol"] else [case]), v["witness"])
            if outcome != "ignored":
                res.sample({"proto": proto, "role": role, "prefix": prefix, "logger": logger, "case": case, "label": out["label"],
                            "outcome": outcome, "events": out["n_events"], "bytes": out["bytes"]}, limit=2)
    if bad_prefix:
        # the valid prefix is supposed to be accepted; otherwise the batch explores less than it claims
        res.count("prefix_not_established", bad_prefix)
        if not any(":in-valid-prefix" in v["signature"] for v in res.violations):
            res.inconclusive.append("prefix %s/%s/%s did not establish the intended state in %d cases" % (proto, role, prefix, bad_prefix))
    res.counters["cpu_s"] = round(time.process_time() - cpu0, 3)
    return res.as_dict()
