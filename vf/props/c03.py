"""C03 — handshake completes only with the authentic peer and both sides agree.

(a) transcript integrity: every byte of every handshake message altered in transit between two
    real tls.Context objects (vf/c03_tls.py);
(b) negative authentication: unacceptable certificates, hostile CertificateVerify, PSK impostors,
    at TLS level and through real QuicConnections (vf/c03_tls.py, vf/c03_quic.py);
(c) agreement matrix: sampled product of configuration options through real QuicConnections on
    the simulated lossy network with a Version-Negotiation/Retry front-end (vf/c03_quic.py);
(d) on-path alteration of ClientHello/ServerHello inside re-protected Initial packets.
The parent process imports only this file's plan(); aioquic is imported inside run_batch.
"""

from __future__ import annotations

import time

from ..common import Result

PROPERTY = "C03"
BUILD = "plain"
LEVEL = "exploration"
BUDGET = {"quick": 70, "thorough": 1400}
BATCH_TIMEOUT = {"quick": 300, "thorough": 1800}
RULE = (
    "(a) per configuration (RSA/P-256/Ed25519 server key x client-certificate request x PSK resumption) one fresh "
    "back-to-back TLS handshake per alteration of every message except NewSessionTicket: byte XOR (quick: every 3rd byte + field "
    "boundaries x {01,80,FF}; header/length bytes x every value-decreasing mask, x all 255 where they delimit verify_data/"
    "signature/binder; thorough: every byte x 9 masks, header/length bytes x 255), multi-byte length fields set to smaller "
    "values, verify_data/signature/binder resized to every shorter length (+1,+16) with enclosing lengths fixed up; non-trivial = the altered message was delivered and the receiver's "
    "fate classified; distinct = (config, message, field, outcome class). (b) hostile-server cases x 5 key types, distinct = "
    "(case, key type, rejection reason). (c) seeded samples of key type x suite lists x version lists/original version x ALPN "
    "lists x fresh/resumed/0-RTT x retry x client-cert request x loss/reorder fates; non-trivial = outcome decided by the "
    "agreement/must-fail/progress oracle; distinct = hash(option tuple, outcome). (d) byte x mask of ClientHello/ServerHello "
    "inside re-protected Initial packets, distinct = (version, message, field, outcome)."
)
RULE += ' Part (c) ends every completed handshake with a stray Version Negotiation packet and a stray Retry packet (built from the connection IDs on the wire) delivered to the client: version, TLS state, cipher suite and 1-RTT keys must stay what both sides agreed on.'

ASSUMPTIONS = [
    "an exception of any type raised by the endpoint that receives an altered message counts as 'did not complete' (typing is C05's subject)",
    "completion is read from tls.Context.state / the 1-RTT receive secret callback (TLS level) and HandshakeCompleted events (QUIC level)",
    "one ALPN list being None is an 'either' region (neither completion nor failure demanded); with shared options completion is "
    "demanded within the fair phase (<= 100 virtual s, loss only during the first <= 2.5 s / 60 datagrams)",
    "client-certificate request is switched on through the TLS engine's _request_client_certificate flag (no public QUIC option exists)",
    "CLIENT_EARLY_TRAFFIC_SECRET is compared only when both endpoints logged it (server logs it only when it accepts 0-RTT)",
]

A_CONFIG_NAMES = [
    "rsa", "p256+alpn+tickets", "ed25519+chacha", "rsa+clientcert-p256", "ed25519+clientcert-none", "p256+clientcert-rsa",
    "p384+clientcert-ed448", "ed448+aes256", "psk-sha384", "psk-sha256+alpn",
]
ALL_MASKS = [0x01, 0x02, 0x04, 0x08, 0x10, 0x20, 0x40, 0x80, 0xFF]


def floors(tier):
    # ~10 % of what a quick run reaches even when a loaded machine lets the budget skip most batches
    return {
        "a_alterations": 2000,
        "a_reference_handshakes": 3,
        "b_tls_negative_cases": 20,
        "b_tls_positive_controls": 8,
        "b_quic_negative_cases": 6,
        "c_agreement_evaluated": 30,
        "c_mustfail_evaluated": 10,
        "c_secret_labels_compared": 100,
        "d_alterations:ClientHello": 100,
        "d_alterations:ServerHello": 30,
    }


def finalize(tier, merged):
    return {
        "alterations_tls": int(merged.get("a_alterations", 0)),
        "alterations_initial_packets": int(merged.get("d_alterations:ClientHello", 0) + merged.get("d_alterations:ServerHello", 0)),
        "handshake_configurations": int(merged.get("c_agreement_evaluated", 0) + merged.get("c_mustfail_evaluated", 0)),
        # quick: every 3rd byte with 3 masks, thorough: every byte with 9 masks — a sweep of positions, not of the input space
        "exhaustive": False,
        "alteration_sweep_scope": "byte positions x masks of the recorded messages of the 10 TLS-level configurations" if merged.get("a_alterations", 0) else "none",
    }


def plan(tier, seed):
    quick = tier != "thorough"
    head = [
        {"gen": "b_negauth_tls"},
        {"gen": "e_names", "seed": seed},
        {"gen": "q_negauth", "kinds": ["rsa", "p256"]},
        {"gen": "q_negauth", "kinds": ["p384", "ed25519", "ed448"]},
    ]
    # (a) quick: every 3rd byte + every field boundary with masks 01/80/FF; every handshake-header byte and every
    #     located length field with ALL value-decreasing masks (type byte: every other known type); all 255 masks on
    #     the length bytes delimiting authenticated values (Finished, CertificateVerify, PSK binder); explicit
    #     resize-with-fix-up of verify_data / signature / binder to every shorter length (and +1, +16).
    #     thorough: every byte, 9 masks; all 255 masks on every header byte and length field.
    a = []
    nshards = 4 if quick else 10
    for s in range(nshards):  # shard-major: a budget cut-off costs depth, not configurations
        for name in A_CONFIG_NAMES:
            a.append({"gen": "a_flip", "config": name, "seed": seed, "shard": s, "nshards": nshards, "stride": 3 if quick else 1,
                      "masks": [0x01, 0x80, 0xFF] if quick else ALL_MASKS, "full_length_masks": not quick})
    # (c)
    ncases, per = (5000, 100) if quick else (200000, 500)
    base = seed * 1000003
    c = [{"gen": "c_matrix", "range": [base + i, base + i + per]} for i in range(0, ncases, per)]
    # (d)
    d = []
    for version, key in (("v1", "p256"), ("v2", "ed25519")) if quick else (("v1", "p256"), ("v2", "ed25519"), ("v1", "rsa"), ("v2", "p384")):
        for which, nsh in (("ServerHello", 1 if quick else 2), ("ClientHello", 2 if quick else 6)):
            for s in range(nsh):
                d.append({"gen": "d_initial_flip", "version": version, "which": which, "seed": seed, "stride": 1, "shard": s, "nshards": nsh,
                          "key": key, "masks": [0x01, 0x80, 0xFF] if quick else ALL_MASKS, "full_length_masks": not quick})
    # interleave so that a budget cut-off loses a bit of everything rather than all of one part
    out = list(head)
    while a or c or d:
        for lst, n in ((d, 1), (a, 2), (c, 4 if quick else 8)):
            for _ in range(n):
                if lst:
                    out.append(lst.pop(0))
    return out


def run_batch(batch):
    from .. import c03_names as N
    from .. import c03_quic as Q
    from .. import c03_tls as T

    gens = {
        "a_flip": T.a_flip,
        "b_negauth_tls": T.b_negauth_tls,
        "c_matrix": Q.c_matrix,
        "q_negauth": Q.q_negauth,
        "d_initial_flip": Q.d_initial_flip,
        "e_names": N.e_names,
    }
    res = Result()
    t0 = time.process_time()
    gens[batch["gen"]](batch, res)
    res.count("cpu_s_" + batch["gen"], round(time.process_time() - t0, 2))
    return res.as_dict()
