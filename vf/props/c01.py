"""C01 — reliable, ordered, exactly-once stream delivery over any lossy network.

History + executable model: the model is "the bytes that were written" (self-identifying
PRF bytes); the monitor (vf.monitors.DeliveryModel) checks prefix / no gap / no repeat /
end-of-stream at most once and only after everything / no spurious reset / no
termination / bounded completion in the fair phase, on real QuicConnection pairs driven
by vf.simnet over seeded hostile networks.
"""

from __future__ import annotations

import time

from ..common import Result, Violation, h

PROPERTY = "C01"
LEVEL = "exploration"
BUDGET = {"quick": 70, "thorough": 1500}
BATCH_TIMEOUT = {"quick": 300, "thorough": 1200}
RULE = (
    "cases = seeded (configuration x application script x per-datagram fate function) scenarios run on two real "
    "QuicConnections over a virtual-time network (adversarial phase: drop/duplicate/delay-reorder/blackout/client rebinding; "
    "then a fair phase); 'targeted' cases first record a fault-free run, locate the datagram that carries a chosen frame "
    "(FIN, RESET_STREAM, PATH_RESPONSE, HANDSHAKE_DONE, first flights, ...) and re-run with that datagram duplicated / "
    "dropped / delayed; 'kuloss' cases let one endpoint update its keys one to three times while everything it sends is lost and "
    "the peer keeps talking in the previous key phase. non-trivial =at least one datagram was dropped, duplicated or delayed AND at least one stream "
    "delivered its end-of-stream; distinct = hash of (cc, versions, datagram size, bucketed op-kind multiset, bucketed fate multiset)."
)
RULE += " Directed generators added late: 'blocked' (receiver advertises 1.5-20 kB windows, sender writes 2-10x that, the whole flight is lost right after the write) and 'cidlate' (the datagram carrying NEW_CONNECTION_ID frames is held back, the frames are retransmitted and the receiver changes its connection ID twice before the late copy arrives)."

ASSUMPTIONS = [
    "the driver (vf.simnet) calls the sans-IO API as documented: transmit after every call, timer fired at the requested deadline",
    "bounded completion is demanded within the fair phase (>= 150 virtual seconds after the adversarial phase), not 'eventually'",
    "application scripts obey API preconditions (no write after FIN/reset; replies only on streams the peer has opened)",
]


def floors(tier):
    return {"delivery_evaluations": 500, "bytes_checked": 100000, "end_events": 20}


def plan(tier, seed):
    n_rand, n_targ, per = (640, 160, 10) if tier == "quick" else (24000, 4000, 25)
    batches = []
    base = seed * 1000003
    for i in range(0, n_rand, per):
        batches.append({"gen": "random", "seeds": [base + i + k for k in range(per)]})
    for i in range(0, n_targ, per):
        batches.append({"gen": "targeted", "seeds": [base + 500000 + i + k for k in range(per)]})
    # interleave so the budget cut-off does not starve one generator
    out = []
    r = [b for b in batches if b["gen"] == "random"]
    t = [b for b in batches if b["gen"] == "targeted"]
    n_ku = 80 if tier == "quick" else 2000
    k = [{"gen": "kuloss", "seeds": [base + 800000 + i + j for j in range(per)]} for i in range(0, n_ku, per)]
    n_sp = 40 if tier == "quick" else 1000
    sp = [{"gen": "stalepath", "seeds": [base + 900000 + i + j for j in range(per)]} for i in range(0, n_sp, per)]
    n_bl = 60 if tier == "quick" else 1500
    bl = [{"gen": "blocked", "seeds": [base + 950000 + i + j for j in range(per)]} for i in range(0, n_bl, per)]
    n_cl = 30 if tier == "quick" else 750
    bl += [{"gen": "cidlate", "seeds": [base + 960000 + i + j for j in range(per)]} for i in range(0, n_cl, per)]
    while r or t or k or sp or bl:
        if bl:
            out.append(bl.pop(0))
        for _ in range(4):
            if r:
                out.append(r.pop(0))
        if t:
            out.append(t.pop(0))
        if k:
            out.append(k.pop(0))
        if sp:
            out.append(sp.pop(0))
    return out


def kuloss_case(seed):
    """Directed: one endpoint updates its keys (once, twice, three times) while everything it sends is lost for a
    while and the peer's packets — still protected with the previous generation — keep arriving; then the network
    is fair. Whatever the endpoint believes about the peer having seen its update must not desynchronise the key
    phases: everything written is still delivered."""
    import random

    from ..scenarios import gen_scenario

    rng = random.Random("kuloss/%s" % seed)
    sc = gen_scenario(seed, harsh=0.0, allow_key_update=False, allow_stop=False)
    a = rng.choice(["client", "server"])
    b = "server" if a == "client" else "client"
    t0 = rng.choice([0.6, 1.0, 1.7])
    dur = rng.choice([0.2, 0.5, 1.0, 2.5])
    direction = "c2s" if a == "client" else "s2c"
    sc["fates"] = {"delay": sc["fates"]["delay"], "adv_seconds": t0 + dur + 0.5, "adv_dgrams": 10**6, "loss": rng.choice([0.0, 0.0, 0.05]),
                   "blackouts": [[t0 - 0.002, t0 + dur, direction]]}
    base_a = 0 if a == "client" else 1
    base_b = 0 if b == "client" else 1
    script = [o for o in sc["script"] if o["op"] in ("write", "ping") and o["t"] < t0 - 0.1]
    n_updates = rng.choice([1, 2, 2, 2, 3])
    times = sorted(rng.random() * dur for _ in range(n_updates - 1))
    script.append({"t": round(t0, 4), "side": a, "op": "key_update"})
    script.append({"t": round(t0 + 0.001, 4), "side": a, "op": "write", "sid": base_a + 4 * 60, "n": rng.choice([600, 5000, 30000]), "fin": True})
    # the peer keeps talking in its old key phase during the blackout
    for i in range(rng.choice([1, 3, 6])):
        script.append({"t": round(t0 + dur * (i + 0.5) / 7, 4), "side": b, "op": "write", "sid": base_b + 4 * (61 + i), "n": rng.choice([100, 1500, 4000]), "fin": True})
    for i, x in enumerate(times):
        script.append({"t": round(t0 + x, 4), "side": a, "op": "key_update"})
        script.append({"t": round(t0 + x + 0.001, 4), "side": a, "op": "write", "sid": base_a + 4 * (70 + i), "n": rng.choice([300, 3000]), "fin": True})
    if rng.random() < 0.5:
        script.append({"t": round(t0 + dur + rng.choice([0.0, 0.05, 0.4]), 4), "side": rng.choice([a, b]), "op": "key_update"})
    script.sort(key=lambda o: o["t"])
    sc["script"] = script
    sc["horizon"] = t0 + dur + 160.0
    return sc


def blocked_case(seed):
    """Directed: the receiver advertises small flow-control windows (a legal configuration), the sender writes far more
    than that — after its first flight it is blocked by flow control with data still waiting — and the whole outstanding
    flight (or the receiver's window updates) is lost for a while; then the network is fair. Probe timeouts have to keep
    eliciting acknowledgements although nothing new may be sent."""
    import random

    from ..scenarios import gen_config

    rng = random.Random("blocked/%s" % seed)
    opts = gen_config(rng)
    for k in ("retry", "frontend_vn"):
        opts.pop(k, None)
    if opts.get("versions_server") == ["v1"]:
        opts.pop("versions_server")
    a = rng.choice(["client", "server"])
    b = "server" if a == "client" else "client"
    which = rng.choice(["stream", "stream", "connection", "both"])
    w = rng.choice([1500, 2000, 4000, 8000, 20000])
    if which in ("stream", "both"):
        opts["max_stream_data_" + b] = w
    if which in ("connection", "both"):
        opts["max_data_" + b] = w if which == "connection" else rng.choice([w, 2 * w])
    t0 = rng.choice([0.4, 0.7, 1.3])
    dur = rng.choice([0.3, 1.0, 3.0, 6.0])
    direction = rng.choice([None, None, "c2s" if a == "client" else "s2c", "s2c" if a == "client" else "c2s"])
    black = [t0 + rng.choice([0.0005, 0.003]), t0 + dur] + ([direction] if direction else [])
    delay = rng.choice([0.005, 0.02, 0.05])
    fates = {"delay": delay, "adv_seconds": t0 + dur + 0.5, "adv_dgrams": 10**6, "loss": 0.0, "blackouts": [black]}
    uni = rng.random() < 0.3
    sid = (0 if a == "client" else 1) + (2 if uni else 0) + 4 * 50
    script = [{"t": t0, "side": a, "op": "write", "sid": sid, "n": w * rng.choice([2, 3, 10]) + rng.choice([0, 1, 777]), "fin": True}]
    if rng.random() < 0.4:
        script.append({"t": t0, "side": a, "op": "write", "sid": sid + 4, "n": rng.choice([100, w, 3 * w]), "fin": True})
    if rng.random() < 0.3:
        script.append({"t": t0 + dur * 0.5, "side": a, "op": "ping", "uid": 77})
    script.sort(key=lambda o: o["t"])
    return {"seed": seed, "opts": opts, "fates": fates, "script": script, "lateness": 0.0, "horizon": t0 + dur + 200.0}


def stalepath_case(seed):
    """Directed: a download (the client only acknowledges) during which the client's address is rebound; the last
    datagram the client sent from its *old* address is held back and arrives after the server has moved to the new
    address, at a moment when the server is quiet; later the server writes again. A late, lower-numbered packet must not
    move the connection back to the dead address."""
    import random

    from .. import simnet
    from ..scenarios import gen_config

    rng = random.Random("stalepath/%s" % seed)
    opts = gen_config(rng)
    for k in ("retry", "frontend_vn"):
        opts.pop(k, None)
    if opts.get("versions_server") == ["v1"]:
        opts.pop("versions_server")
    delay = rng.choice([0.01, 0.02, 0.05])
    fates = {"delay": delay, "adv_seconds": 0.0, "rebind_after": rng.choice([5, 7, 9, 12])}
    sid = rng.choice([1, 3])
    t1 = 0.5
    t2 = t1 + rng.choice([1.5, 2.5])
    script = [{"t": t1, "side": "server", "op": "write", "sid": sid, "n": rng.choice([15000, 30000, 60000]), "fin": False},
              {"t": t2, "side": "server", "op": "write", "sid": sid, "n": rng.choice([1, 5000]), "fin": True}]
    sc = {"seed": seed, "opts": opts, "fates": fates, "script": script, "lateness": 0.0, "horizon": t2 + 160.0}
    # first pass: where does the rebinding take effect?
    sim = simnet.SimNet(opts, simnet.Fates(seed, fates), script, [], seed=seed, horizon=t2 - 0.2)
    try:
        simnet.run_sim(sim)
    except Exception:
        return sc
    if sim.rebound_at is not None and sim.rebound_at >= 1:
        fates["forced"] = {"c2s:%d" % (sim.rebound_at - 1): "late:%s" % rng.choice([0.2, 0.4, 0.8])}
    return sc


def cidlate_case(seed):
    """Directed: the datagram in which one endpoint issues its connection IDs (NEW_CONNECTION_ID frames) is only delayed,
    for seconds; the frames are declared lost and sent again, the receiver uses them, changes its connection ID twice
    (retiring the first of them) — and then the original, late copy arrives.  Nothing was dropped: the transfer in
    progress has to complete."""
    import random

    from .. import simnet
    from ..scenarios import gen_config
    from ..simnet import Monitor

    rng = random.Random("cidlate/%s" % seed)
    opts = gen_config(rng)
    for k in ("retry", "frontend_vn"):
        opts.pop(k, None)
    if opts.get("versions_server") == ["v1"]:
        opts.pop("versions_server")
    issuer = rng.choice(["server", "server", "client"])
    other = "client" if issuer == "server" else "server"
    delay = rng.choice([0.01, 0.02])
    hold = rng.choice([0.3, 0.5, 0.8, 1.5])
    fates = {"delay": delay, "adv_seconds": 0.0}
    base = 0 if other == "client" else 1
    t1 = 0.6
    script = []
    sc = {"seed": seed, "opts": opts, "fates": fates, "script": script, "lateness": 0.0, "horizon": hold + 160.0}

    class Find(Monitor):
        name = "find-ncid"

        def __init__(self):
            super().__init__()
            self.index = None

        def on_datagram_out(self, ep, rec, t):
            if self.index is None and ep.name == issuer and any(f["name"] == "NEW_CONNECTION_ID" for v in rec.views or [] for f in v.frames):
                self.index = rec.index
                self.t = t

    find = Find()
    sim = simnet.SimNet(opts, simnet.Fates(seed, fates), [], [find], seed=seed, horizon=0.5)
    try:
        simnet.run_sim(sim)
    except Exception:
        return sc
    if find.index is None:
        return sc
    fates["forced"] = {"%s:%d" % ("s2c" if issuer == "server" else "c2s", find.index): "late:%s" % hold}
    # until the late copy arrives the receiver of the IDs sends as little as possible (every eighth packet it sends makes
    # its gapped ACK ack-eliciting, and once that is acknowledged the late packet number counts as a duplicate); the
    # issuer sends a little, which is what makes it declare the held-back packet lost and send the frames again
    th = find.t
    ib = 1 - base
    late = th + hold + delay
    script += [{"t": round(th + 0.01 + 0.01 * i, 4), "side": issuer, "op": "write", "sid": ib + 2, "n": rng.choice([300, 1000]), "fin": False} for i in range(3)]
    c1 = th + hold * rng.choice([0.4, 0.5])
    script += [{"t": round(c1, 4), "side": other, "op": "change_cid"},
               {"t": round(c1 + hold * rng.choice([0.2, 0.3]), 4), "side": other, "op": "change_cid"},
               {"t": round(late + 0.3, 4), "side": other, "op": "write", "sid": base, "n": rng.choice([3000, 10240]), "fin": True},
               {"t": round(late + 0.3, 4), "side": issuer, "op": "write", "sid": ib + 2, "n": 4400, "fin": True},
               {"t": round(late + 0.5, 4), "side": other, "op": "change_cid"},
               {"t": round(late + 0.9, 4), "side": other, "op": "write", "sid": base + 2, "n": rng.choice([2000, 4500]), "fin": True},
               {"t": round(late + 1.3, 4), "side": other, "op": "change_cid"}]
    script.sort(key=lambda o: o["t"])
    return sc


def build_sim(sc, monitors, tap=False):
    from .. import simnet

    fates = simnet.Fates(sc["seed"], sc["fates"])
    return simnet.SimNet(sc["opts"], fates, sc["script"], monitors, seed=sc["seed"], lateness=sc.get("lateness", 0.0),
                         tap=tap, horizon=sc.get("horizon", 200.0), use_keylog=tap)


def run_scenario(sc, res, case, tap=False, extra_monitors=()):
    from .. import monitors, simnet
    from ..scenarios import scenario_signature

    dm = monitors.DeliveryModel()
    ms = [dm] + list(extra_monitors)
    sim = build_sim(sc, ms, tap=tap)
    res.evaluations += 1
    try:
        simnet.run_sim(sim)
    except Violation as v:
        res.violation(v.signature, v.what, case, {"witness": v.witness, "fates": sim.fates.counts, "opts": sc["opts"], "t": sim.now, "script_len": len(sc["script"])})
        return sim, dm, False
    res.count("delivery_evaluations", dm.evaluations)
    res.count("bytes_checked", dm.bytes_checked)
    res.count("end_events", dm.end_events)
    res.count("reset_events", dm.reset_events)
    res.count("data_after_reset_observed", dm.data_after_reset)
    res.count("obs_duplicate_reset_events", dm.duplicate_resets)
    res.count("obs_timer_spins", sim.timer_spins)
    res.count("datagrams", sim.client.out_count + (sim.server.out_count if sim.server else 0))
    for k, v in sim.fates.counts.items():
        res.count("fate_" + k, v)
    res.count("stop_" + str(sim.stopped_reason))
    if sim.resumed_with_ticket:
        hs = [e for _t, e in sim.client.events if type(e).__name__ == "HandshakeCompleted"]
        res.count("runs_resumed_ticket_offered")
        if hs:
            res.count("runs_0rtt_accepted" if hs[0].early_data_accepted else "runs_0rtt_rejected_by_server")
    for k, v in sim.frontend.items():
        if v:
            res.count("frontend_" + k, v)
    if getattr(dm, "exempt_no_connection", False):
        res.count("obs_runs_exempt_retry_token_invalidated_by_rebinding")
    if sim.stopped_reason == "step-cap":
        res.inconclusive.append("step cap hit (seed %s)" % sc["seed"])
    fc = sim.fates.counts
    if (fc["drop"] or fc["dup"] or fc["delayed"] or fc["blackout"]) and dm.end_events:
        res.nontrivial.add(h(scenario_signature(sc, fc)))
    return sim, dm, True


TARGET_FRAMES = ["STREAM_FIN", "RESET_STREAM", "PATH_RESPONSE", "PATH_CHALLENGE", "HANDSHAKE_DONE", "NEW_CONNECTION_ID",
                 "STOP_SENDING", "MAX_STREAM_DATA", "FIRST_FLIGHT", "CRYPTO_HANDSHAKE", "RETIRE_CONNECTION_ID", "KEY_UPDATE"]


def targeted_case(seed, res):
    """Fault-free recording run, then the same scenario with chosen datagrams duplicated/dropped/delayed."""
    import random

    from .. import monitors
    from ..scenarios import gen_scenario

    rng = random.Random("targeted/%s" % seed)
    sc = gen_scenario(seed, harsh=0.0)
    sc["fates"] = {"delay": sc["fates"]["delay"], "adv_seconds": 0.0, "rebind_after": rng.choice([None, None, 5, 12])}
    sc["horizon"] = 160.0
    case = {"gen": "targeted", "seeds": [seed]}
    tapmon = monitors.TapMonitor()  # only to have views recorded; its own verdicts belong to C02
    sim0 = build_sim(sc, [], tap=True)
    try:
        from .. import simnet

        simnet.run_sim(sim0)
    except Violation as v:
        res.evaluations += 1
        res.violation(v.signature, v.what, case, {"phase": "recording run", "witness": v.witness})
        return
    # index datagrams by the frames they carry
    cands = {}
    prev_phase = {}
    for side in ("client", "server"):
        d = "c2s" if side == "client" else "s2c"
        for rec in sim0.datagrams[side]:
            kinds = set()
            for v in rec.views or []:
                for f in v.frames:
                    kinds.add(f["name"])
                    if f["name"] == "STREAM" and f.get("fin"):
                        kinds.add("STREAM_FIN")
                    if f["name"] == "CRYPTO" and v.ptype == "handshake":
                        kinds.add("CRYPTO_HANDSHAKE")
                if v.ptype == "1rtt" and v.key_phase is not None:
                    if prev_phase.get(side) is not None and prev_phase[side] != v.key_phase:
                        kinds.add("KEY_UPDATE")
                    prev_phase[side] = v.key_phase
            if rec.index < 2:
                kinds.add("FIRST_FLIGHT")
            for k in kinds:
                cands.setdefault(k, []).append("%s:%d" % (d, rec.index))
    want = rng.sample(TARGET_FRAMES, 3)
    forced = {}
    picked = []
    for k in want:
        if k in cands:
            key = rng.choice(cands[k])
            forced[key] = rng.choice(["dup", "dup", "dup3", "drop"])
            picked.append((k, key, forced[key]))
    if not forced:
        res.count("targeted_no_candidate")
        return
    sc2 = dict(sc)
    sc2["fates"] = dict(sc["fates"], forced=forced, adv_seconds=0.0, jitter=0.0)
    sim, dm, ok = run_scenario(sc2, res, case)
    for k, _key, what in picked:
        res.count("targeted_%s_%s" % (k, what.rstrip("3")))
    if ok:
        res.sample({"gen": "targeted", "seed": seed, "forced": picked, "streams": len(sim.written), "ended": dm.end_events}, limit=2)


def run_batch(batch):
    from ..scenarios import gen_scenario

    res = Result()
    t0 = time.time()
    for seed in batch["seeds"]:
        if batch["gen"] == "random":
            sc = gen_scenario(seed)
            case = {"gen": "random", "seeds": [seed]}
            sim, dm, ok = run_scenario(sc, res, case)
            if ok:
                res.sample({"gen": "random", "seed": seed, "opts": sc["opts"], "fates": sc["fates"], "ops": len(sc["script"]),
                            "first_ops": sc["script"][:3], "fate_counts": sim.fates.counts, "bytes_checked": dm.bytes_checked,
                            "streams_ended": dm.end_events, "virtual_end": round(sim.now, 2)}, limit=2)
        elif batch["gen"] == "stalepath":
            sc = stalepath_case(seed)
            sim, dm, ok = run_scenario(sc, res, {"gen": "stalepath", "seeds": [seed]})
            res.count("stalepath_cases")
            res.count("stalepath_cases_with_late_old_address_datagram", 1 if sc["fates"].get("forced") else 0)
            res.count("obs_datagrams_to_stale_address", sim.stale_address_drops)
        elif batch["gen"] == "cidlate":
            sc = cidlate_case(seed)
            sim, dm, ok = run_scenario(sc, res, {"gen": "cidlate", "seeds": [seed]})
            res.count("cidlate_cases")
            res.count("cidlate_cases_with_held_back_new_connection_id_datagram", 1 if sc["fates"].get("forced") else 0)
        elif batch["gen"] == "blocked":
            sc = blocked_case(seed)
            sim, dm, ok = run_scenario(sc, res, {"gen": "blocked", "seeds": [seed]})
            res.count("blocked_cases")
            if ok:
                res.sample({"gen": "blocked", "seed": seed, "opts": sc["opts"], "fates": sc["fates"], "script": sc["script"], "bytes_checked": dm.bytes_checked,
                            "streams_ended": dm.end_events, "virtual_end": round(sim.now, 2)}, limit=1)
        elif batch["gen"] == "kuloss":
            sc = kuloss_case(seed)
            sim, dm, ok = run_scenario(sc, res, {"gen": "kuloss", "seeds": [seed]})
            res.count("kuloss_cases")
            if ok:
                res.sample({"gen": "kuloss", "seed": seed, "fates": sc["fates"], "key_updates": sum(1 for o in sc["script"] if o["op"] == "key_update"),
                            "bytes_checked": dm.bytes_checked, "streams_ended": dm.end_events}, limit=1)
        else:
            targeted_case(seed, res)
    res.count("cpu_s", round(time.time() - t0, 2))
    return res.as_dict()
