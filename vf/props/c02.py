"""C02 — only authentic packets are accepted; altered packets change nothing.

(a) differential packet protection: aioquic's CryptoPair vs the independent RFC 9001/9369
    implementation in vf.refcrypto, both directions, bit-exact; decode_packet_number vs a
    definition-level oracle.
(b) wire tap: every packet either endpoint emits in simulated hostile runs (3 suites x
    2 versions x key updates) must be opened and parsed by the independent reader.
(c) tamper monitor: in lock-step genuine exchanges every packet is first delivered in
    altered copies (bit flips, byte masks, truncations) to the live receiver; an observable
    digest of the receiver must not change, and the genuine packet must still be accepted.
"""

from __future__ import annotations

import random
import time

from ..common import Result, Violation, exc_signature, exc_witness, h

PROPERTY = "C02"
LEVEL = "exploration"
BUDGET = {"quick": 70, "thorough": 1500}
BATCH_TIMEOUT = {"quick": 300, "thorough": 1500}
RULE = (
    "unit: (suite, version, key generation, header kind, CID/token lengths, pn length, pn, payload length) tuples, "
    "aioquic->reference and reference->aioquic, compared bit for bit; pn: exhaustive 8-bit windows near 0 and 2^62 plus random "
    "16/24/32-bit cases against the closest-candidate definition; wire: simulated hostile runs with the independent tap as oracle; "
    "tamper: every packet of recorded handshake/transfer/key-update/close flights, of Retry exchanges and of resumed connections with "
    "0-RTT packets (including the client's first Initial delivered to a server still in FIRSTFLIGHT), isolated into its own datagram, is "
    "delivered in altered copies before the genuine one (quick: all bits of header, packet number, first 16 payload bytes and tag + "
    "every 7th other bit, byte masks 0x01/0x80/0xFF on a stride, truncations 1..17; thorough: every bit). non-trivial = a case in "
    "which a packet was actually sealed/opened or an altered copy was processed by a live receiver; distinct = hash of the "
    "parameter tuple / (flight, packet type, receiver state, alteration class)."
)
RULE += ' Tamper matrix (client role) also delivers, before every genuine server datagram once a server packet was processed, a Retry packet the server never sent (valid public-key integrity tag): the state digest (which includes installed keys and discarded spaces) must not move. Wire runs: a genuine 0-RTT packet delivered to a server holding 0-RTT receive keys must be opened (packets sent before the client restarted after Retry / Version Negotiation are exempt).'

ASSUMPTIONS = [
    "vf.refcrypto/vf.refwire implement RFC 9001/9369 correctly (they were written from the RFCs and share no code with aioquic; "
    "cryptographic primitives come from the `cryptography` package)",
    "tamper digest reads hooked receiver state (event queue, TLS state, handshake flags, connection state, stream delivery offsets, "
    "ack sets, key phase); anti-amplification byte counters and retransmission scheduling are not part of 'changes nothing'",
    "alterations are applied to one protected packet isolated in its own datagram (zero padding appended when the original datagram "
    "was >= 1200 bytes): coalesced genuine neighbours would legitimately be processed",
]

SUITES = ["AES_128_GCM_SHA256", "AES_256_GCM_SHA384", "CHACHA20_POLY1305_SHA256"]


def floors(tier):
    return {"unit_roundtrips": 2000, "pn_cases": 10000, "packets_tapped": 2000, "altered_copies": 5000, "genuine_accepted": 50}


def finalize(tier, merged):
    return {"exhaustive": False, "tamper_all_bits": tier == "thorough"}


def plan(tier, seed):
    b = []
    base = seed * 7919
    n_unit, n_wire, n_tamper = (32, 60, 36) if tier == "quick" else (400, 3000, 72)
    for i in range(n_unit):
        b.append({"gen": "unit", "seed": base + i, "cases": 400})
    b.append({"gen": "pn", "seed": base, "random_cases": 200000 if tier == "quick" else 3000000})
    for i in range(0, n_wire, 4):
        b.append({"gen": "wire", "seeds": [base + i + k for k in range(4)]})
    k = 0
    for i in range(n_tamper):
        suite = SUITES[i % 3]
        version = ["v1", "v2"][(i // 3) % 2]
        flight = ["handshake", "retry", "transfer"][(i // 6) % 3]
        b.append({"gen": "tamper", "seed": base + i, "suite": suite, "version": version, "flight": flight,
                  "all_bits": tier == "thorough", "role": ["client", "server"][(i // 18) % 2]})
    for i in range(6 if tier == "quick" else 12):
        # resumed connection with 0-RTT packets, altered copies delivered to the server
        b.append({"gen": "tamper", "seed": base + 100 + i, "suite": SUITES[i % 3], "version": ["v1", "v2"][(i // 3) % 2], "flight": "0rtt",
                  "all_bits": tier == "thorough", "role": "server"})
    # interleave generators
    order = {"unit": 0, "pn": 0, "wire": 1, "tamper": 2}
    groups = {}
    for x in b:
        groups.setdefault(x["gen"], []).append(x)
    out = []
    while any(groups.values()):
        for g in ("tamper", "wire", "unit", "pn"):
            if groups.get(g):
                out.append(groups[g].pop(0))
    return out


# ------------------------------------------------------------------ (a) unit differential


def _mk_pair(suite, version, secret):
    from aioquic.quic.crypto import CryptoPair
    from aioquic.tls import CipherSuite

    pair = CryptoPair()
    cs = CipherSuite[suite]
    pair.send.setup(cipher_suite=cs, secret=secret, version=version)
    pair.recv.setup(cipher_suite=cs, secret=secret, version=version)
    return pair


def unit(batch, res):
    from aioquic.quic.crypto import CryptoPair

    from .. import frames as F
    from .. import refcrypto as rc

    rng = random.Random("c02unit/%s" % batch["seed"])
    for ci in range(batch["cases"]):
        suite = rng.choice(SUITES)
        version = rng.choice([rc.V1, rc.V2])
        hlen = 48 if suite == "AES_256_GCM_SHA384" else 32
        kind = rng.choice(["short", "short", "initial", "handshake", "0rtt", "initialkeys"])
        gen = rng.choice([0, 0, 1, 2]) if kind == "short" else 0
        pn_len = rng.choice([1, 2, 3, 4])
        expected = rng.choice([0, 1, 255, 256, 65535, 65536, 1 << 31, (1 << 32) - 1, 1 << 32, (1 << 62) - 70000, rng.randrange(0, 1 << 62)])
        # a pn the receiver can recover: within half a window of expected
        half = 1 << (8 * pn_len - 1)
        pn = max(0, min((1 << 62) - 1, expected + rng.randrange(-half + 1, half)))
        case = {"gen": "unit", "seed": batch["seed"], "cases": ci + 1}
        if kind == "initialkeys":
            cid = rng.randbytes(rng.choice([8, 8, 0, 1, 20]))
            is_client = rng.random() < 0.5
            pair = CryptoPair()
            pair.setup_initial(cid=cid, is_client=is_client, version=version)
            ck, sk = rc.initial_keys(version, cid)
            send_keys, recv_keys = (ck, sk) if is_client else (sk, ck)
            hk = "initial"
        else:
            secret = rng.randbytes(hlen)
            pair = _mk_pair(suite, version, secret)
            send_keys = recv_keys = rc.Keys(suite, secret, version)
            hk = kind
        for _ in range(gen):
            pair.update_key()
            # update is applied lazily on encrypt; force it with a throw-away seal
            pair.encrypt_packet(bytes([0x40 | (pair.key_phase << 2) | 1]) + b"\x00\x00", b"\x00" * 8, 0)
            send_keys = send_keys.next_phase()
            recv_keys = send_keys if kind != "initialkeys" else recv_keys.next_phase()
            # the peer answers in the new phase (RFC 9001 6.1: an update must be confirmed before the next one)
            confirm = rc.protect(recv_keys, bytes([0x40 | (pair.key_phase << 2) | 1]), 1, 2, b"\x01" * 8)
            pair.decrypt_packet(confirm, 1, 0)
        bit = gen & 1
        # header
        if hk == "short":
            dcid = rng.randbytes(rng.choice([0, 1, 8, 8, 20]))
            first = 0x40 | (rng.getrandbits(1) << 5) | (bit << 2) | (pn_len - 1)
            hdr = bytes([first]) + dcid
            overhead = len(hdr) + pn_len + 16
            payload_len = rng.choice([max(0, 4 - pn_len), 1, 4, 20, 100, 1200 - overhead, 1500 - overhead, rng.randrange(4, 1400)])
        else:
            dcid = rng.randbytes(rng.choice([0, 8, 8, 20]))
            scid = rng.randbytes(rng.choice([0, 8, 20]))
            token = rng.randbytes(rng.choice([0, 0, 1, 64])) if hk == "initial" else b""
            tcode = {rc.V1: {"initial": 0, "0rtt": 1, "handshake": 2}, rc.V2: {"initial": 1, "0rtt": 2, "handshake": 3}}[version][hk]
            first = 0xC0 | (tcode << 4) | (pn_len - 1)
            pre = bytes([first]) + version.to_bytes(4, "big") + bytes([len(dcid)]) + dcid + bytes([len(scid)]) + scid
            if hk == "initial":
                pre += F.enc_varint(len(token)) + token
            room = 1500 - len(pre) - 2 - pn_len - 16
            payload_len = rng.choice([max(0, 4 - pn_len), 4, 20, 300, 1150, room, rng.randrange(4, room)])
            payload_len = max(max(0, 4 - pn_len), min(payload_len, room))
            hdr = pre + F.enc_varint(pn_len + payload_len + 16, 2)
        payload_len = max(payload_len, max(0, 4 - pn_len))
        payload = rng.randbytes(payload_len)
        pn_bytes = (pn & ((1 << (8 * pn_len)) - 1)).to_bytes(pn_len, "big")
        plain_header = hdr + pn_bytes
        sig = (suite if kind != "initialkeys" else "initial-keys", version, gen, hk, len(plain_header), pn_len, payload_len // 64)
        # ---- aioquic seals, reference opens
        try:
            pkt = pair.encrypt_packet(plain_header, payload, pn)
        except Exception as exc:
            res.violation(exc_signature(exc, "unit:seal:"), "encrypt_packet raised %r for %r" % (exc, sig), case, exc_witness(exc))
            continue
        try:
            f1, pl, trunc, uh = rc.unprotect_header(send_keys, pkt, len(hdr))
            got_pn = rc.decode_pn(trunc, 8 * pl, expected)
            plain = send_keys.open(got_pn, uh, pkt[len(hdr) + pl :])
            ok = (uh == plain_header and plain == payload and got_pn == pn)
        except Exception as exc:
            ok = False
            plain = repr(exc)
        res.count("unit_roundtrips")
        if not ok:
            res.violation("unit:reference-cannot-open-aioquic-packet:%s" % ("v2" if version == rc.V2 else "v1"),
                          "packet sealed by aioquic (%r) is not recovered bit-exactly by the RFC implementation" % (sig,), case, {"sig": sig})
            continue
        # ---- reference seals, aioquic opens
        ref_pkt = rc.protect(send_keys, hdr, pn, pn_len, payload)
        if ref_pkt != pkt:
            res.violation("unit:ciphertext-differs", "same inputs, different protected packet (%r)" % (sig,), case, {"sig": sig})
            continue
        try:
            rpair = pair
            if kind == "initialkeys":
                rpair = CryptoPair()
                rpair.setup_initial(cid=cid, is_client=not is_client, version=version)
                for _ in range(gen):
                    rpair.update_key()
            ph, pp, ppn = rpair.decrypt_packet(ref_pkt, len(hdr), expected)
        except Exception as exc:
            res.violation(exc_signature(exc, "unit:open:"), "decrypt_packet raised %r on a genuine packet %r" % (exc, sig), case, exc_witness(exc))
            continue
        res.count("unit_roundtrips")
        if (ph, pp, ppn) != (plain_header, payload, pn):
            what = "header" if ph != plain_header else "payload" if pp != payload else "packet-number"
            res.violation("unit:aioquic-recovers-wrong-" + what, "reference packet %r opened as pn=%r (expected %r)" % (sig, ppn, pn), case, {"sig": sig})
            continue
        # ---- peer key update: reference moves to the next generation, aioquic must follow
        if hk == "short" and rng.random() < 0.3 and kind != "initialkeys":
            nk = send_keys.next_phase()
            first2 = (plain_header[0] & ~0x04) | ((bit ^ 1) << 2)
            hdr2 = bytes([first2]) + hdr[1:]
            pkt2 = rc.protect(nk, hdr2, pn, pn_len, payload)
            try:
                ph, pp, ppn = pair.decrypt_packet(pkt2, len(hdr2), expected)
                good = (pp == payload and ppn == pn and pair.key_phase == (bit ^ 1))
            except Exception as exc:
                good = False
            res.count("unit_remote_key_updates")
            if not good:
                res.violation("unit:peer-key-update-not-followed:%s" % ("v2" if version == rc.V2 else "v1"), "packet in the next key phase (%r) not opened" % (sig,), case, {"sig": sig})
                continue
        res.nontrivial.add(h(sig))
        res.evaluations += 1
        if ci == 0:
            res.sample({"gen": "unit", "suite": suite, "version": hex(version), "key_generation": gen, "header": hk, "pn_len": pn_len, "pn": pn, "expected": expected, "payload_len": payload_len})


def pn_oracle(trunc, bits, expected):
    """All candidates congruent to trunc mod 2^bits in [0, 2^62) closest to expected."""
    win = 1 << bits
    base = (expected & ~(win - 1)) | trunc
    cands = [c for c in (base - win, base, base + win) if 0 <= c < (1 << 62)]
    best = min(abs(c - expected) for c in cands)
    return [c for c in cands if abs(c - expected) == best]


def pn(batch, res):
    from aioquic.quic.packet import decode_packet_number

    rng = random.Random("c02pn/%s" % batch["seed"])
    case = {"gen": "pn", "seed": batch["seed"], "random_cases": 2000}
    n = 0

    def check(trunc, bits, expected):
        nonlocal n
        n += 1
        try:
            got = decode_packet_number(trunc, bits, expected)
        except Exception as exc:
            res.violation(exc_signature(exc, "pn:"), "decode_packet_number(%d,%d,%d) raised" % (trunc, bits, expected), case, exc_witness(exc))
            return False
        ok = pn_oracle(trunc, bits, expected)
        if got not in ok:
            res.violation("pn:not-closest-candidate:%d-bit" % bits, "decode_packet_number(%d, %d, %d) = %d, closest candidate(s) %r" % (trunc, bits, expected, got, ok), case, {"trunc": trunc, "bits": bits, "expected": expected, "got": got})
            return False
        if len(ok) > 1:
            res.count("pn_ties_either")
        return True

    # exhaustive 8-bit windows near both ends
    good = True
    for expected in list(range(0, 1024)) + list(range((1 << 62) - 1024, 1 << 62)):
        for trunc in range(256):
            if not check(trunc, 8, expected):
                good = False
                break
        if not good:
            break
    edges = [0, 1, 127, 128, 129, 255, 256, 32767, 32768, 65535, 65536, (1 << 23), (1 << 24) - 1, 1 << 24, (1 << 31) - 1, 1 << 31, (1 << 32) - 1,
             1 << 32, (1 << 32) + 1, (1 << 61), (1 << 62) - (1 << 32), (1 << 62) - (1 << 31) - 1, (1 << 62) - 65537, (1 << 62) - 2, (1 << 62) - 1]
    for bits in (8, 16, 24, 32):
        win = 1 << bits
        for e in edges:
            for de in (-2, -1, 0, 1, 2):
                ee = e + de
                if not 0 <= ee < (1 << 62):
                    continue
                for t in (0, 1, win // 2 - 1, win // 2, win // 2 + 1, win - 2, win - 1, (ee & (win - 1)), ((ee + win // 2) & (win - 1)), ((ee - win // 2) & (win - 1))):
                    check(t, bits, ee)
    for _ in range(batch["random_cases"]):
        bits = rng.choice((16, 24, 32))
        e = rng.choice([rng.randrange(0, 1 << 62), rng.randrange(0, 1 << 20), (1 << 62) - 1 - rng.randrange(0, 1 << 33)])
        check(rng.randrange(0, 1 << bits), bits, e)
    res.count("pn_cases", n)
    res.evaluations += n
    res.nontrivial.add("pn-exhaustive-8bit")
    res.nontrivial.add("pn-random-%d" % batch["seed"])
    res.sample({"gen": "pn", "cases": n, "exhaustive_8bit_expected_ranges": "[0,1024) and [2^62-1024, 2^62)"})


# ------------------------------------------------------------------ (b) wire tap in hostile runs


def wire(batch, res):
    from .. import monitors, simnet
    from ..scenarios import gen_scenario, scenario_signature

    for seed in batch["seeds"]:
        rng = random.Random("c02wire/%s" % seed)
        sc = gen_scenario(seed, allow_stop=False)
        suite = rng.choice(SUITES)
        sc["opts"]["cipher_suites_client"] = [suite]
        # make key updates frequent so that generations 1..3 are tapped
        t = 0.5
        for _ in range(rng.choice([1, 2, 3])):
            t += rng.choice([0.6, 1.0, 2.0])
            sc["script"].append({"t": t, "side": rng.choice(["client", "server"]), "op": "key_update"})
        sc["fates"]["loss"] = min(sc["fates"].get("loss", 0), 0.05)
        sc["fates"]["corrupt_first"] = 0.1
        if seed % 5 == 0:
            # every fifth run: resumed session with a lot of 0-RTT data *and* a version change in flight (the client starts
            # with v1 but prefers v2, the server upgrades): which packet types may carry which version is RFC 9369 4.1
            sc["opts"].update(resume={}, versions_client=["v2", "v1"], original_version="v1", versions_server=["v2", "v1"])
            for k in ("retry", "frontend_vn"):
                sc["opts"].pop(k, None)
            # the server has forgotten the ticket: full handshake, so its first flight (certificate chain) spans several
            # datagrams — the client nevertheless emits 0-RTT packets until it has 1-RTT keys
            sc["opts"]["resume_forget"] = True
            # the rest of the server's first flight is lost once: the client knows the new version (ServerHello) but has
            # no 1-RTT keys yet, for about one probe timeout
            sc["opts"]["certfile"] = "ssl_cert_with_chain.pem"
            sc["fates"]["forced"] = {"s2c:1": "drop", "s2c:2": "drop", "s2c:3": "drop"}
            # early data written little by little, so that some of it is still waiting when the server's first
            # packets (and with them the version change) arrive
            for i, t in enumerate([0.0, 0.004, 0.011, 0.021, 0.041, 0.061, 0.081, 0.101, 0.151, 0.201]):
                sc["script"].append({"t": t, "side": "client", "op": "write", "sid": 400 + 4 * i, "n": 1500, "fin": True})
            sc["script"].sort(key=lambda o: o["t"])
            res.count("wire_runs_0rtt_with_version_upgrade")
            if seed % 10 == 0:
                # every tenth run: the server remembers the ticket and accepts the early data, nothing is lost: the
                # 0-RTT packets (sent with the version of the first flight) must be opened by the server although it
                # answers with the other version
                sc["opts"].pop("resume_forget", None)
                sc["opts"].pop("certfile", None)
                sc["fates"].pop("forced", None)
                sc["fates"]["loss"] = 0.0
                sc["fates"]["corrupt_first"] = 0.0
                res.count("wire_runs_0rtt_accepted_with_version_upgrade")
        tm = monitors.TapMonitor()
        po = monitors.PeerOpensMonitor()
        fates = simnet.Fates(seed, sc["fates"])
        sim = simnet.SimNet(sc["opts"], fates, sc["script"], [tm, po], seed=seed, tap=True, horizon=sc["fates"]["adv_seconds"] + 30.0)
        case = {"gen": "wire", "seeds": [seed]}
        res.evaluations += 1
        try:
            simnet.run_sim(sim)
        except Violation as v:
            if v.signature.startswith("tap:") or v.signature.startswith("peer:"):
                res.violation(v.signature, v.what, case, {"witness": v.witness, "opts": sc["opts"], "suite": suite})
            else:
                # API exceptions etc. belong to other properties; here the run is just cut short
                res.count("wire_run_cut_short")
        res.count("packets_tapped", tm.packets_tapped)
        for k, v in po.checked.items():
            res.count("peer_opened_genuine_" + k, v)
        for k, v in tm.by_type.items():
            res.count("tapped_" + k, v)
        gens = max([g for (_s, g) in tm.key_phases] + [0])
        res.count("tapped_max_key_generation_sum", gens)
        if tm.packets_tapped > 20:
            res.nontrivial.add(h("wire", suite, tuple(sc["opts"].get("versions_client", [])), gens, sc["opts"].get("mds_client")))
        res.sample({"gen": "wire", "seed": seed, "suite": suite, "opts": sc["opts"], "packets_tapped": tm.packets_tapped, "by_type": tm.by_type, "max_key_generation": gens}, limit=2)


# ------------------------------------------------------------------ (c) tamper monitor


def digest(conn):
    """Observable state that an unauthentic packet must not change."""
    from aioquic import tls

    tls_ctx = getattr(conn, "tls", None)
    spaces = getattr(conn, "_spaces", {})
    cryptos = getattr(conn, "_cryptos", {})
    one = cryptos.get(tls.Epoch.ONE_RTT)
    return (
        tuple(repr(e)[:200] for e in conn._events),
        getattr(tls_ctx, "state", None),
        conn._handshake_complete,
        conn._handshake_confirmed,
        conn._state,
        conn._close_pending,
        repr(conn._close_event)[:200],
        tuple(sorted((sid, s.receiver.starting_offset(), s.receiver.is_finished, s.receiver.highest_offset) for sid, s in conn._streams.items())),
        tuple((int(ep.value), tuple((r.start, r.stop) for r in sp.ack_queue), sp.largest_received_packet) for ep, sp in spaces.items()),
        tuple((int(ep.value), cs.receiver.starting_offset()) for ep, cs in getattr(conn, "_crypto_streams", {}).items()),
        conn._retry_count,
        conn._version,
        (one.recv.key_phase if one is not None else None),
        bytes(conn._peer_cid.cid),
        conn._remote_max_data,
        tuple(sorted(conn._peer_cid_sequence_numbers)),
        # which keys are installed and which packet number spaces are gone: an unauthentic packet must not retire any
        tuple(sorted((int(ep.value), c.recv.is_valid(), c.send.is_valid()) for ep, c in cryptos.items()))
        + tuple(sorted((int(v), c.recv.is_valid(), c.send.is_valid()) for v, c in getattr(conn, "_cryptos_initial", {}).items())),
        tuple(sorted((int(ep.value), bool(sp.discarded)) for ep, sp in spaces.items())),
    )


DIGEST_FIELDS = ["pending-events", "tls-state", "handshake-complete", "handshake-confirmed", "connection-state", "close-pending", "close-event",
                 "stream-delivery", "ack-sets", "crypto-stream-delivery", "retry-count", "version", "key-phase", "peer-cid", "remote-max-data", "peer-cid-seqs", "keys-installed", "spaces-discarded"]


def alterations(pkt: bytes, views, all_bits: bool, rng):
    """Yield (class, altered bytes). pkt is one protected packet (long or short header)."""
    n = len(pkt)
    nbits = n * 8
    if all_bits:
        positions = range(nbits)
    else:
        hdr_end = min(n, 64)
        pos = set(range(0, hdr_end * 8))  # header, CIDs, length, packet number, first payload bytes
        pos |= set(range(max(0, (n - 16) * 8), nbits))  # tag
        pos |= set(range(hdr_end * 8, nbits, 7 * 8 + 3))
        positions = sorted(pos)
    for p in positions:
        b = bytearray(pkt)
        b[p // 8] ^= 1 << (7 - p % 8)
        yield ("bit", bytes(b))
    step = 1 if all_bits else max(1, n // 40)
    for i in range(0, n, step):
        for mask in (0x80, 0xFF) if not all_bits else (0x01, 0x80, 0xFF):
            b = bytearray(pkt)
            b[i] ^= mask
            yield ("mask%02x" % mask, bytes(b))
    for k in range(1, 18):
        if n - k > 0:
            yield ("trunc", pkt[: n - k])


class LockStep:
    """Genuine client/server exchange, one datagram at a time, with a tamper hook before each delivery."""

    def __init__(self, suite, version, seed, retry=False, resume=False):
        import io

        from aioquic.quic.connection import QuicConnection
        from aioquic.quic.retry import QuicRetryTokenHandler

        from .. import refwire, simnet

        opts = {"cipher_suites_client": [suite], "versions_client": [version], "versions_server": [version, "v1" if version == "v2" else "v2"]}
        self.ccfg, self.scfg = simnet.make_configs(opts)
        self.server_kwargs = {}
        if resume:
            # session resumption: the client offers a ticket from a priming connection and sends 0-RTT packets
            ticket, store = simnet.prime_session(opts)
            if ticket is not None:
                self.ccfg.session_ticket = ticket
            self.server_kwargs = {"session_ticket_fetcher": store.pop, "session_ticket_handler": store.add}
        self.keylog = io.StringIO()
        self.ccfg.secrets_log_file = self.keylog
        self.scfg.secrets_log_file = self.keylog
        self.client = QuicConnection(configuration=self.ccfg)
        self.server = None
        self.tap = refwire.Tap()
        self.now = 0.0
        self.queue = []  # (sender name, datagram)
        self.retry = QuicRetryTokenHandler() if retry else None
        self.events = {"client": [], "server": []}
        self.simnet = simnet
        self.rng = random.Random("lockstep/%s" % seed)
        self.sent_retry = False

    def conn(self, name):
        return self.client if name == "client" else self.server

    def pump(self, name):
        c = self.conn(name)
        if c is None:
            return
        while True:
            ev = c.next_event()
            if ev is None:
                break
            self.events[name].append(ev)
        for data, _addr in c.datagrams_to_send(now=self.now):
            self.tap.add_keylog(self.keylog.getvalue())
            views = self.tap.on_datagram(name, data, self.now)
            self.queue.append((name, data, views))

    def front_end(self, data):
        """What a server front-end does before a connection exists (mirrors asyncio/server.py)."""
        from aioquic.buffer import Buffer
        from aioquic.quic.connection import QuicConnection
        from aioquic.quic.packet import encode_quic_retry, pull_quic_header

        if self.server is not None:
            return True
        header = pull_quic_header(Buffer(data=data), host_cid_length=8)
        odcid, rscid = header.destination_cid, None
        if self.retry is not None:
            if not header.token:
                scid = bytes(self.rng.getrandbits(8) for _ in range(8))
                pkt = encode_quic_retry(version=header.version, source_cid=scid, destination_cid=header.source_cid,
                                        original_destination_cid=header.destination_cid,
                                        retry_token=self.retry.create_token(self.simnet.CLIENT_ADDR, header.destination_cid, scid))
                views = self.tap.on_datagram("server", pkt, self.now)
                self.queue.append(("server", pkt, views))
                self.sent_retry = True
                return False
            odcid, rscid = self.retry.validate_token(self.simnet.CLIENT_ADDR, header.token)
        self.server = QuicConnection(configuration=self.scfg, original_destination_connection_id=odcid, retry_source_connection_id=rscid, **self.server_kwargs)
        return True

    def deliver(self, sender, data):
        self.now += 0.002
        if sender == "client":
            if not self.front_end(data):
                return
            self.server.receive_datagram(data, self.simnet.CLIENT_ADDR, now=self.now)
            self.pump("server")
        else:
            self.client.receive_datagram(data, self.simnet.SERVER_ADDR, now=self.now)
            self.pump("client")

    def fire_timers(self):
        fired = False
        for name in ("client", "server"):
            c = self.conn(name)
            if c is None:
                continue
            t = c.get_timer()
            if t is not None and t <= self.now + 0.2:
                self.now = max(self.now, t)
                c.handle_timer(now=self.now)
                self.pump(name)
                fired = True
        return fired


def split_packets(data, views):
    """(offset, length, view) for each protected packet in a datagram, from the tap's view sizes."""
    out = []
    pos = 0
    for v in views:
        if v.ptype in ("initial", "handshake", "0rtt", "1rtt", "retry"):
            out.append((pos, v.size, v))
        pos += v.size
    return out


def tamper(batch, res):
    from aioquic import tls

    suite, version, flight = batch["suite"], batch["version"], batch["flight"]
    rng = random.Random("c02tamper/%s" % batch["seed"])
    ls = LockStep(suite, version, batch["seed"], retry=(flight == "retry"), resume=(flight == "0rtt"))
    case = dict(batch)
    ls.client.connect(ls.simnet.SERVER_ADDR, now=ls.now)
    if flight == "0rtt":
        ls.client.send_stream_data(0, bytes(2500), end_stream=False)  # early data: 0-RTT packets follow the Initial
    ls.pump("client")
    script = []
    if flight == "transfer":
        script = [("client", "write", 0, 3000, True), ("server", "write", 1, 2500, True), ("client", "key_update"), ("client", "write", 4, 1500, True),
                  ("server", "key_update"), ("server", "write", 5, 1200, True), ("client", "close")]
    steps = 0
    altered = 0
    accepted = 0
    classes = {}
    stop = False
    max_dgrams = 14 if not batch["all_bits"] else 40
    dcount = 0
    wire_ids = None
    server_packet_processed = False
    forged_retries = 0
    while not stop and steps < 400:
        steps += 1
        if not ls.queue:
            # application script runs once the handshake is complete on both sides
            done_hs = ls.server is not None and ls.client._handshake_complete and ls.server._handshake_complete
            if done_hs and script:
                op = script.pop(0)
                c = ls.conn(op[0])
                if op[1] == "write":
                    c.send_stream_data(op[2], bytes(op[3]), end_stream=op[4])
                elif op[1] == "key_update":
                    c.request_key_update()
                elif op[1] == "close":
                    c.close(error_code=0, reason_phrase="bye")
                ls.pump(op[0])
                continue
            if not ls.fire_timers():
                break
            continue
        sender, data, views = ls.queue.pop(0)
        recv_name = "server" if sender == "client" else "client"
        R = ls.conn(recv_name)
        dcount += 1
        if R is None and recv_name == "server" and batch["role"] == "server" and flight != "retry":
            # server in FIRSTFLIGHT: the front-end has created the connection object for this destination
            # connection ID; altered copies of the client's first Initial reach it before the genuine one
            ls.front_end(data)
            R = ls.server
            res.count("firstflight_server_tampered")
            # the connection object lazily builds its TLS context and packet spaces on the first long-header packet
            # it sees, authentic or not; that is not observable through the API, so let a first altered copy do it
            # and compare every further altered copy against the state it left
            warm = bytearray(data)
            # ... altered in the destination connection ID (which the Initial keys derive from), the source
            # connection ID, or the payload, depending on the seed
            wpos = [6 + rng.randrange(0, max(1, data[5])), 7 + data[5] + rng.randrange(0, 8), len(data) - 1][batch["seed"] % 3]
            warm[wpos] ^= 1 << rng.randrange(0, 8)
            res.count("firstflight_warmup_" + ["dcid", "scid", "payload"][batch["seed"] % 3])
            try:
                R.receive_datagram(bytes(warm), ls.simnet.CLIENT_ADDR, now=ls.now)
            except Exception:
                res.count("obs_altered_copy_raised")
        if R is not None and dcount <= max_dgrams and (batch["role"] == recv_name or flight == "retry"):
            for off, ln, view in split_packets(data, views):
                pkt = data[off : off + ln]
                pad = len(data) >= 1200 and view.ptype != "1rtt"
                state = (view.ptype, repr(getattr(getattr(R, "tls", None), "state", None)), R._state.name)
                for cls, alt in alterations(pkt, views, batch["all_bits"], rng):
                    if alt == pkt:
                        continue
                    if len(alt) >= 5 and alt[0] & 0x80 and alt[1:5] == b"\x00\x00\x00\x00":
                        # the alteration turned the packet into a Version Negotiation packet, which QUIC
                        # does not authenticate at all: outside the property (protected packets and Retry)
                        res.count("obs_altered_into_version_negotiation")
                        continue
                    dgram = alt + (bytes(max(0, 1200 - len(alt))) if pad else b"")
                    if dgram[: len(pkt)] == pkt:
                        # truncation followed by zero padding reproduces the genuine packet when the cut
                        # bytes were zeros themselves (1 in 256 for a one-byte cut): not an alteration
                        res.count("obs_truncation_equals_genuine_after_padding")
                        continue
                    before = digest(R)
                    try:
                        R.receive_datagram(dgram, ls.simnet.CLIENT_ADDR if sender == "client" else ls.simnet.SERVER_ADDR, now=ls.now)
                    except Exception as exc:
                        # raising is C05's business; for C02 it is "did not change anything" unless the digest moved
                        res.count("obs_altered_copy_raised")
                    after = digest(R)
                    altered += 1
                    classes[cls] = classes.get(cls, 0) + 1
                    res.count("altered_ptype_" + view.ptype)
                    if after != before:
                        changed = [DIGEST_FIELDS[i] for i in range(len(before)) if before[i] != after[i]]
                        res.violation(
                            "tamper:%s:%s-changed" % (view.ptype, "+".join(changed)[:60]),
                            "altered copy (%s) of a %s packet changed the %s's observable state: %s" % (cls, view.ptype, recv_name, changed),
                            case,
                            {"state": state, "alteration": cls, "packet_len": len(pkt), "before": repr(before)[:600], "after": repr(after)[:600]},
                        )
                        stop = True
                        break
                res.nontrivial.add(h("tamper", flight, suite, version, state))
                if stop:
                    break
        if stop:
            break
        if sender == "client" and data and data[0] & 0x80 and len(data) > 7:
            # what an observer of the wire knows about the client's connection IDs and version
            dl = data[5]
            wire_ids = {"version": int.from_bytes(data[1:5], "big"), "dcid": data[6 : 6 + dl], "scid": data[7 + dl : 7 + dl + data[6 + dl]]}
        elif sender == "client" and data and wire_ids is not None:
            wire_ids["dcid"] = data[1 : 1 + len(wire_ids["dcid"])]
        if recv_name == "client" and batch["role"] == "client" and server_packet_processed and wire_ids is not None and R is not None and forged_retries < 6:
            # a Retry packet the server never sent, built by someone who watches the wire (the Retry integrity key is
            # public): once the client has processed a packet from the server it has to leave the client exactly as it
            # was (RFC 9000 17.2.5.2); the same goes for a second one after a genuine Retry
            from aioquic.quic.packet import encode_quic_retry

            forged = encode_quic_retry(version=wire_ids["version"], source_cid=bytes(rng.getrandbits(8) for _ in range(8)), destination_cid=wire_ids["scid"],
                                       original_destination_cid=wire_ids["dcid"], retry_token=b"forged-token")
            before = digest(R)
            try:
                R.receive_datagram(forged, ls.simnet.SERVER_ADDR, now=ls.now)
            except Exception:
                res.count("obs_altered_copy_raised")
            after = digest(R)
            forged_retries += 1
            res.count("forged_retries_after_server_packet")
            if after != before:
                changed = [DIGEST_FIELDS[i] for i in range(len(before)) if before[i] != after[i]]
                res.violation("tamper:forged-retry-after-server-packet:%s-changed" % "+".join(changed)[:60],
                              "a Retry packet the server never sent, delivered after the client had processed a server packet, changed the client's state: %s" % changed,
                              case, {"client_state": R._state.name, "handshake_complete": bool(R._handshake_complete), "before": repr(before)[:600], "after": repr(after)[:600]})
                break
        # now the genuine datagram
        before_sets = None
        if R is not None:
            before_sets = digest(R)
        ls.deliver(sender, data)
        R = ls.conn(recv_name)
        if sender == "server" and any(v.pn is not None and not v.error for v in views or []):
            server_packet_processed = True
        if R is not None and before_sets is not None and batch["role"] == recv_name:
            for off, ln, view in split_packets(data, views):
                if view.pn is None:
                    if view.ptype == "retry" and R._retry_count != 1:
                        res.violation("tamper:retry:genuine-not-accepted", "genuine Retry not accepted after altered copies", case, None)
                        stop = True
                    continue
                ep = {"initial": tls.Epoch.INITIAL, "handshake": tls.Epoch.HANDSHAKE, "0rtt": tls.Epoch.ONE_RTT, "1rtt": tls.Epoch.ONE_RTT}[view.ptype]
                sp = R._spaces.get(ep)
                closing = R._state.name in ("CLOSING", "DRAINING", "TERMINATED") or R._close_pending
                if sp is None or sp.discarded or closing:
                    res.count("genuine_unobservable")
                    continue
                if view.pn in sp.ack_queue:
                    accepted += 1
                else:
                    # keys for that epoch may legitimately not be available yet (e.g. Handshake packet before the Initial)
                    if R._cryptos[ep].recv.is_valid() if ep != tls.Epoch.INITIAL else True:
                        res.violation("tamper:%s:genuine-not-accepted" % view.ptype, "genuine %s packet pn=%d not accepted by the %s after altered copies were delivered" % (view.ptype, view.pn, recv_name), case, {"steps": steps})
                        stop = True
                        break
                    res.count("genuine_key_unavailable")
    res.count("altered_copies", altered)
    res.count("genuine_accepted", accepted)
    for k, v in classes.items():
        res.count("alter_" + k, v)
    res.count("tamper_datagrams_seen", dcount)
    res.evaluations += 1
    res.sample({"gen": "tamper", "suite": suite, "version": version, "flight": flight, "role": batch["role"], "altered_copies": altered,
                "genuine_accepted": accepted, "classes": classes, "retry_sent": ls.sent_retry}, limit=3)


GENS = {"unit": unit, "pn": pn, "wire": wire, "tamper": tamper}


def run_batch(batch):
    res = Result()
    t0 = time.time()
    GENS[batch["gen"]](batch, res)
    res.count("cpu_s_" + batch["gen"], round(time.time() - t0, 2))
    return res.as_dict()
