"""C18 — connection-ID lifecycle honours the peer's instructions.

Shape: ledger over the independent wire tap + a key-holding puppet peer P that instructs the
real endpoint E (the victim; client and server roles).

Workload setup (documented, not part of the property): aioquic has no configuration knob for
`active_connection_id_limit`, it always advertises the instance attribute
`_local_active_connection_id_limit` (8).  To vary the limits, the attribute is patched on the
freshly constructed connection objects *before* the first flight is produced, so the patched
value is what gets serialised into the transport parameters (checked through the value the
other, real endpoint parsed from the wire).  After the genuine handshake the Puppet takes the
place of the real peer.  Every history starts from its own fresh handshake (~30 ms with cached configurations; a forked
snapshot costs ~100 ms of copy-on-write faults on this VM, so re-handshaking is cheaper).

Oracle clauses (numbers as in DESIGN.md / the lead's brief):
 (1) after a NEW_CONNECTION_ID with retire_prior_to was delivered, every 1-RTT packet E emits
     carries a DCID that P issued and whose sequence number is >= the largest retire_prior_to
     delivered so far (packets carrying CONNECTION_CLOSE are exempt);
 (2) every P-issued ID that E no longer holds (hooked: not `_peer_cid`, not in
     `_peer_cid_available`) has been announced in a RETIRE_CONNECTION_ID on the wire, and when all
     packets that carried the announcement were left unacknowledged, it is announced again within
     8 PTO of a fair phase;
 (3) when P exceeds E's advertised limit E closes with CONNECTION_ID_LIMIT_ERROR; hooked count
     1+len(_peer_cid_available) <= limit after every step;
 (4) IDs issued by E (+1) minus IDs retired by P <= P's limit at every NEW_CONNECTION_ID E emits;
     sequence numbers unique and increasing;
 (5) every ack-eliciting packet P addresses to an ID E issued and P has not retired is acknowledged;
 (6) every legal retirement by P is answered by a NEW_CONNECTION_ID with a fresh sequence number
     within 4 PTO;
 (7) no exception escapes an API call.
Frames that are protocol violations by P itself put the history into the
must-not-raise-only region.
"""

from __future__ import annotations

import random
import signal
import time
import traceback

from ..common import Result, SeededUrandom, exc_signature, exc_witness, h

PROPERTY = "C18"
BUILD = "plain"
LEVEL = "exploration"
BUDGET = {"quick": 75, "thorough": 1300}
BATCH_TIMEOUT = {"quick": 300, "thorough": 1800}
RULE = (
    "after a genuine handshake (E = client or server; P's advertised active_connection_id_limit in {2,3,4,8,16}, "
    "E's in {2,3,8,16}) a key-holding puppet P runs seeded histories of 5-150 steps: NEW_CONNECTION_ID in/out of order, "
    "gaps, exact repeats, repeats with changed retire_prior_to, same number with a different CID, retire_prior_to in "
    "{0, <=current, current+1, seq-1, seq, >seq}, IDs arriving below an earlier retire_prior_to; RETIRE_CONNECTION_ID for "
    "issued / addressed / already retired / never issued numbers; P switching the DCID it uses; local change_connection_id() "
    "(also with no spare); selective ACK withholding for E packets that carry RETIRE/NEW_CONNECTION_ID frames; timer firing; "
    "'blocked' profile: E has a 400 kB send_stream_data() upload in flight and P withholds the ACKs of the data packets, so E's "
    "congestion window is exhausted (no probe pending) when change_connection_id() / a retiring NEW_CONNECTION_ID / P's DCID "
    "switch / P's RETIRE_CONNECTION_ID makes a RETIRE or NEW_CONNECTION_ID frame pending; the fair phase then acknowledges everything. "
    "non-trivial = E emitted a RETIRE_CONNECTION_ID or NEW_CONNECTION_ID frame, changed its DCID or closed with a CID error; "
    "distinct = hash of (E role, limits, sequence of op-kind/relation-to-state/outcome classes)."
)
ASSUMPTIONS = [
    "limits are varied by patching _local_active_connection_id_limit on the connection objects before the first flight "
    "(no public knob exists); the value is confirmed through what the real peer parsed from the wire",
    "'abandoned' is read from E's own state (hook: a P-issued ID is abandoned when it is neither _peer_cid nor in "
    "_peer_cid_available); PTO bounds use E's own _loss.get_probe_timeout() (base value, no back-off)",
    "after a frame that is a protocol violation by P (retire_prior_to > seq, same number with another CID, same CID under "
    "another number, retiring the addressed or a never-issued ID), or once P's legal instructions leave E without any "
    "usable ID, only 'no exception escapes' is checked",
    "packets carrying CONNECTION_CLOSE are exempt from the DCID clause; an ID whose retirement E itself put on the wire in an "
    "earlier packet (abandoned and announced) must not be addressed again, and a CONNECTION_ID_LIMIT_ERROR while the IDs P "
    "delivered and E has not announced as retired number at most E's advertised limit is a wrong accusation",
    "retransmission of lost NEW_CONNECTION_ID frames is not demanded by the statement and only counted",
]

CID_LIMIT_ERROR = 0x9
P_LIMITS = [2, 3, 4, 8, 16]
E_LIMITS = [2, 3, 8, 16]


def floors(tier):
    return {
        "histories": 100,
        "c1_dcid_checked": 2000,
        "c2_abandoned_ids_checked": 200,
        "c2_reannounce_checked": 20,
        "c3_must_close_checked": 10,
        "c3_hooked_checked": 2000,
        "c4_issued_checked": 100,
        "c5_packets_ack_checked": 2000,
        "c6_replacement_checked": 100,
        "ops_while_cwnd_blocked": 50,
        "c2_retire_queued_while_cwnd_blocked": 20,
        "c6_new_cid_queued_while_cwnd_blocked": 5,
    }


def finalize(tier, merged):
    return {"histories": int(merged.get("histories", 0)), "steps": int(merged.get("steps", 0))}


def plan(tier, seed):
    rng = random.Random(seed * 7919 + 18)
    combos = [(role, pl, el) for role in ("client", "server") for pl in P_LIMITS for el in E_LIMITS]
    batches = []
    rounds, n = (2, 56) if tier == "quick" else (40, 100)
    k = 0
    for rnd in range(rounds):
        order = combos[:]
        rng.shuffle(order)
        for role, pl, el in order:
            batches.append({"gen": "hist", "role": role, "plimit": pl, "elimit": el, "seed": seed * 1000003 + k, "n": n})
            k += 1
    return batches


# ------------------------------------------------------------------------------------ set-up


def mkcid(seq, variant=0):
    return bytes([0xC1, variant & 0xFF]) + (seq & 0xFFFFFF).to_bytes(3, "big") + bytes([0x18, (seq * 7 + variant) & 0xFF, 0x5A])


def mktoken(seq, variant=0):
    return bytes([0x70 + (variant & 0xF)]) + (seq & 0xFFFFFF).to_bytes(3, "big") * 5


_CFG_CACHE = {}


def _configs():
    """QuicConfiguration pair, built once per process (loading the RSA key costs ~95 ms); every
    handshake gets shallow copies with its own key-log sink."""
    import copy
    import io

    from ..simnet import make_configs

    if "c" not in _CFG_CACHE:
        _CFG_CACHE["c"] = make_configs({})
    ccfg, scfg = (copy.copy(x) for x in _CFG_CACHE["c"])
    keylog = io.StringIO()
    ccfg.secrets_log_file = keylog
    scfg.secrets_log_file = keylog
    return ccfg, scfg, keylog


def prepare(cfg):
    """Genuine handshake with patched limits (~30 ms). Returns dict(pair, ...).

    cfg: role (E's role), plimit, elimit, seed."""
    from ..puppet import HandshakePair
    from ..refwire import Tap

    role_e = cfg["role"]
    p_name = "server" if role_e == "client" else "client"
    limit_of = {role_e: cfg["elimit"], p_name: cfg["plimit"]}

    class Pair(HandshakePair):
        def __init__(self, seed):
            # same attributes as HandshakePair.__init__, with cached configurations
            from aioquic.quic.connection import QuicConnection

            self.opts = {}
            self.ccfg, self.scfg, self.keylog = _configs()
            self.client = QuicConnection(configuration=self.ccfg)
            self.server = None
            self.server_conn_kwargs = {}
            self.now = 0.0
            self.events = {"client": [], "server": []}
            self.client_odcid = None
            self.wire = []

        def transfer(self, sender, limit=None):
            if sender == "client" and self.server is None:
                from aioquic.quic.connection import QuicConnection

                self.server = QuicConnection(
                    configuration=self.scfg,
                    original_destination_connection_id=self.client_odcid,
                    **self.server_conn_kwargs,
                )
                # workload set-up: before the server has serialised its transport parameters
                self.server._local_active_connection_id_limit = limit_of["server"]
            return super().transfer(sender, limit)

    SeededUrandom(cfg["seed"]).install()
    pair = Pair(cfg["seed"])
    pair.client._local_active_connection_id_limit = limit_of["client"]
    pair.complete()
    e_conn = pair.client if role_e == "client" else pair.server
    p_conn = pair.server if role_e == "client" else pair.client
    # the limits really went over the wire: read what the *other* endpoint parsed
    if e_conn._remote_active_connection_id_limit != cfg["plimit"] or p_conn._remote_active_connection_id_limit != cfg["elimit"]:
        raise RuntimeError("patched active_connection_id_limit did not reach the transport parameters")

    # independent reading of everything both sides said during the handshake
    tap = Tap({"client": pair.ccfg.connection_id_length, "server": pair.scfg.connection_id_length})
    tap.add_keylog(pair.keylog.getvalue())
    tap.initial_dcids.append(pair.client_odcid)
    tap.client_odcid = pair.client_odcid
    issued = {"client": {}, "server": {}}
    pns = {"client": set(), "server": set()}
    scid = {}
    last_dcid = {}
    for sender, data in pair.wire:
        for v in tap.on_datagram(sender, data, 0.0):
            if v.error:
                raise RuntimeError("tap cannot read handshake packet: %s" % v.error)
            if v.ptype in ("initial", "handshake"):
                scid[sender] = v.scid
            if v.ptype == "1rtt":
                pns[sender].add(v.pn)
                last_dcid[sender] = v.dcid
                for f in v.frames:
                    if f["name"] == "NEW_CONNECTION_ID":
                        issued[sender][f["seq"]] = f["cid"]
    for name in ("client", "server"):
        issued[name][0] = scid[name]
    if last_dcid.get(p_name) != issued[role_e][0]:
        raise RuntimeError("unexpected DCID in the real peer's last packet")
    return {
        "pair": pair,
        "p_name": p_name,
        "p_cids": issued[p_name],
        "e_cids": issued[role_e],
        "e_pns": pns[role_e],
    }


# ------------------------------------------------------------------------------------ history


class Stop(Exception):
    pass


PROFILES = {
    # weights of op kinds
    "balanced": {"ncid_new": 10, "ncid_pair_desc": 3, "ncid_repeat": 6, "retire": 8, "change": 7, "drain": 1, "switch": 4,
                 "ping": 4, "ping_all": 1, "ping_retired": 1, "ack": 7, "timer": 2, "settle": 1, "burst": 2},
    "ncid": {"ncid_new": 14, "ncid_pair_desc": 5, "ncid_repeat": 10, "retire": 1, "change": 8, "drain": 2, "switch": 2,
             "ping": 1, "ping_all": 0, "ping_retired": 0, "ack": 5, "timer": 1, "settle": 1},
    "retire": {"ncid_new": 2, "ncid_pair_desc": 0, "ncid_repeat": 1, "retire": 14, "change": 2, "drain": 0, "switch": 6,
               "ping": 5, "ping_all": 2, "ping_retired": 2, "ack": 6, "timer": 2, "settle": 1},
    # E has a bulk upload in flight and P withholds the ACKs for the data packets: E is cwnd-blocked when
    # the retirement / replacement becomes pending (see op_upload)
    "blocked": {"ncid_new": 0, "ncid_pair_desc": 0, "ncid_repeat": 0, "retire": 0, "change": 0, "drain": 0, "switch": 0,
                "ping": 1, "ping_all": 0, "ping_retired": 0, "ack": 2, "timer": 1, "settle": 3, "blocked_op": 16},
    "loss": {"ncid_new": 8, "ncid_pair_desc": 2, "ncid_repeat": 3, "retire": 6, "change": 10, "drain": 1, "switch": 3,
             "ping": 2, "ping_all": 0, "ping_retired": 0, "ack": 12, "timer": 5, "settle": 3, "burst": 4},
}


class Hist:
    def __init__(self, prep, cfg, res):
        from ..puppet import Puppet

        self.cfg = cfg
        self.res = res
        self.pup = Puppet(prep["pair"], me=prep["p_name"])
        self.E = self.pup.victim
        self.elimit, self.plimit = cfg["elimit"], cfg["plimit"]
        self.wh = list(cfg.get("wh") or [])
        self.wh_enabled = True
        self.ops = []  # concrete ops executed so far (replayable)
        # ---- IDs issued by P
        self.p_cid = dict(prep["p_cids"])  # seq -> cid (first delivered)
        self.p_seq_of = {c: s for s, c in self.p_cid.items()}
        self.p_delivered = set(self.p_cid)
        self.p_late = set()  # arrived below an earlier retire_prior_to
        self.r = 0
        self.frames_sent = []  # (seq, rpt, variant)
        # ---- IDs issued by E
        self.e_cid = dict(prep["e_cids"])
        self.e_seq_of = {c: s for s, c in self.e_cid.items()}
        self.e_retired = set()
        self.e_max = max(self.e_cid)
        self.fresh_issued = 0  # new sequence numbers seen since take-over
        self.obligations = []  # [retired seq, deadline, index]
        self.legal_retires = 0
        self.p_default = 0
        # ---- wire ledger
        self.e_pns = set(prep["e_pns"])
        self.withheld = set()
        self.carrier_count = 0
        self.retire_carriers = {}  # seq -> [pn]
        self.p_unacked = {}  # pn -> (t, to)
        self.closed = None
        self.strict = True  # False: only 'no exception' is checked
        self.no_usable = False  # P left E without any usable ID (clause (1) suspended until P supplies one)
        self.why_lenient = None
        self.trace = []
        self.nontrivial = False
        self.last_dcid_seq = None
        self.violated = False
        self.reported_late = set()
        # bulk upload / cwnd blocking
        self.block_mode = False  # True: P does not acknowledge E packets that carry STREAM data
        self.data_withheld = set()  # released (acknowledged) in the next fair phase
        self.stream_id = None
        self.uploaded = 0

    # -------------------------------------------------------------- reporting
    def case(self):
        c = {k: self.cfg[k] for k in ("role", "plimit", "elimit", "seed")}
        c.update({"gen": "replay", "ops": [list(o) for o in self.ops], "wh": self.wh})
        return c

    def violation(self, sig, what, witness=None, stop=True):
        w = {"history_tail": [list(map(str, x)) for x in self.pup.history[-12:]], "trace_tail": self.trace[-12:], "t": self.pup.now}
        if witness:
            w.update(witness)
        self.res.violation(sig, what, self.case(), w)
        self.violated = True
        if stop:
            raise Stop()

    def api(self, fn, *a, **kw):
        from ..simnet import ApiRaised

        try:
            return fn(*a, **kw)
        except ApiRaised as ar:
            exc = ar.exc
            if isinstance(exc, _Timeout):
                # the harness's own wall-clock watchdog fired while the victim was inside an API call (loaded
                # machine): inconclusive for this history, never a verdict about the library
                raise exc
            self.res.count("c7_raised")
            w = exc_witness(exc)
            w["call"] = ar.call
            self.violation("raised:" + exc_signature(exc), "%s.%s raised %r" % (ar.endpoint, ar.call, exc), w)

    def lenient(self, why):
        if self.strict:
            self.strict = False
            self.why_lenient = why
            self.res.count("lenient:" + why)

    # -------------------------------------------------------------- wire reading
    def e_state(self):
        E = self.E
        return E._peer_cid.sequence_number, [c.sequence_number for c in E._peer_cid_available]

    def on_views(self, views):
        for v in views:
            if v.ptype == "padding":
                continue
            if v.error:
                raise RuntimeError("tap cannot read a packet of E: %s" % v.error)
            if v.ptype != "1rtt":
                self.res.count("obs_long_header_packets_after_handshake")
                continue
            self.e_pns.add(v.pn)
            self.res.count("packets_tapped")
            names = [f["name"] for f in v.frames]
            closing = "CONNECTION_CLOSE" in names or "CONNECTION_CLOSE_APP" in names
            # ---- clause (1)
            seq = self.p_seq_of.get(v.dcid)
            if seq != self.last_dcid_seq:
                if self.last_dcid_seq is not None:
                    self.nontrivial = True
                    self.res.count("obs_dcid_switches")
                self.last_dcid_seq = seq
            if self.strict and not closing:
                self.res.count("c1_dcid_checked")
                if self.r > 0:
                    self.res.count("c1_dcid_checked_after_retire_prior_to")
                if seq is None:
                    self.violation("dcid:not-issued-by-peer", "E addressed a packet to %s which P never issued" % v.dcid.hex(), {"pn": v.pn})
                if seq < self.r and self.no_usable:
                    self.res.count("c1_dcid_below_retire_prior_to_while_no_usable_id")
                elif seq < self.r:
                    self.violation(
                        "dcid:below-retire-prior-to",
                        "E addressed packet pn=%d to ID #%d after retire_prior_to=%d was delivered" % (v.pn, seq, self.r),
                        {"pn": v.pn, "frames": names},
                    )
                if seq in self.retire_carriers and any(p < v.pn for p in self.retire_carriers[seq]):
                    # E announced the retirement of this ID in an earlier packet ("abandons"): P may have dropped it,
                    # a packet addressed to it goes nowhere (RFC 9000 19.16: the ID "will no longer be used")
                    self.res.count("dcid_used_again_after_own_retirement")
                    self.violation(
                        "dcid:used-again-after-own-retirement",
                        "E addressed packet pn=%d to ID #%d although it announced the retirement of that ID in packet(s) %r"
                        % (v.pn, seq, sorted(self.retire_carriers[seq])[:4]),
                        {"pn": v.pn, "frames": names},
                    )
            carrier = False
            if self.block_mode and "STREAM" in names:
                self.data_withheld.add(v.pn)
                self.res.count("data_packets_ack_withheld")
            for f in v.frames:
                n = f["name"]
                if n == "ACK":
                    if self.p_unacked:
                        for pn in [p for p in self.p_unacked if any(lo <= p <= hi for lo, hi in f["ranges"])]:
                            del self.p_unacked[pn]
                            self.res.count("c5_packets_ack_checked")
                elif n == "NEW_CONNECTION_ID":
                    carrier = True
                    self.nontrivial = True
                    self._on_issued(f, v)
                elif n == "RETIRE_CONNECTION_ID":
                    carrier = True
                    self.nontrivial = True
                    self.res.count("retire_frames_seen")
                    if f["seq"] in self.retire_carriers:
                        self.res.count("retire_frames_repeated")
                    self.retire_carriers.setdefault(f["seq"], []).append(v.pn)
                    if f["seq"] not in self.p_delivered:
                        self.res.count("obs_retire_of_unknown_seq")
                elif n in ("CONNECTION_CLOSE", "CONNECTION_CLOSE_APP"):
                    if self.closed is None:
                        self.closed = (f["error_code"], n.endswith("APP"), bytes(f["reason"]).decode("utf8", "replace"))
                        self.res.count("close:0x%x:%s" % (f["error_code"], self.closed[2][:40].replace(" ", "-")))
            if carrier:
                k = self.carrier_count
                self.carrier_count += 1
                if self.wh_enabled and k < len(self.wh) and self.wh[k]:
                    self.withheld.add(v.pn)
                    self.res.count("carriers_withheld")

    def _on_issued(self, f, v):
        seq, cid = f["seq"], f["cid"]
        self.res.count("c4_issued_checked")
        if seq in self.e_cid:
            if self.e_cid[seq] != cid:
                self.violation("issue:sequence-number-reused-for-different-cid", "E issued #%d twice with different CIDs" % seq, {"pn": v.pn})
            self.res.count("obs_new_connection_id_retransmitted")
            return
        if seq <= self.e_max:
            self.violation("issue:sequence-number-not-increasing", "E issued #%d after #%d" % (seq, self.e_max), {"pn": v.pn})
        if cid in self.e_seq_of:
            self.violation("issue:cid-issued-under-two-numbers", "E issued CID %s as #%d and #%d" % (cid.hex(), self.e_seq_of[cid], seq), {"pn": v.pn})
        self.e_cid[seq] = cid
        self.e_seq_of[cid] = seq
        self.e_max = seq
        self.fresh_issued += 1
        self._check_issued_count("pn=%s" % v.pn)
        # discharge replacement obligations in order
        for ob in self.obligations:
            if ob[2] <= self.fresh_issued and not ob[3]:
                ob[3] = True
                self.res.count("c6_replacement_checked")

    def _check_issued_count(self, where):
        active = len(self.e_cid) - len(self.e_retired)
        if active > self.plimit:
            self.violation(
                "issue:more-active-ids-than-peer-limit",
                "E has issued %d IDs of which P retired %d: %d active > P's active_connection_id_limit %d (%s)"
                % (len(self.e_cid), len(self.e_retired), active, self.plimit, where),
            )

    # -------------------------------------------------------------- sending
    def ack_payload(self):
        from .. import frames as F

        pns = sorted(self.e_pns - self.withheld - self.data_withheld)
        if not pns:
            return b""
        ranges = []
        start = prev = pns[0]
        for p in pns[1:]:
            if p == prev + 1:
                prev = p
                continue
            ranges.append((start, prev))
            start = prev = p
        ranges.append((start, prev))
        return F.f_ack(ranges[-20:])

    def send(self, payload, to=None, must_ack=True):
        seq = self.p_default if to is None else to
        pn = self.pup.next_pn["A"]
        dg = self.pup.packet("1rtt", payload, dcid=self.e_cid[seq])
        if must_ack:
            self.p_unacked[pn] = (self.pup.now, seq)
        self.on_views(self.api(self.pup.deliver, dg))
        return pn

    def fire_due(self, horizon=0.002, steps=4):
        for _ in range(steps):
            if self.pup.terminated is not None:
                break
            v = self.api(self.pup.fire_timer, horizon)
            if v is None:
                break
            self.on_views(v)

    def pto(self):
        return self.E._loss.get_probe_timeout()

    def post_step(self):
        self.fire_due()
        self.res.count("steps")
        if self.closed is not None or self.pup.terminated is not None:
            return
        if self.strict:
            cur, avail = self.e_state()
            self.res.count("c3_hooked_checked")
            if 1 + len(avail) > self.elimit:
                self.violation(
                    "limit:holds-more-peer-ids-than-advertised",
                    "E holds current #%s + spares %r > advertised limit %d without closing" % (cur, avail, self.elimit),
                )

    # -------------------------------------------------------------- operations
    def do(self, op):
        self.ops.append(list(op))
        kind = op[0]
        blocked = kind != "upload" and self._blocked_now()
        getattr(self, "op_" + kind)(*op[1:])
        if blocked and self.closed is None:
            # evidence that the blocking did its job: frames are pending and could not be written
            self.res.count("ops_while_cwnd_blocked")
            self.res.count("ops_while_cwnd_blocked:" + kind)
            if self.E._retire_connection_ids:
                self.res.count("c2_retire_queued_while_cwnd_blocked")
            if any(not c.was_sent for c in self.E._host_cids):
                self.res.count("c6_new_cid_queued_while_cwnd_blocked")
        if self.closed is None:
            self.post_step()

    def op_ncid(self, seq, rpt, variant, to):
        from .. import frames as F

        cid = mkcid(seq, variant)
        fresh = seq not in self.p_cid
        legal = True
        if rpt > seq:
            legal = False
            rel = "rpt>seq"
        elif not fresh and self.p_cid[seq] != cid:
            legal = False
            rel = "dup-different-cid"
        elif cid in self.p_seq_of and self.p_seq_of[cid] != seq:
            legal = False
            rel = "cid-under-two-numbers"
        cur, avail = self.e_state()
        pending_unannounced = len(self.E._retire_connection_ids)
        if legal:
            new_r = max(self.r, rpt)
            rel = "%s:%s:%s" % (
                "fresh" if fresh else "dup",
                "late" if seq < new_r else ("cur" if seq == cur else ("spare" if seq in avail else ("new" if fresh else "gone"))),
                "rpt0" if rpt == 0 else ("rpt<=r" if rpt <= self.r else ("rpt<=cur" if rpt <= cur else ("rpt=seq" if rpt == seq else "rpt>cur"))),
            )
            if fresh:
                self.p_cid[seq] = cid
                self.p_seq_of[cid] = seq
                self.p_delivered.add(seq)
                if seq < new_r:
                    self.p_late.add(seq)
            self.r = new_r
            # which IDs can E still use? delivered, at/above r, not announced as retired by E and still held
            held = set([cur] + avail)
            if fresh and seq >= self.r:
                held.add(seq)
            usable = [s for s in held if s >= self.r]
            if not usable:
                # P's legal instructions leave E without any ID at or above retire_prior_to: E has to stay on the one it
                # uses until P supplies another; the destination-ID clause is suspended until then, not for good
                self.res.count("obs_legal_instructions_leave_E_without_usable_id")
                self.no_usable = True
            elif self.no_usable:
                self.no_usable = False
                self.res.count("usable_id_supplied_after_E_had_none")
        else:
            self.lenient("illegal-by-P:" + rel)
        self.frames_sent.append((seq, rpt, variant))
        self.send(F.f_new_connection_id(seq, rpt, cid, mktoken(seq, variant)), to=to)
        out = "closed:0x%x" % self.closed[0] if self.closed else "ok"
        self.trace.append("ncid:%s:%s" % (rel, out))
        if legal and self.strict:
            # clause (3): P-issued IDs E is asked to keep = delivered, >= r, not yet announced as retired
            kept = [s for s in self.p_delivered if s >= self.r and s not in self.retire_carriers]
            if fresh and seq >= self.r and pending_unannounced == 0:
                if len(kept) > self.elimit:
                    self.res.count("c3_must_close_checked")
                    if self.closed is None or self.closed[1] or self.closed[0] != CID_LIMIT_ERROR:
                        self.violation(
                            "limit:exceeded-without-CONNECTION_ID_LIMIT_ERROR",
                            "P made E keep %d IDs %r (> advertised %d); E %s"
                            % (len(kept), sorted(kept), self.elimit, "closed with %r" % (self.closed,) if self.closed else "did not close"),
                        )
                else:
                    self.res.count("c3_within_limit_checked")
                    if self.closed is not None and self.closed[0] == CID_LIMIT_ERROR and not self.closed[1]:
                        # P counts every ID it delivered, at or above retire_prior_to, whose retirement E has not put on
                        # the wire: E's own count cannot be larger (nothing was pending), so the accusation is wrong
                        self.violation(
                            "limit:CONNECTION_ID_LIMIT_ERROR-within-limit",
                            "P made E keep %d IDs %r (<= advertised %d) and E closed with CONNECTION_ID_LIMIT_ERROR (%r)"
                            % (len(kept), sorted(kept), self.elimit, self.closed[2]),
                        )
        if self.closed is not None and legal and self.strict and self.closed[0] != CID_LIMIT_ERROR:
            self.res.count("obs_close_on_legal_new_connection_id:0x%x" % self.closed[0])

    def op_retire(self, seq, to):
        from .. import frames as F

        to_seq = self.p_default if to is None else to
        if seq > self.e_max:
            rel = "never-issued"
            self.lenient("illegal-by-P:retire-never-issued")
        elif seq == to_seq:
            rel = "addressed"
            self.lenient("illegal-by-P:retire-addressed-id")
        elif seq in self.e_retired:
            rel = "already-retired"
        else:
            rel = "issued"
            self.e_retired.add(seq)
            self.legal_retires += 1
            if self.strict:
                self.obligations.append([seq, self.pup.now + 4 * self.pto(), self.legal_retires, False])
            if self.p_default == seq:
                self.p_default = to_seq
        self.send(F.f_retire_connection_id(seq), to=to)
        self.trace.append("retire:%s:%s" % (rel, "closed:0x%x" % self.closed[0] if self.closed else "ok"))
        if self.closed is not None and self.strict:
            self.res.count("obs_close_on_legal_retire:0x%x" % self.closed[0])

    def op_change(self):
        cur, avail = self.e_state()
        self.api(self.pup.call, "change_connection_id")
        self.on_views(self.api(self.pup.transmit))
        cur2, _ = self.e_state()
        self.trace.append("change:%s" % ("no-spare" if not avail else ("switched" if cur2 != cur else "stayed")))
        self.res.count("local_change_calls" + ("_without_spare" if not avail else ""))

    def op_switch(self, to):
        self.p_default = to
        self._ping(to, "switch")

    def op_ping(self, to):
        self._ping(to, "ping")

    def _ping(self, to, label):
        from .. import frames as F

        pn = self.send(F.f_ping(), to=to)
        t_end = self.pup.now + self.pto()
        self.fire_due()
        while pn in self.p_unacked and self.closed is None and self.pup.terminated is None:
            v = self.api(self.pup.fire_timer, max(0.0, t_end - self.pup.now))
            if v is None:
                break
            self.on_views(v)
        self.trace.append(label)
        if self.strict and self.closed is None and pn in self.p_unacked:
            cur_host = self.e_seq_of.get(bytes(self.E.host_cid))
            self.violation(
                "accept:ping-to-issued-id-not-acknowledged",
                "PING pn=%d addressed to E's ID #%s (issued, not retired by P; E.host_cid is #%s) was not acknowledged within 1 PTO"
                % (pn, to if to is not None else self.p_default, cur_host),
            )
        self.res.count("c5_pings_checked")

    def op_ping_all(self, order_seed):
        valid = sorted(set(self.e_cid) - self.e_retired)
        random.Random(order_seed).shuffle(valid)
        for s in valid:
            if self.closed is not None:
                break
            self._ping(s, "ping_all")

    def op_burst(self, order_seed):
        """Several datagrams arrive back to back (one receive batch): E processes all of them before it gets to transmit.
        First P's acknowledgements (withheld carriers excepted, which is what makes E declare them lost), then one PING
        to every ID that E issued and P did not retire — including IDs whose announcement E has just declared lost."""
        from .. import frames as F

        dgs = []
        p = self.ack_payload()
        if p:
            dgs.append(self.pup.packet("1rtt", p, dcid=self.e_cid[self.p_default]))
        valid = sorted(set(self.e_cid) - self.e_retired)
        random.Random(order_seed).shuffle(valid)
        sent = {}
        for s_ in valid:
            pn = self.pup.next_pn["A"]
            dgs.append(self.pup.packet("1rtt", F.f_ping(), dcid=self.e_cid[s_]))
            sent[pn] = s_
        self.pup.now += 0.001
        for pn, s_ in sent.items():
            self.p_unacked[pn] = (self.pup.now, s_)
        for dg in dgs:
            self.api(self.pup.call, "receive_datagram", dg, self.pup.addr, now=self.pup.now)
        self.on_views(self.api(self.pup.transmit))
        t_end = self.pup.now + self.pto()
        self.fire_due()
        while any(pn in self.p_unacked for pn in sent) and self.closed is None and self.pup.terminated is None:
            v = self.api(self.pup.fire_timer, max(0.0, t_end - self.pup.now))
            if v is None:
                break
            self.on_views(v)
        self.trace.append("burst")
        self.res.count("c5_bursts")
        for pn, s_ in sent.items():
            self.res.count("c5_pings_checked")
            if self.strict and self.closed is None and pn in self.p_unacked:
                self.violation(
                    "accept:ping-to-issued-id-not-acknowledged",
                    "PING pn=%d addressed to E's ID #%s (issued, not retired by P) in a batch of %d datagrams was not acknowledged within 1 PTO" % (pn, s_, len(dgs)),
                )

    def op_ping_retired(self, to):
        from .. import frames as F

        # not an obligation either way: observation + no exception
        if to not in self.e_retired:
            return
        pn = self.pup.next_pn["A"]
        self.send(F.f_ping(), to=to, must_ack=False)
        self.p_unacked[pn] = (self.pup.now, to)
        self.fire_due(0.005)
        acked = pn not in self.p_unacked
        self.p_unacked.pop(pn, None)
        self.res.count("obs_ping_to_retired_id_" + ("acked" if acked else "ignored"))
        self.trace.append("ping_retired:" + ("acked" if acked else "ignored"))

    def op_ack(self, with_ping):
        from .. import frames as F

        p = self.ack_payload()
        if not p:
            return
        if with_ping:
            self.send(F.f_ping() + p)
        else:
            self.send(p, must_ack=False)
        self.trace.append("ack")

    def op_upload(self, nbytes):
        """E starts (or continues) a bulk upload; from now on P leaves every E packet that carries STREAM
        data unacknowledged, and E is driven (pacing timers only, never the PTO) until its congestion
        window is exhausted.  The next op therefore finds E unable to write in-flight frames."""
        if self.stream_id is None:
            self.stream_id = self.api(self.pup.call, "get_next_available_stream_id")
        self.block_mode = True
        if nbytes:
            self.api(self.pup.call, "send_stream_data", self.stream_id, bytes(nbytes), False)
            self.uploaded += nbytes
        for _ in range(400):
            views = self.api(self.pup.transmit)
            self.on_views(views)
            if self.closed is not None or self.pup.terminated is not None:
                break
            later = self.api(self.pup.fire_timer, 0.004)  # pacing gaps; the PTO lies >= 1 PTO after the last send
            if later:
                self.on_views(later)
            if not views and not later:
                break
        loss = self.E._loss
        room = loss.congestion_window - loss.bytes_in_flight
        self.trace.append("upload:" + ("blocked" if room < 64 else "open"))
        self.res.count("uploads_started" if nbytes else "uploads_reblocked")

    def _blocked_now(self):
        loss = self.E._loss
        return self.block_mode and loss.congestion_window - loss.bytes_in_flight < 48 and not self.E._probe_pending

    def op_timer(self, n):
        for _ in range(n):
            if self.closed is not None or self.pup.terminated is not None:
                break
            v = self.api(self.pup.fire_timer, 2.0)
            if v is None:
                break
            self.on_views(v)
        self.trace.append("timer")

    def op_settle(self):
        self.settle()
        self.trace.append("settle")

    # -------------------------------------------------------------- fair phase + end-of-history clauses
    def outstanding(self):
        cur, avail = self.e_state()
        held = set([cur] + avail)
        # a packet counts as unacknowledged once E's delayed-ACK timer (1 ms) must have fired
        grace = self.pto() / 8
        out = {"unannounced": [], "lost": [], "unreplaced": [],
               "unacked": sorted(p for p, (t, _to) in self.p_unacked.items() if t < self.pup.now - grace)}
        for s in sorted(self.p_delivered - held - self.reported_late):
            car = self.retire_carriers.get(s)
            if not car:
                out["unannounced"].append(s)
            elif all(p in self.withheld for p in car):
                out["lost"].append(s)
        out["unreplaced"] = [ob[0] for ob in self.obligations if not ob[3]]
        return out

    def settle(self):
        """Fair phase: P acknowledges everything except the withheld carriers, keeps E sending, lets
        virtual time pass; then the bounded-progress clauses are evaluated."""
        from .. import frames as F

        if not self.strict or self.closed is not None or self.pup.terminated is not None:
            return
        pto = self.pto()
        t0 = self.pup.now
        saved, self.wh_enabled = self.wh_enabled, False
        self.block_mode = False  # fair phase: the withheld data packets are acknowledged as well
        self.data_withheld.clear()
        had_lost = bool(self.outstanding()["lost"])
        rounds = 0
        out = None
        while self.closed is None and self.pup.terminated is None:
            self.send(F.f_ping() + self.ack_payload())
            self.fire_due()
            # let virtual time pass, then fire what is due (delayed ACK, pacing, loss timers).  With a bulk
            # upload in progress the pacing timer comes every few microseconds, so the delayed-ACK timer is
            # only reached after this jump: evaluate afterwards.
            self.pup.now += pto / 4
            self.fire_due(0.0, steps=8)
            rounds += 1
            out = self.outstanding()
            if not any(out.values()) and rounds >= 2:
                break
            if self.pup.now - t0 > 8 * pto:
                break
            if self.pup.now - t0 > 4 * pto and out["unreplaced"]:
                break
        self.wh_enabled = saved
        self.res.count("settle_phases")
        self.res.count("settle_rounds", rounds)
        if self.closed is not None or self.pup.terminated is not None or out is None:
            if self.closed is not None:
                self.res.count("obs_close_in_fair_phase:0x%x" % self.closed[0])
            return
        cur, avail = self.e_state()
        abandoned = self.p_delivered - set([cur] + avail)
        self.res.count("c2_abandoned_ids_checked", len(abandoned))
        if had_lost:
            self.res.count("c2_reannounce_checked")
        if out["lost"]:
            s = out["lost"][0]
            self.violation(
                "retire:not-repeated-after-loss",
                "RETIRE_CONNECTION_ID #%d was only carried by packets %r which P never acknowledged; not announced again within 8 PTO "
                "(%.3fs) of a fair phase in which P acknowledged %d later packets" % (s, self.retire_carriers[s], self.pup.now - t0, rounds),
            )
        if out["unannounced"]:
            late = [s for s in out["unannounced"] if s in self.p_late]
            other = [s for s in out["unannounced"] if s not in self.p_late]
            if other:
                self.violation(
                    "retire:abandoned-id-never-announced",
                    "P-issued IDs %r are no longer held by E (current #%s, spares %r) but were never announced in a RETIRE_CONNECTION_ID"
                    % (other, cur, avail),
                )
        if out["unacked"]:
            pn = out["unacked"][0]
            self.violation(
                "accept:packet-to-issued-id-not-acknowledged",
                "packet pn=%d addressed to E's ID #%d (issued, not retired by P) never acknowledged in the fair phase" % (pn, self.p_unacked[pn][1]),
            )
        if out["unreplaced"]:
            self.violation(
                "replace:retired-id-not-replaced",
                "P retired E's ID #%d; no NEW_CONNECTION_ID with a fresh sequence number within %.3fs (> 4 PTO) of the fair phase"
                % (out["unreplaced"][0], self.pup.now - t0),
            )
        late = [s for s in out["unannounced"] if s in self.p_late]
        if late:
            # reported, but the history goes on (the IDs are excluded from later evaluations)
            self.reported_late.update(late)
            self.violation(
                "retire:id-arriving-below-retire-prior-to-never-announced",
                "P-issued IDs %r arrived (reordered) after a retire_prior_to above them had been delivered; E dropped them "
                "without ever sending RETIRE_CONNECTION_ID within 8 PTO of a fair phase" % (late,),
                stop=False,
            )

    def finish(self):
        """End of history: fair phase, then drive E to quiescence / termination (no exception)."""
        if self.closed is None:
            self.settle()
        for _ in range(6):
            if self.pup.terminated is not None:
                break
            v = self.api(self.pup.fire_timer, None if self.closed is not None else 1.0)
            if v is None:
                break
            self.on_views(v)

    # -------------------------------------------------------------- generator
    def gen(self, rng, prof):
        """Next concrete op(s), chosen with knowledge of E's state (bias only; ops are recorded concretely)."""
        cur, avail = self.e_state()
        valid = sorted(set(self.e_cid) - self.e_retired)
        to = rng.choice(valid) if rng.random() < prof["p_other_dcid"] else None
        kinds = list(prof["w"])
        kind = rng.choices(kinds, [prof["w"][k] for k in kinds])[0]
        pmax = max(self.p_cid)
        illegal = rng.random() < prof["p_illegal"]
        if kind == "ncid_new":
            holes = [s for s in range(1, pmax) if s not in self.p_cid]
            c = rng.random()
            if c < 0.5 or (c >= 0.7 and not holes):
                seq = pmax + 1
            elif c < 0.7:
                seq = pmax + rng.randint(2, 4)
            else:
                seq = rng.choice(holes)
            rpt = self._pick_rpt(rng, seq, cur, avail, prof, illegal)
            return [["ncid", seq, rpt, 0, to]]
        if kind == "ncid_pair_desc":
            a, b = pmax + 2, pmax + 1
            ra = self._pick_rpt(rng, a, cur, avail, prof, False)
            rb = rng.choice([0, 0, self.r, min(b, max(ra, self.r))])
            return [["ncid", a, ra, 0, to], ["ncid", b, rb, 0, to]]
        if kind == "ncid_repeat":
            if not self.frames_sent:
                return [["ncid", pmax + 1, self._pick_rpt(rng, pmax + 1, cur, avail, prof, False), 0, to]]
            seq, rpt, variant = rng.choice(self.frames_sent[-6:] + self.frames_sent[:2])
            c = rng.random()
            if illegal:
                return [["ncid", seq, rpt, variant + 1, to]]
            if c < 0.4:
                return [["ncid", seq, rpt, variant, to]]
            return [["ncid", seq, rng.choice([seq, seq, min(seq, cur + 1), min(seq, cur), min(seq, self.r), 0]), variant, to]]
        if kind == "retire":
            to_seq = self.p_default if to is None else to
            c = rng.random()
            if illegal:
                return [["retire", rng.choice([to_seq, self.e_max + 1, self.e_max + 3]), to]]
            cands = [s for s in valid if s != to_seq]
            if c < 0.15 and self.e_retired:
                return [["retire", rng.choice(sorted(self.e_retired)), to]]
            if not cands:
                return [["ping", to]]
            s = rng.choice(cands)
            ops = [["retire", s, to]]
            if rng.random() < 0.4:
                others = [x for x in valid if x != s]
                ops.append(["ping", rng.choice(others)])
            return ops
        if kind == "change":
            return [["change"]] * rng.choice([1, 1, 2, 3])
        if kind == "drain":
            return [["change"]] * min(10, len(avail) + rng.choice([0, 1]))
        if kind == "switch":
            return [["switch", rng.choice(valid)]]
        if kind == "ping":
            return [["ping", to]]
        if kind == "ping_all":
            return [["ping_all", rng.randrange(1 << 16)]]
        if kind == "ping_retired":
            if not self.e_retired:
                return [["ping", to]]
            return [["ping_retired", rng.choice(sorted(self.e_retired))]]
        if kind == "blocked_op":
            ops = [["upload", 400000 if self.uploaded < 800000 else 0]]
            c = rng.random()
            others = [x for x in valid if x != self.p_default]
            if c < 0.3:
                ops += [["change"]] * rng.choice([1, 1, 2])
            elif c < 0.6:
                seq = pmax + 1
                ops.append(["ncid", seq, rng.choice([min(seq, cur + 1), seq, seq, max(0, seq - 1)]), 0, to])
            elif c < 0.8 and others:
                ops.append(["switch", rng.choice(others)])
            else:
                to_seq = self.p_default if to is None else to
                cands = [x for x in valid if x != to_seq]
                if cands:
                    ops.append(["retire", rng.choice(cands), to])
                else:
                    ops.append(["change"])
            if rng.random() < 0.25:
                ops.append(["change"])
            if rng.random() < 0.35:
                # P acknowledges what it may (withheld carriers of NEW_/RETIRE_CONNECTION_ID excepted, so that E declares
                # them lost while it cannot retransmit) and then addresses every ID it knows, including the ones whose
                # announcement E now believes lost: they were issued and not retired, E must keep accepting them
                ops += [["ping", None], ["ping", None], ["ping", None], ["burst", rng.randrange(1 << 30)], ["ping", None], ["ping", None], ["ping", None], ["burst", rng.randrange(1 << 30)]]
            if rng.random() < 0.5:
                ops.append(["settle"])
            return ops
        if kind == "burst":
            return [["burst", rng.randrange(1 << 30)]]
        if kind == "ack":
            return [["ack", rng.random() < 0.5]]
        if kind == "timer":
            return [["timer", rng.choice([1, 1, 2, 4])]]
        return [["settle"]]

    def _pick_rpt(self, rng, seq, cur, avail, prof, illegal):
        if illegal:
            return seq + rng.choice([1, 2, 5])
        cands = [0, 0, self.r, min(seq, cur), min(seq, cur + 1), max(0, seq - 1), seq]
        rpt = rng.choice(cands)
        # would this frame push E over its limit?  keep that to a minority of histories
        new_r = max(self.r, rpt)
        state = set([cur] + avail)
        if seq not in self.p_cid:
            state.add(seq)
        if len([s for s in state if s >= new_r]) > self.elimit and rng.random() > prof["p_exceed"]:
            rpt = rng.choice([seq, seq, max(0, seq - 1), min(seq, cur + 1)])
        return rpt


def history_params(rng):
    name = rng.choice(["balanced", "balanced", "ncid", "ncid", "retire", "loss", "blocked", "blocked"])
    prof = {
        "name": name,
        "w": PROFILES[name],
        "p_illegal": rng.choice([0.0, 0.0, 0.0, 0.01, 0.03]),
        "p_exceed": rng.choice([0.0, 0.05, 0.05, 0.3]),
        "p_other_dcid": rng.choice([0.0, 0.1, 0.4]),
    }
    steps = rng.choice([5, 10, 20, 40, 80, 150]) if name != "blocked" else rng.choice([5, 10, 20, 40])
    p_wh = rng.choice([0.0, 0.0, 0.3, 0.6, 1.0]) if name != "loss" else rng.choice([0.3, 0.6, 1.0])
    wh = [1 if rng.random() < p_wh else 0 for _ in range(rng.choice([4, 12, 30]))]
    return prof, steps, wh


def run_history(prep, cfg, res, ops=None, seed=None):
    """Generate-and-execute (ops is None) or replay a concrete op list."""
    if ops is None:
        rng = random.Random(seed)
        prof, steps, wh = history_params(rng)
        cfg = dict(cfg, wh=wh)
    hist = Hist(prep, cfg, res)
    res.count("histories")
    res.count("histories_E_" + cfg["role"])
    try:
        hist._check_issued_count("handshake")  # clause (4) holds already at take-over?
        if ops is None:
            res.count("profile_" + prof["name"])
            n = 0
            extra_after_lenient = None
            while n < steps and hist.closed is None and hist.pup.terminated is None:
                for op in hist.gen(rng, prof):
                    if hist.closed is not None or hist.pup.terminated is not None:
                        break
                    hist.do(op)
                    n += 1
                if not hist.strict:
                    extra_after_lenient = (extra_after_lenient or 0) + 1
                    if extra_after_lenient > 6:
                        break
        else:
            for op in ops:
                if hist.closed is not None or hist.pup.terminated is not None:
                    break
                hist.do(op)
        hist.finish()
        outcome = "closed:0x%x" % hist.closed[0] if hist.closed else ("lenient" if not hist.strict else "open")
        if hist.violated:
            outcome += "+violation"
    except Stop:
        outcome = "violation"
    res.evaluations += 1
    res.count("outcome_" + outcome.replace(":", "_").replace("+", "_"))
    if hist.nontrivial or (hist.closed and hist.closed[0] in (CID_LIMIT_ERROR, 0xA)):
        res.nontrivial.add(h(cfg["role"], cfg["plimit"], cfg["elimit"], tuple(hist.trace), outcome))
    res.sample(
        {
            "role_E": cfg["role"], "plimit": cfg["plimit"], "elimit": cfg["elimit"], "ops": hist.ops[:12], "n_ops": len(hist.ops),
            "wh": hist.wh[:8], "outcome": outcome, "retire_frames": {str(k): v for k, v in list(hist.retire_carriers.items())[:6]},
            "r": hist.r, "issued_by_E": hist.e_max + 1,
        },
        limit=2,
    )
    return hist


# ------------------------------------------------------------------------------------ batch drivers


def _default(o):
    if isinstance(o, (bytes, bytearray)):
        return o.hex()
    if isinstance(o, (set, frozenset)):
        return sorted(o)
    return repr(o)


def _merge(res, d):
    res.evaluations += int(d.get("evaluations", 0))
    res.nontrivial.update(d.get("nontrivial", []))
    for v in d.get("violations", []):
        n = sum(1 for x in res.violations if x["signature"] == v["signature"])
        if n < 3:
            res.violations.append(v)
    for k, v in (d.get("counters") or {}).items():
        res.count(k, v)
    for s in d.get("samples", []):
        res.sample(s, limit=3)
    res.inconclusive.extend(d.get("inconclusive", []))


class _Timeout(BaseException):
    """wall-clock watchdog; a BaseException so that no `except Exception` in the harness or the library swallows or wraps it"""


def _alarm(signum, frame):
    raise _Timeout()


def hist_batch(batch, res):
    signal.signal(signal.SIGALRM, _alarm)
    t_hs = time.process_time()
    for i in range(batch["n"]):
        cfg = {"role": batch["role"], "plimit": batch["plimit"], "elimit": batch["elimit"], "seed": batch["seed"] * 1009 + i}
        sub = Result()
        signal.alarm(90)
        try:
            prep = prepare(cfg)
            run_history(prep, cfg, sub, seed=cfg["seed"])
        except _Timeout:
            res.inconclusive.append("history seed %d: watchdog (90 s wall)" % cfg["seed"])
            res.count("histories_inconclusive")
            continue
        except Exception:
            res.inconclusive.append("history seed %d %r: harness error: %s" % (cfg["seed"], cfg, traceback.format_exc()[-1500:]))
            res.count("histories_inconclusive")
            continue
        finally:
            signal.alarm(0)
        _merge(res, sub.as_dict())
    res.count("cpu_s_histories", round(time.process_time() - t_hs, 2))


def replay_batch(batch, res):
    prep = prepare(batch)
    run_history(prep, batch, res, ops=batch["ops"])


GENS = {"hist": hist_batch, "replay": replay_batch}


def run_batch(batch):
    res = Result()
    t0 = time.time()
    GENS[batch["gen"]](batch, res)
    res.count("cpu_s_total", round(time.process_time(), 2))  # whole child, imports included
    res.count("wall_s_total", round(time.time() - t0, 2))
    return res.as_dict()
