"""C08 — loss-recovery and congestion accounting stay consistent.

(a) `hist`: a real `aioquic.quic.recovery.QuicPacketRecovery` (reno / cubic, max_datagram_size
    1200 / 1500, three packet number spaces) is driven directly with seeded random histories of
    on_packet_sent / on_ack_received(arbitrary RangeSet) / get_loss_detection_time ->
    on_loss_detection_timeout / reschedule_data / discard_space.  A harness-side shadow ledger is
    updated only from the calls made and from the delivery-handler callbacks received; after EVERY
    call it is compared with bytes_in_flight, the per-space ack-eliciting counters, the
    implementation's own sent_packets maps and the congestion window floor.
(b) `sim`: two real connections (vf.simnet) move 200 kB - 2 MB in both directions over a network
    that drops / duplicates / reorders / blacks out; a wire-budget monitor compares, per
    datagrams_to_send() call, the in-flight bytes seen by the independent tap with
    max(cwnd - bytes_in_flight, 0) read just before the call (+ one datagram per probe timeout);
    vf.monitors.RecoveryLedger evaluates the ledger invariant after every driver step.
"""

from __future__ import annotations

import random
import sys
import time

from ..common import Result, SeededUrandom, Violation, exc_signature, exc_witness, h

PROPERTY = "C08"
BUILD = "plain"
LEVEL = "exploration"
BUDGET = {"quick": 75, "thorough": 1300}
BATCH_TIMEOUT = {"quick": 300, "thorough": 2400}
RULE = (
    "hist: seeded random histories (10..400 calls) over a real QuicPacketRecovery: send bursts with every flag "
    "combination and sizes 1..max_datagram_size, ACK range sets built from subsets of tracked numbers / already "
    "acked or lost numbers / never-sent numbers / ranges far beyond the largest sent / one huge range / replays of "
    "earlier ACKs, loss timer and probe timeout at or after the deadline, reschedule_data, discard_space with "
    "packets in flight; clock steps from 0 to thousands of seconds. Oracle after every call. Non-trivial = history "
    "in which >=1 packet was reported ACKED and >=1 reported LOST; distinct = hash of the run-length-bucketed "
    "sequence of (call kind, outcome class). sim: bulk transfers in both directions under loss/dup/reorder/"
    "blackouts, reno and cubic (plus a few directed runs in which a duplicated server Handshake datagram arrives after "
    "the client dropped its handshake keys); non-trivial = run in which the congestion window limited sending at least once; "
    "distinct = hash of the bucketed sequence of (step cause, budget outcome) per send cycle."
)
RULE += ' Wire part: an observer appended to every packet a live connection hands to the recovery flags a second outcome report (at-most-once on live connections, including restarts after Retry / Version Negotiation).'

ASSUMPTIONS = [
    "callers respect what QuicConnection respects: packet numbers strictly increasing per connection, send times and "
    "`now` non-decreasing, ack range sets non-empty and below 2^62, spaces registered in recovery.spaces, no send/ack "
    "on a space after it was discarded, each space discarded at most once, on_loss_detection_timeout only when "
    "get_loss_detection_time() is not None and now >= that deadline",
    "'acknowledgement-only' is read widely: a packet made only of ACK / PADDING / CONNECTION_CLOSE frames is exempt "
    "from the wire budget; datagram-level zero padding after the last packet is not counted as packet bytes",
    "probe allowance: each probe timeout (PTO branch of on_loss_detection_timeout) entitles the endpoint to exceed "
    "max(cwnd - bytes_in_flight, 0) by at most one max_datagram_size in the first send cycle afterwards that emits an "
    "in-flight packet; a probe armed by another cause (duplicate CRYPTO / undecryptable packet) has no allowance",
    "(b) reads cwnd / bytes_in_flight / _probe_pending from the connection just before datagrams_to_send (hooked state "
    "named by the property anchor); packets the independent tap cannot open make that send cycle unevaluated",
]

HUGE = 1 << 62


def floors(tier):
    return {
        "hist_calls_checked": 20000,
        "hist_packets_acked": 2000,
        "hist_packets_lost": 1000,
        "hist_packets_expired": 100,
        "wire_cycles_evaluated": 1500,
        "wire_cycles_cwnd_limited": 20,
        "simledger_evaluations": 3000,
        "sim_runs_decided": 4,
    }


def finalize(tier, merged):
    return {
        "histories": int(merged.get("hist_histories", 0)),
        "sim_runs": int(merged.get("sim_runs", 0)),
        "oracle_evaluations": int(merged.get("hist_calls_checked", 0) + merged.get("wire_cycles_evaluated", 0) + merged.get("simledger_evaluations", 0)),
    }


def plan(tier, seed):
    b = []
    if tier == "quick":
        nhist_batches, per, nsim_batches, sper, ndir = 40, 400, 36, 2, 2
    else:
        nhist_batches, per, nsim_batches, sper, ndir = 400, 1000, 1000, 3, 40
    # interleave so that a budget cut-off loses both kinds evenly
    sims = [{"gen": "sim", "seed": seed * 1000003 + i * sper, "count": sper, "tier": tier} for i in range(nsim_batches)]
    sims += [{"gen": "sim_latehs", "seed": seed * 1000003 + i * 4, "count": 4} for i in range(ndir)]
    hists = [{"gen": "hist", "seed": seed * 1000003 + i * per, "count": per} for i in range(nhist_batches)]
    while sims or hists:
        for _ in range(3 if tier != "quick" else 1):
            if sims:
                b.append(sims.pop(0))
        if hists:
            b.append(hists.pop(0))
    return b


# =====================================================================================
# (a) recovery driven directly
# =====================================================================================


def _bucket(n):
    return n if n < 2 else (2 if n < 4 else (3 if n < 16 else 4))


class _Pkt:
    __slots__ = ("pid", "space", "nbytes", "in_flight", "ack_el", "crypto", "nh", "state", "reports", "obj")

    def __init__(self, pid, space, nbytes, in_flight, ack_el, crypto, nh):
        self.pid, self.space, self.nbytes = pid, space, nbytes
        self.in_flight, self.ack_el, self.crypto, self.nh = in_flight, ack_el, crypto, nh
        self.state = "tracked"  # tracked / ACKED / LOST / expired / dropped (left sent_packets unreported, no handlers)
        self.reports = []  # (handler index, state name, call seq)
        self.obj = None


class History:
    """One history. The shadow ledger (self.pk, self.sh_*) is updated from calls made and callbacks received."""

    def __init__(self, seed):
        from aioquic.quic.recovery import QuicPacketRecovery, QuicPacketSpace

        self.seed = seed
        rng = self.rng = random.Random("c08a/%d" % seed)
        self.cc = rng.choice(["reno", "cubic"])
        self.mds = rng.choice([1200, 1500])
        self.pcav = rng.random() < 0.5
        self.initial_rtt = rng.choice([0.1, 0.1, 0.333, 0.02])
        self.t0 = rng.choice([0.0, 0.0, 1000.0, 1.7e9])
        self.now = self.t0
        self.nsteps = int(round(10 * (40.0 ** rng.random())))  # 10..400, log-uniform
        self.qlog = None
        if rng.random() < 0.15:
            from aioquic.quic.logger import QuicLogger

            self.qlog = QuicLogger().start_trace(is_client=True, odcid=bytes(8))
        self.probes = 0
        self.rec = QuicPacketRecovery(
            congestion_control_algorithm=self.cc,
            initial_rtt=self.initial_rtt,
            max_datagram_size=self.mds,
            peer_completed_address_validation=self.pcav,
            send_probe=self._send_probe,
            quic_logger=self.qlog,
        )
        self.spaces = [QuicPacketSpace(), QuicPacketSpace(), QuicPacketSpace()]
        self.rec.spaces = list(self.spaces)
        self.discarded = [False, False, False]
        # profile
        self.w = {
            "send": rng.choice([2, 4, 6]),
            "ack": rng.choice([2, 4, 6]),
            "timer": rng.choice([0.5, 1, 3]),
            "resched": rng.choice([0.05, 0.3, 1]),
            "discard": rng.choice([0.02, 0.1, 0.4]),
        }
        self.clock = rng.choice(["tight", "rtt", "rtt", "slow", "mixed"])
        self.p_crypto = rng.choice([0.05, 0.3, 0.8])
        self.p_odd_flags = rng.choice([0.0, 0.05, 0.3])
        self.p_nohandler = rng.choice([0.0, 0.1])
        self.space_bias = rng.choice([[1, 1, 1], [1, 1, 6], [3, 3, 1], [0, 0, 1]])
        self.ack_styles = rng.choice(
            [
                ["all", "prefix", "prefix", "newest", "subset"],
                ["newest", "newest", "subset", "random", "gone", "never", "beyond", "huge", "repeat", "mix"],
                ["all", "prefix", "subset", "random", "gone", "never", "beyond", "huge", "repeat", "mix", "newest"],
                ["subset", "mix", "random", "repeat"],
            ]
        )
        # shadow ledger
        self.pk = {}  # pid -> _Pkt
        self.next_pn = rng.choice([0, 0, 1, 70000])
        self.sent_numbers = [[], [], []]
        self.gone_numbers = [[], [], []]
        self.old_acks = [[], [], []]
        self.sh_bif = 0
        self.sh_ae = [0, 0, 0]
        self.sh_tracked = [dict(), dict(), dict()]  # space -> {pid: _Pkt} (insertion ordered)
        self.callseq = 0
        self.call_reports = []  # reports received during the current call
        self.anomalies = []
        self.n_acked = self.n_lost = self.n_expired = self.n_dropped = 0
        self.sig = []
        self.trace = []
        self.min_cwnd = self.rec.congestion_window
        self.max_cwnd = self.rec.congestion_window

    # ---- callbacks handed to the implementation
    def _send_probe(self):
        self.probes += 1

    def _on_delivery(self, state, pid, k):
        # never raise from here: an exception would travel through aioquic frames
        p = self.pk[pid]
        name = getattr(state, "name", repr(state))
        prev = [r for r in p.reports if r[0] == k]
        p.reports.append((k, name, self.callseq))
        self.call_reports.append((pid, name))
        if prev:
            self.anomalies.append(("delivery:reported-twice:%s-then-%s" % (prev[0][1], name), "packet %d (space %d) handler %d reported %s in call #%d and %s in call #%d" % (pid, p.space, k, prev[0][1], prev[0][2], name, self.callseq)))
            return
        if p.state == "expired":
            self.anomalies.append(("delivery:reported-after-space-discard:%s" % name, "packet %d reported %s after its space %d was discarded" % (pid, name, p.space)))
            return
        if p.state == "tracked":
            p.state = name
            self._untrack(p)
            if name == "ACKED":
                self.n_acked += 1
            else:
                self.n_lost += 1
            self.gone_numbers[p.space].append(pid)
        elif p.state != name:
            self.anomalies.append(("delivery:reported-twice:%s-then-%s" % (p.state, name), "packet %d: handler %d reported %s although the packet was already %s" % (pid, k, name, p.state)))

    def _untrack(self, p):
        del self.sh_tracked[p.space][p.pid]
        if p.in_flight:
            self.sh_bif -= p.nbytes
        if p.ack_el:
            self.sh_ae[p.space] -= 1

    # ---- the oracle
    def check(self, call, res, case):
        """Evaluate every invariant after a call. Returns True when all hold."""
        rec = self.rec
        res.count("hist_calls_checked")
        ok = True

        def bad(sig, what):
            nonlocal ok
            ok = False
            res.violation(sig, what, case, self.witness(call))

        for sig, what in self.anomalies:
            bad(sig, what + " (during %s)" % call)
        self.anomalies = []
        # packets without handlers: their fate is only visible in the implementation's own map
        for s in range(3):
            if not self.discarded[s]:
                sp = self.spaces[s].sent_packets
                for pid, p in list(self.sh_tracked[s].items()):
                    if p.nh == 0 and pid not in sp:
                        p.state = "dropped"
                        self._untrack(p)
                        self.n_dropped += 1
        bif = rec.bytes_in_flight
        if bif < 0:
            bad("ledger:bytes-in-flight-negative:after-%s" % call, "bytes_in_flight=%d after %s (history says %d)" % (bif, call, self.sh_bif))
        elif bif != self.sh_bif:
            bad(
                "ledger:bytes-in-flight-mismatch:%s:after-%s" % ("too-high" if bif > self.sh_bif else "too-low", call),
                "bytes_in_flight=%d but the in-flight packets sent and not yet acked/lost/discarded sum to %d (after %s)" % (bif, self.sh_bif, call),
            )
        impl_sum = 0
        for s in range(3):
            sp = self.spaces[s]
            n_ae = 0
            for q in sp.sent_packets.values():
                if q.in_flight:
                    impl_sum += q.sent_bytes
                if q.is_ack_eliciting:
                    n_ae += 1
            if sp.ack_eliciting_in_flight != self.sh_ae[s]:
                bad(
                    "ledger:ack-eliciting-count-mismatch:%s:after-%s" % ("too-high" if sp.ack_eliciting_in_flight > self.sh_ae[s] else "too-low", call),
                    "space %d: ack_eliciting_in_flight=%d, history says %d tracked ack-eliciting packets (after %s)" % (s, sp.ack_eliciting_in_flight, self.sh_ae[s], call),
                )
            elif sp.ack_eliciting_in_flight != n_ae:
                bad("ledger:ack-eliciting-count-vs-sent-packets:after-%s" % call, "space %d: ack_eliciting_in_flight=%d, sent_packets holds %d ack-eliciting packets" % (s, sp.ack_eliciting_in_flight, n_ae))
            if ok and set(sp.sent_packets) != set(self.sh_tracked[s]):
                extra = sorted(set(sp.sent_packets) - set(self.sh_tracked[s]))[:5]
                missing = sorted(set(self.sh_tracked[s]) - set(sp.sent_packets))[:5]
                bad(
                    "ledger:tracked-set-mismatch:%s:after-%s" % ("stale-packets-kept" if extra else "packets-vanished-unreported", call),
                    "space %d: sent_packets has %r that were already reported/discarded; lacks %r that were never reported" % (s, extra, missing),
                )
        if ok and bif != impl_sum:
            bad("ledger:bytes-in-flight-vs-sent-packets:after-%s" % call, "bytes_in_flight=%d, in-flight packets in sent_packets sum to %d" % (bif, impl_sum))
        cw = rec.congestion_window
        if not (cw >= 2 * self.mds):
            bad("cwnd:below-two-datagrams:%s:after-%s" % (self.cc, call), "congestion_window=%r < 2*%d (%s) after %s" % (cw, self.mds, self.cc, call))
        else:
            self.min_cwnd = min(self.min_cwnd, cw)
            self.max_cwnd = max(self.max_cwnd, cw)
        return ok

    def witness(self, call):
        return {
            "config": self.config(),
            "call": call,
            "now": self.now,
            "bytes_in_flight": self.rec.bytes_in_flight,
            "shadow_bytes_in_flight": self.sh_bif,
            "cwnd": self.rec.congestion_window,
            "trace_tail": self.trace[-14:],
        }

    def config(self):
        return {"cc": self.cc, "mds": self.mds, "peer_validated": self.pcav, "initial_rtt": self.initial_rtt, "t0": self.t0, "steps": self.nsteps, "qlog": self.qlog is not None}

    # ---- generators of single operations
    def advance(self):
        rng = self.rng
        style = self.clock
        if style == "mixed":
            style = rng.choice(["tight", "rtt", "slow"])
        r = rng.random()
        if r < 0.3:
            dt = 0.0
        elif style == "tight":
            dt = rng.choice([1e-6, 1e-5, 1e-4, 0.001]) * rng.random()
        elif style == "rtt":
            dt = rng.choice([0.001, 0.01, 0.05, 0.2]) * (0.2 + rng.random())
        else:
            dt = rng.choice([0.3, 1.0, 2.5, 7.0]) * (0.2 + rng.random())
        if rng.random() < 0.01:
            dt = rng.choice([2.0, 60.0, 5000.0])
        self.now += dt

    def live_spaces(self):
        return [s for s in range(3) if not self.discarded[s]]

    def pick_space(self):
        live = self.live_spaces()
        if not live:
            return None
        wts = [self.space_bias[s] + 0.05 for s in live]
        return self.rng.choices(live, wts)[0]

    def op_send(self, res, case):
        from aioquic.quic.packet import QuicPacketType
        from aioquic.quic.packet_builder import QuicSentPacket
        from aioquic.tls import Epoch

        rng = self.rng
        s = self.pick_space()
        if s is None:
            return True
        burst = rng.choice([1, 1, 1, 2, 3, 5, 10, 12])
        for _ in range(burst):
            r = rng.random()
            if r < self.p_odd_flags:
                in_flight, ack_el, crypto = rng.random() < 0.5, rng.random() < 0.5, rng.random() < 0.5
            elif r < self.p_odd_flags + 0.12:
                in_flight, ack_el, crypto = False, False, False  # ACK-only
            elif r < self.p_odd_flags + 0.18:
                in_flight, ack_el, crypto = True, False, False  # padded ACK / PADDING only
            else:
                in_flight, ack_el = True, True
                crypto = rng.random() < (self.p_crypto if s < 2 else self.p_crypto * 0.2)
            nbytes = rng.choice([self.mds, self.mds, self.mds, rng.randint(1, self.mds), rng.randint(20, 80), 1])
            if rng.random() < 0.1:
                self.next_pn += rng.randint(1, 5)  # numbers used by another space / cancelled
            pid = self.next_pn
            self.next_pn += 1
            nh = 0 if rng.random() < self.p_nohandler else rng.choice([1, 1, 2, 3])
            p = _Pkt(pid, s, nbytes, in_flight, ack_el, crypto, nh)
            epoch, ptype = [(Epoch.INITIAL, QuicPacketType.INITIAL), (Epoch.HANDSHAKE, QuicPacketType.HANDSHAKE), (Epoch.ONE_RTT, QuicPacketType.ONE_RTT)][s]
            obj = QuicSentPacket(
                epoch=epoch, in_flight=in_flight, is_ack_eliciting=ack_el, is_crypto_packet=crypto,
                packet_number=pid, packet_type=ptype,
            )
            obj.sent_bytes = nbytes
            for k in range(nh):
                obj.delivery_handlers.append((self._on_delivery, (pid, k)))
            obj.sent_time = self.now  # connection.datagrams_to_send stamps the time just before registering
            p.obj = obj
            self.pk[pid] = p
            self.sh_tracked[s][pid] = p
            self.sent_numbers[s].append(pid)
            if in_flight:
                self.sh_bif += nbytes
            if ack_el:
                self.sh_ae[s] += 1
            desc = "send(space=%d pn=%d bytes=%d if=%d ae=%d cr=%d nh=%d t=%.6f)" % (s, pid, nbytes, in_flight, ack_el, crypto, nh, self.now - self.t0)
            if not self.invoke("on_packet_sent", desc, res, case, lambda: self.rec.on_packet_sent(packet=obj, space=self.spaces[s])):
                return False
            self.sig.append(("send", s, int(in_flight) + 2 * int(ack_el) + 4 * int(crypto)))
        return True

    def make_ack(self, s):
        from aioquic.quic.rangeset import RangeSet

        rng = self.rng
        rs = RangeSet()
        tracked = list(self.sh_tracked[s])

        def build(style):
            if style == "newest" and tracked:
                k = rng.choice([1, 1, 2])
                for pn in tracked[-k:]:
                    rs.add(pn, pn + 1)
            elif style == "prefix" and tracked:
                upto = tracked[rng.randrange(len(tracked))]
                lo = tracked[0] if rng.random() < 0.8 else 0
                rs.add(lo, upto + 1)
            elif style == "all" and tracked:
                rs.add(rng.choice([0, tracked[0]]), tracked[-1] + 1)
            elif style == "subset" and tracked:
                pr = rng.choice([0.1, 0.5, 0.9])
                for pn in tracked:
                    if rng.random() < pr:
                        rs.add(pn, pn + 1)
            elif style == "random":
                top = self.next_pn + 6
                for _ in range(rng.randint(1, 6)):
                    a = rng.randrange(0, top)
                    rs.add(a, a + rng.choice([1, 1, 2, 5, 40]))
            elif style == "gone" and self.gone_numbers[s]:
                g = self.gone_numbers[s]
                for _ in range(rng.randint(1, 4)):
                    pn = g[rng.randrange(len(g))]
                    rs.add(pn, pn + 1)
            elif style == "never":
                # numbers of other spaces, gaps, or numbers not yet used
                cand = [pn for o in range(3) if o != s for pn in self.sent_numbers[o][-20:]]
                cand.append(self.next_pn)
                cand.append(self.next_pn + 1)
                for _ in range(rng.randint(1, 3)):
                    pn = rng.choice(cand)
                    if pn not in self.sh_tracked[s]:
                        rs.add(pn, pn + 1)
            elif style == "beyond":
                a = self.next_pn + rng.choice([1, 3, 1000, 1 << 20, 1 << 40])
                rs.add(a, a + rng.choice([1, 7, 1000]))
            elif style == "huge":
                rs.add(rng.choice([0, 0, 1, self.next_pn // 2, self.next_pn]), rng.choice([HUGE, HUGE, 1 << 32, self.next_pn + 100000]))
            elif style == "repeat" and self.old_acks[s]:
                for a, b in rng.choice(self.old_acks[s]):
                    rs.add(a, b)

        style = rng.choice(self.ack_styles)
        if style == "mix":
            parts = [rng.choice(["newest", "prefix", "subset", "random", "gone", "never", "beyond", "repeat"]) for _ in range(rng.randint(2, 3))]
            for st in parts:
                build(st)
            style = "mix"
        else:
            build(style)
        if len(rs) == 0:
            # precondition: never empty (pull_ack_frame always yields >= 1 range)
            a = rng.choice([0, self.next_pn, self.next_pn + 9])
            rs.add(a, a + 1)
            style += "/fallback"
        return rs, style

    def op_ack(self, res, case):
        rng = self.rng
        s = self.pick_space()
        if s is None:
            return True
        rs, style = self.make_ack(s)
        ranges = [(r.start, r.stop) for r in rs]
        if len(self.old_acks[s]) < 8:
            self.old_acks[s].append(ranges)
        else:
            self.old_acks[s][rng.randrange(8)] = ranges
        delay = rng.choice([0.0, 0.0, 0.001, 0.02, 0.5, 16.0])
        a0, l0 = self.n_acked, self.n_lost
        desc = "ack(space=%d %s ranges=%s%s delay=%g t=%.6f)" % (s, style, ranges[:4], "..." if len(ranges) > 4 else "", delay, self.now - self.t0)
        ok = self.invoke("on_ack_received", desc, res, case, lambda: self.rec.on_ack_received(ack_rangeset=rs, ack_delay=delay, now=self.now, space=self.spaces[s]))
        self.sig.append(("ack", style.split("/")[0], _bucket(self.n_acked - a0), _bucket(self.n_lost - l0)))
        return ok

    def op_timer(self, res, case):
        rng = self.rng
        try:
            d = self.rec.get_loss_detection_time()
        except Exception as exc:
            res.violation(exc_signature(exc, "recovery:get_loss_detection_time:"), "get_loss_detection_time raised %r" % exc, case, dict(exc_witness(exc), **self.witness("get_loss_detection_time")))
            return False
        if not self.check("get_loss_detection_time", res, case):
            return False
        if d is None:
            self.sig.append(("timer", "unarmed"))
            return True
        self.now = max(self.now, d) + rng.choice([0.0, 0.0, 0.0, 1e-6, 0.001, 0.05, 3.0])
        loss_branch = any(sp.loss_time is not None for sp in self.rec.spaces)  # only used to label the trace / signature
        l0, pr0 = self.n_lost, self.probes
        desc = "timeout(deadline=%.6f now=%.6f %s)" % (d - self.t0, self.now - self.t0, "loss-timer" if loss_branch else "pto")
        ok = self.invoke("on_loss_detection_timeout", desc, res, case, lambda: self.rec.on_loss_detection_timeout(now=self.now))
        self.sig.append(("timer", "probe" if self.probes > pr0 else "loss", _bucket(self.n_lost - l0)))
        if self.probes > pr0:
            res.count("hist_probe_timeouts")
        else:
            res.count("hist_loss_timer_firings")
        return ok

    def op_resched(self, res, case):
        l0 = self.n_lost
        ok = self.invoke("reschedule_data", "reschedule_data(t=%.6f)" % (self.now - self.t0), res, case, lambda: self.rec.reschedule_data(now=self.now))
        self.sig.append(("resched", _bucket(self.n_lost - l0)))
        return ok

    def op_discard(self, res, case):
        rng = self.rng
        live = self.live_spaces()
        if not live:
            return True
        # the real connection drops Initial, then Handshake; any order is allowed here
        s = live[0] if rng.random() < 0.7 else rng.choice(live)
        n = len(self.sh_tracked[s])
        nb = sum(p.nbytes for p in self.sh_tracked[s].values() if p.in_flight)
        def expire_rest():
            # ledger: everything still tracked in the space (not reported during the call) leaves with it
            for p in list(self.sh_tracked[s].values()):
                p.state = "expired"
                self._untrack(p)
                self.n_expired += 1
            self.discarded[s] = True

        ok = self.invoke("discard_space", "discard_space(space=%d tracked=%d in_flight_bytes=%d)" % (s, n, nb), res, case, lambda: self.rec.discard_space(self.spaces[s]), post=expire_rest)
        self.spaces[s].discarded = True  # what QuicConnection._discard_epoch does next
        self.sig.append(("discard", _bucket(n)))
        return ok

    def invoke(self, call, desc, res, case, fn, post=None):
        self.callseq += 1
        self.call_reports = []
        self.trace.append(desc)
        if len(self.trace) > 40:
            del self.trace[:20]
        try:
            fn()
        except Exception as exc:
            res.violation(exc_signature(exc, "recovery:%s:" % call), "%s raised %r" % (desc, exc), case, dict(exc_witness(exc), **self.witness(call)))
            return False
        if post is not None:
            post()
        if self.call_reports:
            self.trace[-1] += " -> " + ",".join("%d:%s" % (pid, st[0]) for pid, st in self.call_reports[:12])
        return self.check(call, res, case)

    def run(self, res, case):
        rng = self.rng
        kinds = ["send", "ack", "timer", "resched", "discard"]
        wts = [self.w[k] for k in kinds]
        if not self.check("init", res, case):
            return False
        # most histories start with something in flight
        if rng.random() < 0.8:
            if not self.op_send(res, case):
                return False
        for step in range(self.nsteps):
            self.advance()
            k = rng.choices(kinds, wts)[0]
            ok = getattr(self, "op_" + k)(res, case)
            if not ok:
                return False
        return True

    def signature(self):
        out = []
        for e in self.sig:
            if out and out[-1][0] == e:
                out[-1][1] += 1
            else:
                out.append([e, 1])
        return h(self.cc, self.mds, tuple((e, _bucket(n)) for e, n in out))


def hist_one(seed, res):
    case = {"gen": "hist_one", "seed": seed}
    hst = History(seed)
    ok = hst.run(res, case)
    res.evaluations += 1
    res.count("hist_histories")
    res.count("hist_histories_" + hst.cc)
    res.count("hist_packets_sent", len(hst.pk))
    res.count("hist_packets_acked", hst.n_acked)
    res.count("hist_packets_lost", hst.n_lost)
    res.count("hist_packets_expired", hst.n_expired)
    res.count("hist_packets_dropped_without_handlers", hst.n_dropped)
    res.count("hist_probes_requested", hst.probes)
    res.count("hist_spaces_discarded", sum(hst.discarded))
    if hst.min_cwnd == 2 * hst.mds:
        res.count("hist_cwnd_reached_floor")
    if hst.max_cwnd > 10 * hst.mds:
        res.count("hist_cwnd_grew")
    if hst.n_acked and hst.n_lost:
        res.nontrivial.add("a:" + hst.signature())
    res.sample(
        {"gen": "hist_one", "seed": seed, "config": hst.config(), "packets": len(hst.pk), "acked": hst.n_acked, "lost": hst.n_lost,
         "expired": hst.n_expired, "cwnd_min": hst.min_cwnd, "cwnd_max": hst.max_cwnd, "trace_head": hst.trace[:6] if len(hst.trace) < 20 else None},
        limit=2,
    )
    return ok


def gen_hist(batch, res):
    for i in range(batch["count"]):
        hist_one(batch["seed"] + i, res)


def gen_hist_one(batch, res):
    hist_one(batch["seed"], res)


# =====================================================================================
# (b) wire budget on real connections
# =====================================================================================

EXEMPT_FRAMES = {"ACK", "ACK_ECN", "PADDING", "CONNECTION_CLOSE", "CONNECTION_CLOSE_APP"}


def _make_wire_budget():
    from ..simnet import Monitor

    class WireBudget(Monitor):
        """Per datagrams_to_send() call: in-flight bytes on the wire <= max(cwnd - bytes_in_flight, 0)
        (+ one max_datagram_size if a probe timeout fired since the previous in-flight send)."""

        name = "wire-budget"

        def __init__(self):
            super().__init__()
            self.st = {}
            self.c = {}
            self.seq = []
            self.found = []

        def count(self, k, n=1):
            self.c[k] = self.c.get(k, 0) + n

        def report(self, sig, what, wit):
            # recorded, not raised: the run goes on so that one defect does not hide another
            self.count("wire_budget_violations")
            if sum(1 for v in self.found if v[0] == sig) < 2:
                self.found.append((sig, what, wit))

        def _state(self, ep):
            st = self.st.get(ep.name)
            if st is None:
                st = self.st[ep.name] = {"credits": 0, "in_timeout": False, "other_probe": None, "pre": None, "sum": 0, "pk": [], "unreadable": 0, "pad": 0}
                loss = ep.conn._loss
                orig_timeout = loss.on_loss_detection_timeout
                orig_probe = loss._send_probe
                mon = self

                def send_probe():
                    if st["in_timeout"]:
                        st["probe_in_timeout"] = True
                    else:
                        # who asked for a probe? (harness-side look at the call stack, labels the mechanism only)
                        names = []
                        f = sys._getframe(1)
                        while f is not None and len(names) < 40:
                            names.append(f.f_code.co_name)
                            f = f.f_back
                        if "_handle_crypto_frame" in names:
                            why = "duplicate-crypto"
                        elif "receive_datagram" in names:
                            why = "undecryptable-packet"
                        else:
                            why = "other"
                        if why == "undecryptable-packet" and ep.conn._handshake_confirmed:
                            why += "-after-handshake-confirmed"
                        st["other_probe"] = why
                        mon.count("wire_probes_armed_without_timeout")
                        mon.count("wire_probes_armed_by_" + why)
                    return orig_probe()

                def on_loss_detection_timeout(*, now):
                    st["in_timeout"] = True
                    st["probe_in_timeout"] = False
                    try:
                        return orig_timeout(now=now)
                    finally:
                        st["in_timeout"] = False
                        if st["probe_in_timeout"]:
                            st["credits"] += 1
                            mon.count("wire_probe_timeouts")
                        else:
                            mon.count("wire_loss_timer_firings")

                # "each packet's frames are reported acknowledged or lost at most once", on the live connection too
                # (restart after Retry / Version Negotiation, space discards, 0-RTT rejection): an observer of its own
                # is appended to every packet handed to the recovery and counts what it is told
                orig_sent = loss.on_packet_sent
                reports = st["reports"] = {}

                def observer(state, key):
                    lst = reports.setdefault(key, [])
                    lst.append(getattr(state, "name", str(state)))
                    mon.count("wire_packet_outcomes_reported")
                    if len(lst) == 2:
                        mon.report("wire:delivery:reported-twice:%s-then-%s" % (lst[0], lst[1]),
                                   "%s: the frames of its packet #%d (%s, %d bytes, %d other handler(s)) were reported %s" % (ep.name, key[1], key[2], key[3], key[4], " then ".join(lst)),
                                   {"endpoint": ep.name, "packet": list(key), "reports": list(lst)})

                def on_packet_sent(*, packet, space):
                    st["sent_seq"] = st.get("sent_seq", 0) + 1
                    key = (st["sent_seq"], packet.packet_number, getattr(packet.packet_type, "name", str(packet.packet_type)), packet.sent_bytes, len(packet.delivery_handlers))
                    packet.delivery_handlers.append((observer, (key,)))
                    mon.count("wire_packets_observed")
                    return orig_sent(packet=packet, space=space)

                loss.on_packet_sent = on_packet_sent
                loss._send_probe = send_probe
                loss.on_loss_detection_timeout = on_loss_detection_timeout
            return st

        def on_deliver(self, ep, rec, from_addr, t, altered=False):
            self._state(ep)

        def before_send(self, ep, t):
            st = self._state(ep)
            conn = ep.conn
            st["pre"] = {
                "cwnd": conn._loss.congestion_window,
                "bif": conn._loss.bytes_in_flight,
                "mds": conn._max_datagram_size,
                "probe_pending": bool(conn._probe_pending),
            }
            st["sum"] = 0
            st["pk"] = []
            st["unreadable"] = 0
            st["pad"] = 0

        def on_datagram_out(self, ep, rec, t):
            st = self._state(ep)
            for v in rec.views or []:
                if v.ptype == "padding":
                    st["pad"] += v.size
                    continue
                if v.error is not None or v.ptype in ("unknown", "retry", "vn"):
                    if v.ptype not in ("retry", "vn"):
                        st["unreadable"] += 1
                    continue
                names = [f["name"] for f in v.frames]
                if any(n not in EXEMPT_FRAMES for n in names):
                    st["sum"] += v.size
                    st["pk"].append("%s pn=%s len=%d [%s]" % (v.ptype, v.pn, v.size, ",".join(names[:6])))
                    self.count("wire_budgeted_packets")
                else:
                    self.count("wire_exempt_packets")
                    if v.in_flight:
                        self.count("wire_exempt_padded_ack_packets")

        def on_step(self, ep, t, cause):
            st = self._state(ep)
            pre = st["pre"]
            if pre is None:
                return
            st["pre"] = None
            conn = ep.conn
            if st["unreadable"]:
                self.count("wire_cycles_unreadable")
                return
            self.evaluations += 1
            self.count("wire_cycles_evaluated")
            total = st["sum"]
            base = max(pre["cwnd"] - pre["bif"], 0)
            outcome = "idle"
            if total:
                self.count("wire_cycles_with_budgeted_bytes")
                self.count("wire_budgeted_bytes", total)
                outcome = "within"
                if total > base:
                    wit = {
                        "endpoint": ep.name, "t": t, "cause": cause, "cwnd": pre["cwnd"], "bytes_in_flight": pre["bif"], "budget": base,
                        "emitted_in_flight_bytes": total, "max_datagram_size": pre["mds"], "probe_timeouts_since_last_in_flight_send": st["credits"],
                        "probe_pending_before_send": pre["probe_pending"], "probe_armed_outside_timeout": st["other_probe"], "packets": st["pk"][:12],
                        "history_tail": self.sim.history[-10:],
                    }
                    over = total - base
                    if st["credits"] >= 1 and over <= pre["mds"]:
                        outcome = "probe"
                        self.count("wire_probe_allowance_used")
                    elif st["credits"] >= 1:
                        outcome = "over"
                        self.report("wire-budget:exceeded-beyond-one-probe-datagram", "%s put %d in-flight bytes on the wire with cwnd-bytes_in_flight=%d after a probe timeout (allowance %d)" % (ep.name, total, pre["cwnd"] - pre["bif"], pre["mds"]), wit)
                    elif pre["probe_pending"] and over <= pre["mds"]:
                        outcome = "over"
                        self.report("wire-budget:probe-datagram-without-timeout:armed-by-%s" % (st["other_probe"] or "stale-probe-pending"), "%s sent a probe datagram beyond the window (%d in-flight bytes, budget %d) although no probe timeout fired since the previous in-flight send (probe armed by: %s)" % (ep.name, total, base, st["other_probe"] or "an earlier timeout whose probe datagram was already sent"), wit)
                    else:
                        outcome = "over"
                        self.report("wire-budget:exceeded-window", "%s put %d in-flight bytes on the wire, window allowed max(%d-%d,0)=%d" % (ep.name, total, pre["cwnd"], pre["bif"], base), wit)
                st["credits"] = 0
                st["other_probe"] = None
            # did the window limit this cycle? (coverage only)
            loss = conn._loss
            if loss.congestion_window - loss.bytes_in_flight < pre["mds"]:
                try:
                    pending = any(not s.sender.buffer_is_empty for s in conn._streams.values())
                except Exception:
                    pending = False
                if pending:
                    self.count("wire_cycles_cwnd_limited")
                    if outcome == "within":
                        outcome = "limited"
                    elif outcome == "idle":
                        outcome = "blocked"
            if not self.seq or self.seq[-1][0] != (cause.split(":")[0], outcome):
                self.seq.append([(cause.split(":")[0], outcome), 1])
            else:
                self.seq[-1][1] += 1

        def signature(self):
            return h(tuple((e, _bucket(n)) for e, n in self.seq))

    class Completion(Monitor):
        """Lets the simulation stop once everything written was delivered (not an oracle)."""

        name = "completion"

        def __init__(self):
            super().__init__()
            self.got = {}

        def on_event(self, ep, ev, t):
            if type(ev).__name__ == "StreamDataReceived":
                k = (ep.name, ev.stream_id)
                self.got[k] = self.got.get(k, 0) + len(ev.data)

        def complete(self):
            for (side, sid), w in self.sim.written.items():
                recv = "server" if side == "client" else "client"
                if self.got.get((recv, sid), 0) < w:
                    return False
            return True

    return WireBudget, Completion


def sim_case(seed, tier):
    """Derive options, fates and script for one bulk-transfer run (pure function of seed)."""
    rng = random.Random("c08b/%d" % seed)
    big = 4 * 1048576
    opts = {
        "cc": rng.choice(["reno", "cubic"]),
        "mds_client": rng.choice([1200, 1200, 1350, 1500]),
        "mds_server": rng.choice([1200, 1200, 1280, 1500]),
        "max_data_client": big, "max_data_server": big,
        "max_stream_data_client": big, "max_stream_data_server": big,
        "versions_client": rng.choice([["v1"], ["v1", "v2"], ["v2", "v1"]]),
        "idle_client": 600.0, "idle_server": 600.0,
    }
    if rng.random() < 0.3:
        opts["cc_server"] = rng.choice(["reno", "cubic"])
    if rng.random() < 0.25:
        opts["certfile"] = "ssl_cert_with_chain.pem"
    sizes = [200000, 300000, 500000, 800000, 1200000, 2000000]
    up, down = rng.choice(sizes), rng.choice(sizes)
    profile = rng.choice(["loss", "loss", "heavy", "reorder", "dup", "blackout", "mixed", "clean"])
    fp = {"delay": rng.choice([0.005, 0.02, 0.05, 0.12]), "adv_seconds": rng.choice([4.0, 10.0, 30.0]), "adv_dgrams": rng.choice([600, 2000, 6000])}
    if profile == "loss":
        fp["loss"] = rng.choice([0.01, 0.03, 0.06])
    elif profile == "heavy":
        fp["loss"] = rng.choice([0.12, 0.25])
        fp["adv_dgrams"] = 600
    elif profile == "reorder":
        fp.update(jitter=rng.choice([0.01, 0.05, 0.3]), reorder=rng.choice([0.1, 0.5]), loss=rng.choice([0.0, 0.01]))
    elif profile == "dup":
        fp.update(dup=rng.choice([0.05, 0.2]), loss=rng.choice([0.0, 0.02]))
    elif profile == "blackout":
        a = rng.choice([0.05, 0.3, 1.0])
        fp.update(blackouts=[[a, a + rng.choice([0.2, 1.0, 3.0])], [a + 4.0, a + 4.5]], loss=rng.choice([0.0, 0.02]))
    elif profile == "mixed":
        fp.update(loss=0.04, dup=0.05, jitter=0.05, reorder=0.3, blackouts=[[0.6, 1.1]])
    script = []
    # upload: client stream 0; download: server-initiated stream 1 (bidi) or 3 (uni)
    nchunks_up = rng.choice([1, 1, 2, 4])
    t = 0.0
    left = up
    for i in range(nchunks_up):
        n = left if i == nchunks_up - 1 else left // 2
        left -= n
        script.append({"t": t, "side": "client", "op": "write", "sid": 0, "n": n, "fin": i == nchunks_up - 1})
        t += rng.choice([0.0, 0.3, 2.5, 4.0])  # pauses > 2 s exercise the CUBIC idle reset
    dsid = rng.choice([1, 3])
    nchunks_dn = rng.choice([1, 2, 3])
    t = rng.choice([0.0, 0.1, 1.0])
    left = down
    for i in range(nchunks_dn):
        n = left if i == nchunks_dn - 1 else left // 2
        left -= n
        script.append({"t": t, "side": "server", "op": "write", "sid": dsid, "n": n, "fin": i == nchunks_dn - 1})
        t += rng.choice([0.0, 0.5, 3.0])
    if rng.random() < 0.3:
        script.append({"t": rng.choice([0.5, 2.0]), "side": "client", "op": "ping", "uid": 1})
    if rng.random() < 0.2:
        script.append({"t": rng.choice([1.0, 3.0]), "side": rng.choice(["client", "server"]), "op": "key_update"})
    # application PINGs (and with them other ack-eliciting control frames) queued while the window is full and nothing
    # is acknowledged: they ride on the probe datagram of the next timeout, which must stay the only one beyond the window
    r3 = random.Random("c08b-pings/%d" % seed)
    if r3.random() < 0.5:
        times = [0.2, 0.6, 1.1, 2.0, 4.1]
        for bo in fp.get("blackouts", []):
            times += [bo[0] + 0.01, bo[0] + 0.15, (bo[0] + bo[1]) / 2]
        for i in range(r3.choice([1, 2, 4])):
            script.append({"t": round(r3.choice(times) + r3.random() * 0.05, 4), "side": r3.choice(["client", "server"]), "op": "ping", "uid": 10 + i})
        script.sort(key=lambda o: o["t"])
    # the client starts over after a Retry / Version Negotiation packet from the server's front-end: the packets of
    # its first attempt must leave the in-flight accounting
    r2 = random.Random("c08b-frontend/%d" % seed).random()
    if r2 < 0.2:
        opts["retry"] = True
        profile += "+retry"
    elif r2 < 0.35:
        opts.update(frontend_vn=True, versions_client=["v2", "v1"], versions_server=["v1"])
        profile += "+vn"
    # ... also when that first attempt carried 0-RTT stream data (resumed session; the upload written at t=0 is early
    # data): those packets live in the application space, which is replaced together with the Initial space
    r4 = random.Random("c08b-0rtt/%d" % seed).random()
    if r4 < (0.6 if r2 < 0.35 else 0.1):
        opts["resume"] = {}
        profile += "+0rtt"
    return opts, fp, script, {"profile": profile, "up": up, "down": down}


def latehs_case(seed):
    """Directed: one datagram of the server's first flight (a Handshake packet) is duplicated and the copies are
    delayed independently by up to 1 s, so that one of them reaches the client after it dropped its handshake keys,
    in the middle of an upload that keeps the window full. Everything else is delivered fairly."""
    rng = random.Random("c08c/%d" % seed)
    big = 4 * 1048576
    opts = {
        "cc": rng.choice(["reno", "cubic"]), "mds_client": rng.choice([1200, 1500]),
        "max_data_client": big, "max_data_server": big, "max_stream_data_client": big, "max_stream_data_server": big,
    }
    fp = {"delay": rng.choice([0.03, 0.05, 0.08]), "adv_seconds": 0.0, "jitter": 1.0, "reorder": 1.0, "forced": {"s2c:%d" % rng.choice([1, 1, 0]): "dup3"}}
    script = [{"t": 0.0, "side": "client", "op": "write", "sid": 0, "n": 1500000, "fin": True}]
    return opts, fp, script, {"profile": "late-handshake-duplicate", "up": 1500000, "down": 0}


def gen_sim(batch, res):
    for i in range(batch.get("count", 1)):
        sim_one(batch["seed"] + i, batch.get("tier", "quick"), res)


def gen_sim_latehs(batch, res):
    for i in range(batch.get("count", 1)):
        sim_one(batch["seed"] + i, "quick", res, directed=True)


def sim_one(seed, tier, res, directed=False):
    from ..monitors import RecoveryLedger
    from ..simnet import Fates, SimNet, run_sim

    if directed:
        opts, fp, script, info = latehs_case(seed)
    else:
        opts, fp, script, info = sim_case(seed, tier)
    WireBudget, Completion = _make_wire_budget()
    wb, ledger, comp = WireBudget(), RecoveryLedger(), Completion()
    ur = SeededUrandom(seed)
    ur.install()
    case = {"gen": "sim_latehs" if directed else "sim", "seed": seed, "count": 1, "tier": tier}
    decided = True
    try:
        sim = SimNet(opts, Fates(seed, fp), script, [wb, ledger, comp], seed=seed, horizon=400.0, step_cap=250000)
        try:
            run_sim(sim)
        except Violation as v:
            if v.signature.startswith("api:"):
                # an exception escaping the public API is C05's business unless it comes out of the recovery code
                tb = (v.witness or {}).get("traceback", "")
                last = [ln for ln in tb.splitlines() if "/aioquic/" in ln]
                if last and ("/quic/recovery.py" in last[-1] or "/quic/congestion/" in last[-1]):
                    res.violation("sim:" + v.signature, v.what, case, v.witness)
                else:
                    decided = False
                    res.count("sim_runs_api_raised_elsewhere")
                    res.inconclusive.append("sim seed %d: %s" % (seed, v.what[:200]))
            else:
                res.violation("sim:" + v.signature, v.what, case, dict(v.witness or {}, opts=opts, fates=fp, info=info))
    finally:
        ur.uninstall()
    for sig, what, wit in wb.found:
        res.violation("sim:" + sig, what, case, dict(wit, opts=opts, fates=fp, info=info))
    res.evaluations += 1
    res.count("sim_runs")
    if directed:
        res.count("sim_runs_directed_late_handshake_duplicate")
    if decided:
        res.count("sim_runs_decided")
    for k, v in wb.c.items():
        res.count(k, v)
    res.count("simledger_evaluations", ledger.evaluations)
    res.count("sim_steps", sim.steps)
    res.count("sim_runs_cc_" + opts["cc"])
    res.count("sim_stopped_" + str(sim.stopped_reason))
    for k, v in sim.fates.counts.items():
        res.count("sim_fate_" + k, v)
    complete = comp.complete()
    res.count("sim_runs_transfer_complete" if complete else "sim_runs_transfer_incomplete")
    if wb.c.get("wire_cycles_cwnd_limited", 0) > 0:
        res.nontrivial.add("b:" + h(opts["cc"], info["profile"], wb.signature()))
    res.sample(
        {"gen": case["gen"], "seed": seed, "opts": opts, "fates": fp, "info": info, "steps": sim.steps, "t_end": round(sim.now, 3), "stopped": sim.stopped_reason,
         "complete": complete, "wire": dict(wb.c), "ledger_evaluations": ledger.evaluations, "fate_counts": dict(sim.fates.counts)},
        limit=1,
    )


GENS = {"hist": gen_hist, "hist_one": gen_hist_one, "sim": gen_sim, "sim_latehs": gen_sim_latehs}


def run_batch(batch):
    res = Result()
    t0 = time.process_time()
    GENS[batch["gen"]](batch, res)
    res.count("cpu_s_" + batch["gen"].split("_")[0], round(time.process_time() - t0, 2))
    return res.as_dict()
