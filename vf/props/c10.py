"""C10 — stream send/receive halves vs. a reference model.

Oracle = executable reference models (offset->byte map for the receiver; per-byte
{pending,in-flight,acked} ledger for the sender; set-of-ints for RangeSet).
Workload = (a) breadth-first closure over *implementation states* (deep copies of
the real objects) for streams of bounded length, (b) long random histories.
"""

from __future__ import annotations

import copy
import random
import time

from ..common import Result, exc_signature, exc_witness, h

PROPERTY = "C10"
LEVEL = "exploration"
BUDGET = {"quick": 75, "thorough": 1500}
BATCH_TIMEOUT = {"quick": 240, "thorough": 3000}
RULE = (
    "closure: BFS over deep-copied QuicStreamReceiver/QuicStreamSender states for stream length <= N "
    "(every (offset,len,fin) frame, every reset final size / every write, get_frame cap, ACKED/LOST, reset op); "
    "each transition compared with the reference model; distinct = distinct (implementation state, model state) pairs "
    "reached, non-trivial = a state in which at least one byte was delivered / emitted. random: seeded long histories "
    "on 64kB-1MB streams, signature = hash of bucketed op-kind/outcome sequence."
)
ASSUMPTIONS = [
    "callers respect the documented preconditions of the stream halves (no write after FIN/reset, no get_frame after reset, "
    "each emitted frame reported ACKED or LOST exactly once)",
    "conflicting retransmissions (different bytes for the same offset) and a FIN placed below already received data are an "
    "'either' region: only absence of unexpected exceptions is checked there",
]


def floors(tier):
    return {"recv_transitions": 1000, "send_transitions": 1000, "rangeset_ops": 1000}


def finalize(tier, merged):
    return {
        "states": int(merged.get("recv_states", 0) + merged.get("send_states", 0)),
        "transitions": int(merged.get("recv_transitions", 0) + merged.get("send_transitions", 0)),
        "exhaustive": bool(merged.get("closure_complete", 0) >= 2 and merged.get("closure_truncated", 0) == 0),
    }


def plan(tier, seed):
    if tier == "quick":
        b = [
            {"gen": "recv_closure", "N": 7, "seed": seed, "max_states": 400000},
            {"gen": "send_closure", "N": 4, "seed": seed, "max_states": 400000},
        ]
        nrand, steps = 12, 3000
    else:
        b = [
            {"gen": "recv_closure", "N": 8, "seed": seed, "max_states": 3000000},
            {"gen": "send_closure", "N": 4, "seed": seed, "max_states": 3000000},
            {"gen": "recv_closure", "N": 7, "seed": seed, "max_states": 3000000},
            {"gen": "send_closure", "N": 5, "seed": seed, "max_states": 1500000},
        ]
        nrand, steps = 120, 10000
    for i in range(nrand):
        b.append({"gen": "recv_random", "seed": seed * 100003 + i, "steps": steps})
        b.append({"gen": "send_random", "seed": seed * 100003 + i, "steps": steps})
    for i in range(4 if tier == "quick" else 24):
        b.append({"gen": "rangeset", "seed": seed * 100003 + i, "steps": 20000})
    return b


# ---------------------------------------------------------------- canonical state


def canon(obj, depth=0):
    from aioquic.quic.rangeset import RangeSet

    if isinstance(obj, RangeSet):
        return tuple((r.start, r.stop) for r in obj)
    if isinstance(obj, (bytearray, bytes)):
        return bytes(obj)
    if isinstance(obj, (int, str, bool, type(None), float)):
        return obj
    if isinstance(obj, (list, tuple)):
        return tuple(canon(x, depth + 1) for x in obj)
    if hasattr(obj, "__dict__") and depth < 3:
        return tuple((k, canon(v, depth + 1)) for k, v in sorted(vars(obj).items()))
    return repr(obj)


def byte_at(off, colour=0):
    return (off * 7 + 3 + colour * 101) & 0xFF


# ---------------------------------------------------------------- receiver model


class RecvModel:
    def __init__(self):
        self.have = {}  # offset -> byte
        self.final = None
        self.cursor = 0
        self.ended = False  # end marker delivered
        self.reset = False
        self.highest = 0
        self.degenerate = False  # entered an 'either' region
        self.either_steps = 0

    def key(self):
        return (tuple(sorted(self.have.items())), self.final, self.cursor, self.ended, self.reset, self.highest, self.degenerate, self.either_steps)

    def clone(self):
        m = RecvModel()
        m.have = dict(self.have)
        m.final, m.cursor, m.ended, m.reset, m.highest, m.degenerate, m.either_steps = (
            self.final, self.cursor, self.ended, self.reset, self.highest, self.degenerate, self.either_steps,
        )
        return m

    def frame(self, off, data, fin):
        """returns ('err',) or ('ok', delivered_bytes, end_marker)"""
        end = off + len(data)
        if self.final is not None:
            if end > self.final or (fin and end != self.final):
                return ("err",)
        if fin:
            if end < self.highest:
                self.degenerate = True
            self.final = end
        self.highest = max(self.highest, end)
        for i, b in enumerate(data):
            o = off + i
            if o >= self.cursor:
                if o in self.have and self.have[o] != b:
                    self.degenerate = True
                self.have.setdefault(o, b)
        out = bytearray()
        while self.cursor in self.have:
            out.append(self.have.pop(self.cursor))
            self.cursor += 1
        end_marker = False
        if self.final is not None and self.cursor == self.final and not self.ended and not self.reset:
            end_marker = True
            self.ended = True
        return ("ok", bytes(out), end_marker)

    def do_reset(self, final_size):
        if self.final is not None and final_size != self.final:
            return ("err",)
        if final_size < self.highest:
            self.degenerate = True
        self.final = final_size
        # a reset fixes the stream length: the highest offset seen is at least the final size
        self.highest = max(self.highest, final_size)
        self.reset = True
        return ("ok",)


def recv_apply(impl, model, op, res, case):
    """Apply op to the real receiver and the model; report mismatches. Returns False if state is dead."""
    from aioquic.quic.packet import QuicStreamFrame
    from aioquic.quic.stream import FinalSizeError

    was_degenerate = model.degenerate
    if op[0] == "frame":
        _, off, ln, fin, colour = op
        data = bytes(byte_at(off + i, colour) for i in range(ln))
        exp = model.frame(off, data, fin)
        try:
            ev = impl.handle_frame(QuicStreamFrame(offset=off, data=data, fin=fin))
            got = ("ok", ev)
        except FinalSizeError:
            got = ("err",)
        except Exception as exc:
            res.violation(exc_signature(exc, "recv:"), "receiver raised %r" % exc, case, exc_witness(exc))
            return False
    else:
        _, fs = op
        exp = model.do_reset(fs)
        try:
            ev = impl.handle_reset(final_size=fs, error_code=7)
            got = ("ok", ev)
        except FinalSizeError:
            got = ("err",)
        except Exception as exc:
            res.violation(exc_signature(exc, "recv:"), "receiver raised %r" % exc, case, exc_witness(exc))
            return False
    if model.degenerate or was_degenerate:
        # 'either' region (a FIN / reset below the highest offset already received was accepted, or overlapping data
        # disagreed): what is delivered is not compared any more, but the final size *is* fixed, so the final-size
        # clause still binds: an error exactly when data lies beyond it or a FIN / reset disagrees with it
        res.count("recv_either_region")
        if exp[0] != got[0]:
            sig = "recv:final-size-error-missing" if exp[0] == "err" else "recv:final-size-error-spurious"
            res.violation(sig + ":final-size-below-highest-offset", "op %r: model %s, implementation %s (final size %s, highest offset received %s)"
                          % (op, exp[0], got[0], model.final, model.highest), case, {"op": op})
            return False
        res.count("recv_either_region_final_size_clause_checked")
        # (explored three operations deep below the point where the region was entered)
        model.either_steps += 1
        return model.either_steps <= 3
    if exp[0] == "err" or got[0] == "err":
        if exp[0] != got[0]:
            sig = "recv:final-size-error-missing" if exp[0] == "err" else "recv:final-size-error-spurious"
            res.violation(sig, "op %r: model %s, implementation %s" % (op, exp[0], got[0]), case, {"op": op})
            return False
        res.count("recv_final_size_errors")
        return True  # error leaves state as-is (checked by continuing from it)
    ev = got[1]
    if op[0] == "reset":
        if ev is None or type(ev).__name__ != "StreamReset":
            res.violation("recv:reset-event-missing", "handle_reset returned %r" % (ev,), case, {"op": op})
        if not impl.is_finished:
            res.violation("recv:not-finished-after-reset", "is_finished false after reset", case, {"op": op})
        return True
    _, data, end_marker = exp
    got_data = ev.data if ev is not None else b""
    got_end = ev.end_stream if ev is not None else False
    if got_data != data:
        kind = "gap-or-wrong-bytes"
        if len(got_data) > len(data):
            kind = "extra-bytes"
        elif len(got_data) < len(data):
            kind = "missing-bytes"
        res.violation("recv:data-mismatch:" + kind, "op %r delivered %r, model %r" % (op, got_data, data), case, {"op": op})
        return False
    if not model.reset:
        if got_end and not end_marker:
            if model.ended and model.cursor == model.final and not got_data:
                # The repository's own unit test (test_receiver_fin_twice) pins this behaviour at the
                # receiver level: a frame arriving when everything up to the final size was already
                # delivered repeats the (empty) end marker. Stream-level 'either' region; the
                # connection-level at-most-once rule is C01's business.
                res.count("recv_repeated_end_marker_observed")
            else:
                res.violation("recv:premature-end-marker", "op %r signalled end_stream; model: ended=%s cursor=%s final=%s" % (op, model.ended, model.cursor, model.final), case, {"op": op})
                return False
        if end_marker and not got_end:
            res.violation("recv:end-marker-missing", "op %r: model reached final size %s, no end_stream" % (op, model.final), case, {"op": op})
            return False
        if ev is None and (data or end_marker):
            res.violation("recv:event-missing", "no event for %r" % (op,), case, {"op": op})
            return False
        fin_expected = model.ended
        if impl.is_finished != fin_expected:
            res.violation("recv:is_finished-mismatch", "is_finished=%s model ended=%s after %r" % (impl.is_finished, fin_expected, op), case, {"op": op})
            return False
    if impl.highest_offset != model.highest:
        res.violation("recv:highest_offset-mismatch", "%s vs model %s" % (impl.highest_offset, model.highest), case, {"op": op})
        return False
    if impl.starting_offset() != model.cursor:
        res.violation("recv:starting_offset-mismatch", "%s vs model %s" % (impl.starting_offset(), model.cursor), case, {"op": op})
        return False
    return True


def recv_ops(N):
    ops = []
    for off in range(N + 2):
        for ln in range(N + 2 - off):
            for fin in (False, True):
                ops.append(("frame", off, ln, fin, 0))
    for fs in range(N + 2):
        ops.append(("reset", fs))
    return ops


def recv_closure(batch, res):
    from aioquic.quic.stream import QuicStreamReceiver

    N = batch["N"]
    ops = recv_ops(N)
    start = (QuicStreamReceiver(stream_id=0, readable=True), RecvModel(), ())
    seen = {(canon(start[0]), start[1].key())}
    frontier = [start]
    nontriv = 0
    truncated = False
    depth = 0
    while frontier and not truncated:
        nxt = []
        for impl, model, path in frontier:
            for op in ops:
                i2 = copy.deepcopy(impl)
                m2 = model.clone()
                case = {"gen": "recv_replay", "path": list(path) + [list(op)]}
                res.count("recv_transitions")
                ok = recv_apply(i2, m2, op, res, case)
                if not ok:
                    continue
                k = (canon(i2), m2.key())
                if k in seen:
                    continue
                seen.add(k)
                if m2.cursor > 0:
                    nontriv += 1
                    res.nontrivial.add("recv:" + h(k))
                nxt.append((i2, m2, path + (op,)))
                if len(seen) >= batch.get("max_states", 10**9):
                    truncated = True
                    break
            if truncated:
                break
        frontier = nxt
        depth += 1
    res.count("recv_states", len(seen))
    res.maxc("recv_closure_depth_N%d" % N, depth)
    res.count("closure_truncated" if truncated else "closure_complete")
    res.evaluations += res.counters.get("recv_transitions", 0)
    res.sample({"gen": "recv_closure", "N": N, "ops": len(ops), "states": len(seen), "depth": depth, "example_ops": [list(o) for o in ops[:5]]})


# ---------------------------------------------------------------- sender model

PENDING, INFLIGHT, ACKED = 0, 1, 2


class SendModel:
    def __init__(self):
        self.data = bytearray()
        self.state = []  # per byte
        self.fin_written = False
        self.fin_state = None  # None / PENDING / INFLIGHT / ACKED
        self.reset = False
        self.reset_acked = False
        self.reset_outstanding = 0
        self.reset_pending = False
        self.highest = 0
        self.finished = False
        self.frames = {}  # id -> (start, stop, fin)
        self.next_id = 0

    def clone(self):
        return copy.deepcopy(self)

    def key(self):
        return (
            bytes(self.data), tuple(self.state), self.fin_written, self.fin_state, self.reset, self.reset_acked,
            self.reset_outstanding, self.reset_pending, self.highest, self.finished, tuple(sorted(self.frames.values())),
        )

    def pending_offsets(self):
        return [i for i, s in enumerate(self.state) if s == PENDING]


def send_check_state(impl, model, res, case, op):
    """Invariants evaluated after every operation."""
    pend = model.pending_offsets()
    if model.reset:
        if not impl.buffer_is_empty:
            res.violation("send:offers-after-reset", "buffer_is_empty false after reset (%r)" % (op,), case, {"op": op})
            return False
    else:
        if (pend or model.fin_state == PENDING) and impl.buffer_is_empty:
            res.violation("send:pending-but-buffer_is_empty", "model has pending bytes %r fin=%s but buffer_is_empty" % (pend[:4], model.fin_state), case, {"op": op})
            return False
        # drain a copy: exactly the pending bytes and FIN must be re-offered
        cp = copy.deepcopy(impl)
        offered = []
        fin_offered = False
        for _ in range(len(model.state) + 3):
            try:
                fr = cp.get_frame(1 << 30)
            except Exception as exc:
                res.violation(exc_signature(exc, "send:"), "get_frame raised %r" % exc, case, exc_witness(exc))
                return False
            if fr is None:
                break
            offered.extend(range(fr.offset, fr.offset + len(fr.data)))
            if bytes(fr.data) != bytes(model.data[fr.offset : fr.offset + len(fr.data)]):
                res.violation("send:wrong-bytes", "drain frame at %d carries wrong bytes" % fr.offset, case, {"op": op})
                return False
            if fr.fin:
                fin_offered = True
                if fr.offset + len(fr.data) != len(model.data) or not model.fin_written:
                    res.violation("send:fin-misplaced", "FIN on frame ending at %d, written %d" % (fr.offset + len(fr.data), len(model.data)), case, {"op": op})
                    return False
        if sorted(offered) != pend:
            missing = sorted(set(pend) - set(offered))
            extra = sorted(set(offered) - set(pend))
            dup = len(offered) != len(set(offered))
            sig = "send:lost-bytes-not-reoffered" if missing else ("send:offers-non-pending-bytes" if extra else "send:offers-bytes-twice")
            res.violation(sig, "after %r: offered %r, model pending %r (missing %r extra %r dup %s)" % (op, sorted(offered)[:8], pend[:8], missing[:8], extra[:8], dup), case, {"op": op})
            return False
        # FIN piggy-backed on a retransmitted tail while another FIN-bearing frame is still in
        # flight is allowed (property: "re-offered after loss", not "offered only once")
        if model.fin_state == PENDING and not fin_offered:
            res.violation("send:fin-not-reoffered", "after %r: FIN pending in model but not offered by drain" % (op,), case, {"op": op})
            return False
        exp_next = pend[0] if pend else len(model.data)
        if impl.next_offset != exp_next:
            res.violation("send:next_offset-mismatch", "%s vs %s" % (impl.next_offset, exp_next), case, {"op": op})
            return False
    if impl.highest_offset != model.highest:
        res.violation("send:highest_offset-mismatch", "%s vs %s after %r" % (impl.highest_offset, model.highest, op), case, {"op": op})
        return False
    all_acked = model.fin_state == ACKED and all(s == ACKED for s in model.state)
    if not model.reset:
        exp_fin = all_acked or model.finished
        if impl.is_finished != exp_fin:
            res.violation("send:is_finished-mismatch", "is_finished=%s, model all-acked=%s after %r" % (impl.is_finished, all_acked, op), case, {"op": op})
            return False
        model.finished = exp_fin
    else:
        if model.reset_acked and not impl.is_finished:
            res.violation("send:not-finished-after-reset-ack", "reset acknowledged but is_finished false", case, {"op": op})
            return False
        if impl.is_finished and not (model.reset_acked or model.finished or all_acked):
            res.violation("send:finished-too-early", "is_finished true without reset ack / full ack", case, {"op": op})
            return False
    if impl.reset_pending != model.reset_pending:
        res.violation("send:reset_pending-mismatch", "%s vs %s after %r" % (impl.reset_pending, model.reset_pending, op), case, {"op": op})
        return False
    return True


def send_apply(impl, model, op, res, case, full=True):
    from aioquic.quic.packet_builder import QuicDeliveryState

    kind = op[0]
    try:
        if kind == "write":
            _, k, fin = op
            base = len(model.data)
            data = bytes(byte_at(base + i) for i in range(k))
            impl.write(data, end_stream=fin)
            model.data += data
            model.state += [PENDING] * k
            if fin:
                model.fin_written = True
                model.fin_state = PENDING
        elif kind == "get":
            _, max_size, max_offset = op
            fr = impl.get_frame(max_size, max_offset)
            if fr is not None:
                s, e = fr.offset, fr.offset + len(fr.data)
                if bytes(fr.data) != bytes(model.data[s:e]):
                    res.violation("send:wrong-bytes", "frame [%d,%d) carries bytes that were not written there" % (s, e), case, {"op": op})
                    return False
                if len(fr.data) > max(max_size, 0):
                    res.violation("send:frame-exceeds-max_size", "len %d > max_size %d" % (len(fr.data), max_size), case, {"op": op})
                    return False
                if max_offset is not None and len(fr.data) and e > max_offset:
                    res.violation("send:frame-exceeds-max_offset", "end %d > max_offset %d" % (e, max_offset), case, {"op": op})
                    return False
                if not fr.data and not fr.fin:
                    res.violation("send:empty-frame", "frame with neither data nor FIN", case, {"op": op})
                    return False
                for o in range(s, e):
                    if model.state[o] != PENDING:
                        res.violation("send:offers-non-pending-bytes", "byte %d offered in state %d" % (o, model.state[o]), case, {"op": op})
                        return False
                    model.state[o] = INFLIGHT
                if fr.fin:
                    if not model.fin_written or e != len(model.data):
                        res.violation("send:fin-misplaced", "FIN on frame ending at %d, written %d fin_written=%s" % (e, len(model.data), model.fin_written), case, {"op": op})
                        return False
                    if model.fin_state == PENDING:
                        model.fin_state = INFLIGHT
                model.highest = max(model.highest, e)
                model.frames[model.next_id] = (s, e, bool(fr.fin))
                model.next_id += 1
                res.count("send_frames_emitted")
        elif kind == "deliver":
            _, fid, acked = op
            if isinstance(fid, str):  # "#k": k-th outstanding frame in (start, stop, fin) order
                fid = sorted(model.frames, key=lambda i: (model.frames[i], i))[int(fid[1:])]
            s, e, fin = model.frames.pop(fid)
            impl.on_data_delivery(QuicDeliveryState.ACKED if acked else QuicDeliveryState.LOST, s, e, fin)
            if not model.reset:
                for o in range(s, e):
                    model.state[o] = ACKED if acked else PENDING
                if fin:
                    if acked:
                        model.fin_state = ACKED
                    elif model.fin_state != ACKED:
                        model.fin_state = PENDING
        elif kind == "reset":
            impl.reset(op[1])
            if not model.reset:
                model.reset = True
                model.reset_pending = True
                model.reset_code = op[1]
        elif kind == "get_reset":
            fr = impl.get_reset_frame()
            model.reset_pending = False
            model.reset_outstanding += 1
            if fr.final_size != model.highest:
                res.violation("send:reset-final-size", "final_size %d != highest offset sent %d" % (fr.final_size, model.highest), case, {"op": op})
                return False
            if fr.error_code != model.reset_code:
                res.violation("send:reset-error-code", "%r vs %r" % (fr.error_code, model.reset_code), case, {"op": op})
                return False
        elif kind == "reset_deliver":
            acked = op[1]
            model.reset_outstanding -= 1
            impl.on_reset_delivery(QuicDeliveryState.ACKED if acked else QuicDeliveryState.LOST)
            if acked:
                model.reset_acked = True
            else:
                model.reset_pending = True
    except Exception as exc:
        res.violation(exc_signature(exc, "send:"), "sender raised %r on %r" % (exc, op), case, exc_witness(exc))
        return False
    if not full:
        return True
    return send_check_state(impl, model, res, case, op)


def send_enabled_ops(model, N):
    ops = []
    if not model.reset:
        if not model.fin_written:
            for k in (0, 1, 2):
                if len(model.data) + k <= N:
                    for fin in (False, True):
                        if k or fin:
                            ops.append(("write", k, fin))
        for max_size in (-1, 0, 1, 2, N + 1):
            for max_offset in [None] + list(range(0, N + 2)):
                ops.append(("get", max_size, max_offset))
    seen_fr = set()
    for k, fid in enumerate(sorted(model.frames, key=lambda i: (model.frames[i], i))):
        if model.frames[fid] in seen_fr:
            continue
        seen_fr.add(model.frames[fid])
        ops.append(("deliver", "#%d" % k, True))
        ops.append(("deliver", "#%d" % k, False))
    if not model.reset:
        ops.append(("reset", 9))
    if model.reset_pending:
        ops.append(("get_reset",))
    if model.reset_outstanding:
        ops.append(("reset_deliver", True))
        ops.append(("reset_deliver", False))
    return ops


def send_closure(batch, res):
    from aioquic.quic.stream import QuicStreamSender

    N = batch["N"]
    start = (QuicStreamSender(stream_id=0, writable=True), SendModel(), ())
    seen = {(canon(start[0]), start[1].key())}
    frontier = [start]
    truncated = False
    depth = 0
    max_depth = batch.get("max_depth", 400)
    while frontier and not truncated and depth < max_depth:
        nxt = []
        for impl, model, path in frontier:
            # bound retransmission chains: at most 2N+2 frames ever emitted
            for op in send_enabled_ops(model, N):
                i2 = copy.deepcopy(impl)
                m2 = model.clone()
                case = {"gen": "send_replay", "path": [list(p) for p in path] + [list(op)]}
                res.count("send_transitions")
                if not send_apply(i2, m2, op, res, case):
                    continue
                if m2.reset_outstanding > 2:
                    continue
                k = (canon(i2), m2.key())
                if k in seen:
                    continue
                seen.add(k)
                if m2.highest > 0:
                    res.nontrivial.add("send:" + h(k))
                nxt.append((i2, m2, path + (op,)))
                if len(seen) >= batch.get("max_states", 10**9):
                    truncated = True
                    break
            if truncated:
                break
        frontier = nxt
        depth += 1
    if frontier and depth >= max_depth:
        truncated = True
    res.count("send_states", len(seen))
    res.count("closure_truncated" if truncated else "closure_complete")
    res.evaluations += res.counters.get("send_transitions", 0)
    res.sample({"gen": "send_closure", "N": N, "states": len(seen), "depth": depth})


# ---------------------------------------------------------------- replay + random


def _tup(op):
    return tuple(op)


def recv_replay(batch, res):
    from aioquic.quic.stream import QuicStreamReceiver

    impl, model = QuicStreamReceiver(stream_id=0, readable=True), RecvModel()
    for op in batch["path"]:
        res.count("recv_transitions")
        if not recv_apply(impl, model, _tup(op), res, batch):
            break
    res.evaluations += 1


def send_replay(batch, res):
    from aioquic.quic.stream import QuicStreamSender

    impl, model = QuicStreamSender(stream_id=0, writable=True), SendModel()
    for op in batch["path"]:
        res.count("send_transitions")
        if not send_apply(impl, model, _tup(op), res, batch):
            break
    res.evaluations += 1


def recv_random(batch, res):
    """Long random histories on a large stream: frames cut from the true byte string at random
    offsets (overlaps, duplicates, gaps), FIN and reset at random points."""
    from aioquic.quic.stream import QuicStreamReceiver

    rng = random.Random(batch["seed"])
    total = rng.choice([1, 100, 65536, 300000, 1048576])
    impl, model = QuicStreamReceiver(stream_id=4, readable=True), RecvModel()
    path = []
    sigs = []
    window = 0
    for step in range(batch["steps"]):
        r = rng.random()
        if r < 0.001:
            op = ("reset", rng.choice([total, total, max(total, model.highest), total + 1]))
        else:
            # bias to near the cursor so data actually gets delivered
            base = rng.choice([model.cursor, model.cursor, window, rng.randrange(0, total + 1)])
            off = max(0, min(total, base + rng.choice([0, 0, -3, -1, 1, 5, 1200, -1200])))
            ln = min(rng.choice([0, 1, 2, 100, 1200, 1201, 5000]), total - off + rng.choice([0, 0, 0, 1]))
            ln = max(ln, 0)
            fin = (off + ln == total and rng.random() < 0.5) or rng.random() < 0.0003
            op = ("frame", off, ln, fin, 0)
            window = off + ln
        path.append(list(op))
        res.count("recv_transitions")
        before = model.cursor
        ok = recv_apply(impl, model, op, res, {"gen": "recv_random", "seed": batch["seed"], "steps": step + 1})
        sigs.append((op[0], model.cursor > before, model.ended, model.reset))
        if not ok:
            if model.degenerate:
                break
            if any(v for v in res.violations):
                break
    res.evaluations += 1
    if model.cursor > 0:
        res.nontrivial.add("rr:" + h(total, len(path), model.cursor, model.ended, model.reset, tuple(sigs[::50])))
    res.sample({"gen": "recv_random", "seed": batch["seed"], "stream_len": total, "steps": len(path), "delivered": model.cursor, "ended": model.ended, "reset": model.reset, "first_ops": path[:4]}, limit=2)


def send_random(batch, res):
    from aioquic.quic.stream import QuicStreamSender

    rng = random.Random(batch["seed"])
    total = rng.choice([1, 100, 65536, 300000, 1048576])
    impl, model = QuicStreamSender(stream_id=4, writable=True), SendModel()
    sigs = []
    # the drain-a-copy check is O(stream) so run it sparsely on big streams
    check_every = 1 if total <= 100 else (7 if total <= 65536 else 40)
    steps_done = 0
    for step in range(batch["steps"]):
        r = rng.random()
        ops = []
        if not model.reset and not model.fin_written and r < 0.25:
            k = min(rng.choice([0, 1, 100, 1200, 20000, 100000]), total - len(model.data))
            fin = len(model.data) + k == total and rng.random() < 0.6
            if not (k or fin):
                continue
            op = ("write", k, fin)
        elif not model.reset and r < 0.65:
            op = ("get", rng.choice([-1, 0, 1, 100, 1200, 1201, 9000]), rng.choice([None, None, model.highest, model.highest + 1, model.highest + 5000, len(model.data), 0]))
        elif model.frames and r < 0.97:
            fid = rng.choice(sorted(model.frames)[:8] + sorted(model.frames)[-2:])
            op = ("deliver", fid, rng.random() < 0.7)
        elif model.reset_pending:
            op = ("get_reset",)
        elif model.reset_outstanding:
            op = ("reset_deliver", rng.random() < 0.5)
        elif not model.reset and r > 0.998:
            op = ("reset", 3)
        else:
            continue
        case = {"gen": "send_random", "seed": batch["seed"], "steps": step + 1}
        res.count("send_transitions")
        steps_done += 1
        if op[0] in ("get", "deliver") and steps_done % check_every:
            ok = _send_apply_light(impl, model, op, res, case)
        else:
            ok = send_apply(impl, model, op, res, case)
        sigs.append(op[0])
        if not ok:
            break
    res.evaluations += 1
    if model.highest > 0:
        res.nontrivial.add("sr:" + h(total, steps_done, model.highest, model.reset, tuple(sigs[::50])))
    res.sample({"gen": "send_random", "seed": batch["seed"], "stream_len": total, "ops": steps_done, "highest": model.highest, "frames": model.next_id, "reset": model.reset}, limit=2)


def _send_apply_light(impl, model, op, res, case):
    """send_apply without the O(n) drain; per-frame checks still run."""
    return send_apply(impl, model, op, res, case, full=False)


def rangeset(batch, res):
    from aioquic.quic.rangeset import RangeSet

    rng = random.Random(batch["seed"])
    U = rng.choice([12, 40, 200])
    rs, model = RangeSet(), set()
    sigs = []
    for step in range(batch["steps"]):
        r = rng.random()
        a = rng.randrange(0, U)
        b = a + 1 + rng.randrange(0, max(1, U // 4))
        case = {"gen": "rangeset", "seed": batch["seed"], "steps": step + 1}
        try:
            if r < 0.45:
                rs.add(a, b)
                model |= set(range(a, b))
                kind = "add"
            elif r < 0.85:
                rs.subtract(a, b)
                model -= set(range(a, b))
                kind = "sub"
            elif r < 0.9 and len(rs):
                first = rs.shift()
                exp_start = min(model)
                e = exp_start
                while e in model:
                    e += 1
                if (first.start, first.stop) != (exp_start, e):
                    res.violation("rangeset:shift-mismatch", "shift gave %r, model [%d,%d)" % (first, exp_start, e), case)
                    break
                model -= set(range(exp_start, e))
                kind = "shift"
            else:
                if (a in rs) != (a in model):
                    res.violation("rangeset:contains-mismatch", "%d in rs = %s, model %s" % (a, a in rs, a in model), case)
                    break
                kind = "in"
        except Exception as exc:
            res.violation(exc_signature(exc, "rangeset:"), "RangeSet raised %r" % exc, case, exc_witness(exc))
            break
        res.count("rangeset_ops")
        # canonical form + content
        flat = []
        prev_stop = None
        bad = None
        for rr in rs:
            if rr.stop <= rr.start:
                bad = "empty range %r" % rr
            if prev_stop is not None and rr.start <= prev_stop:
                bad = "ranges touch/overlap/unsorted at %r" % rr
            prev_stop = rr.stop
            flat.extend(range(rr.start, rr.stop))
        if bad:
            res.violation("rangeset:not-canonical", bad + " after " + kind, case)
            break
        if set(flat) != model or len(flat) != len(set(flat)):
            res.violation("rangeset:content-mismatch:" + kind, "after %s(%d,%d): %r vs model size %d" % (kind, a, b, list(rs)[:6], len(model)), case)
            break
        if model and (rs.bounds().start, rs.bounds().stop) != (min(model), max(model) + 1):
            res.violation("rangeset:bounds-mismatch", "%r" % rs.bounds(), case)
            break
        sigs.append((kind, len(rs)))
    res.evaluations += 1
    res.nontrivial.add("rs:" + h(U, tuple(sigs[::97])))


GENS = {
    "recv_closure": recv_closure,
    "send_closure": send_closure,
    "recv_replay": recv_replay,
    "send_replay": send_replay,
    "recv_random": recv_random,
    "send_random": send_random,
    "rangeset": rangeset,
}


def run_batch(batch):
    res = Result()
    t0 = time.time()
    GENS[batch["gen"]](batch, res)
    res.count("cpu_s_" + batch["gen"], round(time.time() - t0, 2))
    return res.as_dict()
