"""C11 — TLS handshake messages are accepted only in protocol order.

Deciding oracle: a harness-side reference state machine (`Model`) for the TLS 1.3 client and
server handshake, fed by a key-holding adversary (vf/c11_adversary.py: own (EC)DHE, own key
schedule, own transcript, every Finished MAC / binder / CertificateVerify recomputed over what
it actually sent).  The victim is a real `aioquic.tls.Context` driven through
`handle_message(data, {epoch: Buffer})`, exactly as tests/test_tls.py drives it, with
`update_traffic_key_cb` replaced by a recording closure.

W1  every handshake state (reached by the legal prefix; client and server, with/without PSK, with/
    without CertificateRequest) x every handshake type value 0..255 (+ corrupted variants of the
    permitted types): one message, then the legal continuation.
W2  every sequence of length 0..L over {EE, CR, Cert, CV, Fin} toward a client victim, and over
    {Cert, Cert(empty), CV, Fin} toward a server victim, x adversary key mode x PSK scenario x
    transcript policy ("sent": MACs over everything the adversary sent, as in the property text;
    "accepted": MACs over what the victim did not refuse, which reaches deeper states).
W3  the same flights (L <= 3) wrapped in Initial/Handshake packets toward a real client
    QuicConnection; no HandshakeCompleted on an illegal flight.

Measured on this sandbox: os.fork() costs ~40 ms, a fresh victim+adversary up to ServerHello
~1 ms, so every case re-creates both instead of forking.
"""

from __future__ import annotations

import datetime
import os
import random
import time

from ..common import Result, exc_signature, exc_witness, h

PROPERTY = "C11"
BUILD = "plain"
LEVEL = "exploration"
BUDGET = {"quick": 75, "thorough": 1500}
BATCH_TIMEOUT = {"quick": 300, "thorough": 2400}
RULE = (
    "W1: (handshake state instance reached by a legal prefix) x handshake type (thorough: all 0..255; quick: all named types, 0/3/6/255 and 64 seeded others; +bad-MAC/bad-signature variants), "
    "one message then the legal continuation. W2: all sequences of length 0..L (quick 4, thorough 6) over "
    "{EE,CR,Cert,CV,Fin} (client victim) / {Cert,Cert-empty,CV,Fin} (server victim) x adversary key mode "
    "(auth/own/steal/...) x PSK scenario x transcript policy (sent/accepted); plus content variants (EE {plain,+early_data,"
    "+early_data+ALPN,+unknown ext}, Finished {good,bad MAC,empty,truncated,over-long}, CV {good,bad sig,stale}, Certificate "
    "{good,empty}): full cross over the legal skeletons, and EE-variant x one-substitution over all flights of length <= 3 (thorough 4). W3: flights of length <= 3 in QUIC packets "
    "toward a real client QuicConnection. A case is non-trivial when the victim's dispatcher decided at least one "
    "delivered message after the preparation (accepted, refused or failed verification); two cases are distinct when the "
    "*set* of dispatcher decisions {(victim state, message type/variant, outcome class)} under the scenario, or the completion flag, differ."
)
ASSUMPTIONS = [
    "a message delivered while the client Context is still in CLIENT_HANDSHAKE_START (before it has sent its ClientHello) "
    "is outside the protocol: handle_message() is the 'start' call there and discards its input; counted as an observation "
    "(obs_input_in_handshake_start_discarded), the check only requires that the discarded bytes have no later effect",
    "after an alert other than unexpected_message (failed MAC/signature/certificate) the sequence stops: the connection is dead "
    "and the victim's state there is unspecified by the property (only: no completion, no 1-RTT keys)",
    "types that TLS 1.3 permits but QUIC forbids (KeyUpdate post-handshake, EndOfEarlyData after accepted 0-RTT) may be refused "
    "or processed; they must never complete the handshake or release keys",
    "server 1-RTT *send* key is installed when the server has sent its own Finished (legal TLS 1.3, not covered by the property)",
    "exceptions that are not tls.Alert escaping handle_message on structurally valid messages belong to C05; here they count as "
    "'did not complete' (obs_non_alert_exception) unless state or keys changed",
    "an empty server Certificate must not be accepted; the IndexError aioquic raises for it (instead of an alert) is C05 territory",
    "EncryptedExtensions carrying unsolicited early_data / ALPN / unknown extensions may be rejected or processed; when processed the "
    "next state must be the one the PSK outcome dictates (never EXPECT_FINISHED without an offered and selected PSK)",
]

CERTS = os.path.join(os.path.dirname(os.path.dirname(os.path.abspath(__file__))), "certs")
CA_FILE = os.path.join(CERTS, "pycacert.pem")

STRICT_HANDSHAKE_START = False  # see ASSUMPTIONS[0]

# handshake type numbers (kept local: the parent process must not import the adversary's deps lazily)
T_CH, T_SH, T_NST, T_EOED, T_EE, T_CERT, T_CR, T_CV, T_FIN, T_KU, T_CCERT, T_MH = 1, 2, 4, 5, 8, 11, 13, 15, 20, 24, 25, 254

CLIENT_ALPHABET = ["EE", "CR", "CERT", "CV", "FIN"]
SERVER_ALPHABET = ["CERT", "CERTE", "CV", "FIN"]
SYM = {
    "EE": {"t": T_EE}, "CR": {"t": T_CR}, "CERT": {"t": T_CERT}, "CV": {"t": T_CV}, "FIN": {"t": T_FIN},
    "CERTE": {"t": T_CERT, "v": "empty"}, "SH": {"t": T_SH}, "CH": {"t": T_CH}, "NST": {"t": T_NST},
    "CVBAD": {"t": T_CV, "v": "badsig"}, "CVSTALE": {"t": T_CV, "v": "stale"}, "FINBAD": {"t": T_FIN, "v": "badmac"},
}


EE_VARIANTS = ("early", "early_alpn", "unknown")
FIN_VARIANTS = ("badmac", "empty", "trunc", "trunc1", "long")
VARIANTS = {
    "client": {"EE": EE_VARIANTS, "CERT": ("empty",), "CV": ("badsig", "stale"), "FIN": FIN_VARIANTS},
    "server": {"CV": ("badsig",), "FIN": FIN_VARIANTS},
}
SKELETONS = {
    "client": [["EE", "FIN"], ["EE", "CERT", "CV", "FIN"], ["EE", "CR", "CERT", "CV", "FIN"]],
    "server": [["FIN"], ["CERTE", "FIN"], ["CERT", "CV", "FIN"]],
}


def sym_spec(sym):
    """'FIN' or 'FIN/trunc' -> message spec"""
    base, _, var = sym.partition("/")
    spec = dict(SYM[base])
    if var:
        spec["v"] = var
    return spec


def variant_sequences(side, Lv):
    """content variants: (a) the full cross product of variants over the legal skeletons; (b) for every sequence of
    length <= Lv: each EE variant (applied to all EEs) x at most one other message replaced by a non-canonical variant.
    The all-canonical sequences are left to the main enumeration."""
    import itertools

    alphabet = CLIENT_ALPHABET if side == "client" else SERVER_ALPHABET
    V = VARIANTS[side]
    k = len(alphabet)
    seen, out = set(), []

    def add(q, base):
        tq = tuple(q)
        if q != base and tq not in seen:
            seen.add(tq)
            out.append(q)

    for base in SKELETONS[side]:
        opts = [[s] + [s + "/" + v for v in V.get(s, ())] for s in base]
        for q in itertools.product(*opts):
            add(list(q), base)
    bases = [[alphabet[d] for d in seq_of(i, k)] for i in range(n_sequences(k, Lv))]
    for base in bases:
        for e in (None,) + (tuple(V.get("EE", ())) if "EE" in base else ()):
            b2 = [("EE/" + e) if (s == "EE" and e) else s for s in base]
            add(b2, base)
            for i, s in enumerate(base):
                if s == "EE":
                    continue
                for v in V.get(s, ()):
                    add(b2[:i] + [s + "/" + v] + b2[i + 1:], base)
    return out


def variant_scenarios(tier):
    Lv = 3 if tier == "quick" else 4
    out = []
    for km in ("auth", "own"):
        for psk in ("none", "sel", "notsel", "ghost"):
            out.append(({"side": "client", "key_mode": km, "psk": psk, "policy": "sent", "variants": True}, Lv))
    out.append(({"side": "client", "key_mode": "own", "psk": "none", "policy": "sent", "verify": False, "variants": True}, Lv))
    for req in (False, True):
        for psk in ("none", "early"):
            if req and psk == "early":
                continue
            out.append(({"side": "server", "key_mode": "own", "psk": psk, "policy": "sent", "request": req, "variants": True}, Lv))
    return out


def floors(tier):
    return {
        "w1_cells": 500,
        "w2_client_sequences": 1500,
        "w2_server_sequences": 500,
        "steps_refused_unexpected_message": 2000,
        "steps_accepted": 1000,
        "completed_legal": 50,
        "key_events_checked": 2000,
        "w3_flights": 10,
    }


def finalize(tier, merged):
    planned = 0
    for sc, L in client_scenarios(tier) + server_scenarios(tier):
        planned += n_sequences(len(CLIENT_ALPHABET if sc["side"] == "client" else SERVER_ALPHABET), L)
    for sc, Lv in variant_scenarios(tier):
        planned += len(variant_sequences(sc["side"], Lv))
    done = int(merged.get("w2_client_sequences", 0) + merged.get("w2_server_sequences", 0))
    return {
        # every planned sequence of every scenario was executed (nothing cut off by the budget / a dead child)
        "exhaustive": bool(done == planned and merged.get("w1_cells", 0) >= len(w1_instances()) * (80 if tier == "quick" else 256)),
        "sequences_planned": planned,
        "states": 13,
        "sequences": int(merged.get("w2_client_sequences", 0) + merged.get("w2_server_sequences", 0)),
    }


# ================================================================== plan


def n_sequences(k, L):
    return sum(k**i for i in range(L + 1))


def seq_of(index, k):
    """index-th sequence (as digit list) in length-then-lexicographic order over k symbols"""
    ln = 0
    while index >= k**ln:
        index -= k**ln
        ln += 1
    digits = []
    for _ in range(ln):
        digits.append(index % k)
        index //= k
    return digits[::-1]


def client_scenarios(tier):
    """(scenario, L) list for W2 toward a client victim"""
    L = 4 if tier == "quick" else 6
    Ls = 3 if tier == "quick" else 4
    out = []
    for km in ("auth", "own", "steal"):
        for psk in ("none", "sel", "notsel", "ghost"):
            for policy in ("sent", "accepted"):
                # after a refused ServerHello every message meets the same state: a short enumeration suffices
                out.append(({"side": "client", "key_mode": km, "psk": psk, "policy": policy}, Ls if psk == "ghost" else L))
        # the same enumeration started after a delivered EncryptedExtensions: reaches EE,CR,Cert,CV,Fin within L
        for policy in ("sent", "accepted"):
            out.append(({"side": "client", "key_mode": km, "psk": "none", "policy": policy, "prefix": ["EE"]}, L))
    # client that does not validate the chain (verify_mode CERT_NONE): signature must still verify
    for km in ("own", "steal"):
        for policy in ("sent", "accepted"):
            out.append(({"side": "client", "key_mode": km, "psk": "none", "policy": policy, "verify": False}, L))
    # CertificateVerify whose algorithm does not fit the certificate's key type
    out.append(({"side": "client", "key_mode": "steal_ec", "psk": "none", "policy": "sent"}, Ls))
    # ServerHello selects a PSK index that was not offered / a suite other than the ticket's
    for psk in ("badidx", "wrongsuite"):
        out.append(({"side": "client", "key_mode": "auth", "psk": psk, "policy": "accepted"}, Ls))
    return out


def server_scenarios(tier):
    L = 4 if tier == "quick" else 6
    Ls = 3 if tier == "quick" else 4
    out = []
    for req in (False, True):
        for km in ("own", "steal"):
            for psk in ("none", "ok", "early", "unknown", "badbinder"):
                if req and psk in ("ok", "early"):
                    continue  # _request_client_certificate is a test-only switch that ignores PSK; not a TLS configuration
                if km == "steal" and not req:
                    continue  # without a request every Certificate is refused; key mode is irrelevant
                for policy in ("sent", "accepted"):
                    out.append(({"side": "server", "key_mode": km, "psk": psk, "policy": policy, "request": req},
                                Ls if psk == "badbinder" else L))
    return out


def plan(tier, seed):
    rng = random.Random(seed * 7919 + 11)
    batches = []
    # ---- W1
    inst = w1_instances()
    per = 3 if tier == "quick" else 2
    for i in range(0, len(inst), per):
        batches.append({"gen": "w1", "instances": inst[i : i + per], "seed": rng.randrange(1 << 30),
                        "variants": 1 if tier == "quick" else 3, "all_types": tier != "quick"})
    # ---- W2
    chunk = 800 if tier == "quick" else 2500
    for sc, L in client_scenarios(tier) + server_scenarios(tier):
        k = len(CLIENT_ALPHABET if sc["side"] == "client" else SERVER_ALPHABET)
        total = n_sequences(k, L)
        sub = rng.randrange(1 << 30)
        for lo in range(0, total, chunk):
            batches.append({"gen": "w2", "scenario": sc, "L": L, "lo": lo, "hi": min(total, lo + chunk), "seed": sub})
    # ---- W2 content variants (EE / Finished / CertificateVerify / Certificate bodies)
    for sc, Lv in variant_scenarios(tier):
        total = len(variant_sequences(sc["side"], Lv))
        sub = rng.randrange(1 << 30)
        for lo in range(0, total, chunk):
            batches.append({"gen": "w2", "scenario": sc, "L": Lv, "lo": lo, "hi": min(total, lo + chunk), "seed": sub})
    # ---- W3
    n3 = 4 if tier == "quick" else 16
    k = len(CLIENT_ALPHABET)
    total3 = n_sequences(k, 3)
    for km in ("auth", "own"):
        for psk in ("none", "sel"):
            step = (total3 + n3 - 1) // n3 if tier != "quick" else total3
            for lo in range(0, total3, step):
                batches.append({"gen": "w3", "scenario": {"side": "client", "key_mode": km, "psk": psk, "policy": "sent"},
                                "lo": lo, "hi": min(total3, lo + step), "seed": rng.randrange(1 << 30),
                                "stride": 3 if tier == "quick" else 1})
    # the few (cheap) W3 batches first, the rest interleaved so that a budget cut-off loses a bit of everything
    w3 = [b for b in batches if b["gen"] == "w3"]
    rest = [b for b in batches if b["gen"] != "w3"]
    random.Random(seed).shuffle(rest)
    return w3 + rest


# ================================================================== model (the reference state machine)

CLIENT_STATE = {
    "START": "CLIENT_HANDSHAKE_START", "SH": "CLIENT_EXPECT_SERVER_HELLO", "EE": "CLIENT_EXPECT_ENCRYPTED_EXTENSIONS",
    "CRC": "CLIENT_EXPECT_CERTIFICATE_REQUEST_OR_CERTIFICATE", "CERT": "CLIENT_EXPECT_CERTIFICATE",
    "CV": "CLIENT_EXPECT_CERTIFICATE_VERIFY", "FIN": "CLIENT_EXPECT_FINISHED", "POST": "CLIENT_POST_HANDSHAKE",
}
SERVER_STATE = {
    "CH": "SERVER_EXPECT_CLIENT_HELLO", "CERT": "SERVER_EXPECT_CERTIFICATE", "CV": "SERVER_EXPECT_CERTIFICATE_VERIFY",
    "FIN": "SERVER_EXPECT_FINISHED", "POST": "SERVER_POST_HANDSHAKE",
}


class Model:
    """TLS 1.3 (as used by QUIC) handshake order, RFC 8446 section 2 / appendix A, written down independently.

    predict(t, facts) -> dict(kind, next, reason):
      ACCEPT  next           the message is the one TLS 1.3 expects and is valid: must be processed, state -> next
      REFUSE                 type not permitted now: AlertUnexpectedMessage, state unchanged, no key callback
      SOFT_REFUSE            TLS 1.3 permits, QUIC forbids: either refused or processed without completing / keys
      FAIL    reason         type permitted but content does not verify: must raise, must not complete
      EITHER  next reason    acceptance is optional (e.g. empty client Certificate): follow what the victim did
    """

    def __init__(self, side, psk_ok=False, verify=True, request=False, early=False):
        self.side = side
        self.s = "SH" if side == "client" else "CH"
        self.psk_ok = psk_ok  # client offered a PSK and ServerHello selected it (both known to the harness)
        self.verify = verify
        self.request = request
        self.early = early  # 0-RTT accepted on this connection
        self.cv_verified = False
        self.cert_presented = False
        self.clean = True  # adversary transcript == transcript of what the victim processed
        self.diverged = False

    def state_name(self):
        return (CLIENT_STATE if self.side == "client" else SERVER_STATE)[self.s]

    def predict(self, t, facts):
        s = self.s
        A = lambda nxt: {"kind": "ACCEPT", "next": nxt}
        R = {"kind": "REFUSE"}
        F = lambda why: {"kind": "FAIL", "reason": why}
        if self.side == "client":
            if s == "SH":
                if t == T_SH:
                    if facts.get("sh_valid", True):
                        return A("EE")
                    # RFC 8446 demands illegal_parameter; the property only demands that no PSK shortcut results
                    return {"kind": "EITHER", "next": "EE", "reason": facts.get("sh_reason", "bad-server-hello")}
                return R
            if s == "EE":
                if t != T_EE:
                    return R
                nxt = "FIN" if self.psk_ok else "CRC"
                if facts.get("ee_variant", "ok") != "ok":
                    # unsolicited early_data / ALPN / unknown extension: RFC 8446 lets the client abort; if it goes on,
                    # the next state must not depend on what the extensions say
                    return {"kind": "EITHER", "next": nxt, "reason": "ee-" + facts["ee_variant"]}
                return A(nxt)
            if s == "CRC":
                if t == T_CR:
                    return A("CERT")
                if t == T_CERT:
                    return F("empty-server-certificate") if facts.get("empty") else A("CV")
                return R
            if s == "CERT":
                if t != T_CERT:
                    return R
                return F("empty-server-certificate") if facts.get("empty") else A("CV")
            if s == "CV":
                if t != T_CV:
                    return R
                if not facts["sig_valid"]:
                    return F("bad-signature")
                if self.verify and not facts["chain_valid"]:
                    return F("untrusted-certificate")
                return A("FIN")
            if s == "FIN":
                if t != T_FIN:
                    return R
                return A("POST") if facts["mac_ok"] else F("bad-mac")
            if s == "POST":
                if t == T_NST:
                    return A("POST")
                if t == T_KU:
                    return {"kind": "SOFT_REFUSE"}
                return R
        else:
            if s == "CH":
                if t != T_CH:
                    return R
                if facts.get("ch_fail"):
                    return F(facts["ch_fail"])
                return A("CERT" if self.request else "FIN")
            if s == "CERT":
                if t != T_CERT:
                    return R
                if facts.get("empty"):
                    return {"kind": "EITHER", "next": "FIN", "reason": "empty-client-certificate"}
                return A("CV")
            if s == "CV":
                if t != T_CV:
                    return R
                return A("FIN") if facts["sig_valid"] else F("bad-signature")
            if s == "FIN":
                if t == T_FIN:
                    return A("POST") if facts["mac_ok"] else F("bad-mac")
                if t == T_EOED and self.early:
                    return {"kind": "SOFT_REFUSE"}
                return R
            if s == "POST":
                return R
        raise AssertionError("model state %r" % s)

    def advance(self, t, pred, accepted):
        """move the model; `accepted` = the victim processed the message without raising"""
        k = pred["kind"]
        if k == "ACCEPT" or (k == "EITHER" and accepted):
            if t == T_CV:
                self.cv_verified = True
            if t == T_CERT and pred["next"] == "CV":
                self.cert_presented = True
            self.s = pred["next"]


# ================================================================== victims and environments


class Recorder:
    def __init__(self):
        self.events = []

    def __call__(self, direction, epoch, cipher_suite, secret):
        self.events.append((direction.name, epoch.name, bytes(secret)))


def new_buffers():
    from aioquic import tls
    from aioquic.buffer import Buffer

    return {tls.Epoch.INITIAL: Buffer(capacity=16384), tls.Epoch.HANDSHAKE: Buffer(capacity=16384), tls.Epoch.ONE_RTT: Buffer(capacity=16384)}


def deliver(victim, rec, data):
    """The only place where the property's API is called. Returns an observation dict."""
    bufs = new_buffers()
    n0 = len(rec.events)
    before = victim.state
    exc = None
    try:
        victim.handle_message(data, bufs)
    except Exception as e:  # classified by the caller
        exc = e
    return {
        "exc": exc,
        "before": before.name,
        "after": victim.state.name,
        "keys": rec.events[n0:],
        "out": {e.name: bytes(b.data) for e, b in bufs.items()},
    }


def make_ticket(suite, psk, early):
    from aioquic import tls

    now = datetime.datetime.now(datetime.timezone.utc)
    return tls.SessionTicket(
        age_add=0,
        cipher_suite=tls.CipherSuite(suite),
        not_valid_after=now + datetime.timedelta(days=1),
        not_valid_before=now - datetime.timedelta(seconds=5),
        resumption_secret=psk,
        server_name="localhost",
        ticket=b"c11-ticket",
        max_early_data_size=0xFFFFFFFF if early else None,
    )


def scenario_details(sc, seed):
    """fill the free parameters of a scenario deterministically from the seed"""
    rng = random.Random(seed)
    d = dict(sc)
    d.setdefault("suite", rng.choice([0x1301, 0x1302, 0x1303]))
    d.setdefault("group", rng.choice([0x001D, 0x0017]))
    d.setdefault("client_cert", rng.random() < 0.5)
    d.setdefault("alpn", rng.random() < 0.5)
    d.setdefault("ticket_early", rng.random() < 0.5)
    d.setdefault("verify", True)
    d.setdefault("request", False)
    return d


class Env:
    """one victim + one adversary + one model"""

    side = "?"

    def __init__(self, sc, res):
        self.sc = sc
        self.res = res
        self.policy = sc.get("policy", "sent")
        self.rec = Recorder()
        self.trace = []
        self.trace_start = 0  # steps before this index are preparation (hello exchange / legal prefix)
        self.stopped = False
        self.refusals = 0
        self.case = None

    # -- to be provided by subclasses: victim, adv, model, build(spec) -> (bytes, facts)

    def completed(self):
        return self.victim.state.name in ("CLIENT_POST_HANDSHAKE", "SERVER_POST_HANDSHAKE")

    def step(self, spec):
        """build one message, predict, deliver, compare. Returns the observation."""
        from aioquic import tls
        from .. import c11_adversary as A

        res = self.res
        t = spec["t"]
        cp = self.adv.sched.checkpoint() if self.adv.sched is not None else None
        data, facts = self.build(spec)
        pred = self.model.predict(t, facts) if not self.model.diverged else {"kind": "NONE"}
        obs = deliver(self.victim, self.rec, data)
        exc = obs["exc"]
        tn = A.type_name(t) + (":" + str(spec["v"]) if spec.get("v") not in (None, "ok", 0) and not isinstance(spec.get("v"), int) else "")
        st = obs["before"]
        # signatures name the mechanism: all type values without a TLS 1.3 meaning share one signature
        where = "%s:%s" % (st, tn if t in A.TYPE_NAMES else "TYPE_OTHER")
        kind = pred["kind"]
        is_um = isinstance(exc, tls.AlertUnexpectedMessage)
        is_alert = isinstance(exc, tls.Alert)
        if exc is None:
            outcome = "accepted"
        elif is_um:
            outcome = "refused-um"
        elif is_alert:
            outcome = "alert:" + type(exc).__name__
        else:
            outcome = "raised:" + type(exc).__name__
            res.count("obs_non_alert_exception")
            res.count("obs_non_alert_exception:" + exc_signature(exc))
        self.trace.append((st, tn, outcome))
        res.count("steps_total")
        res.count("steps_" + {"accepted": "accepted", "refused-um": "refused_unexpected_message"}.get(outcome, "failed"))
        if outcome.startswith("alert:"):
            res.count("alerts:" + type(exc).__name__)
        witness = lambda: {"scenario": self.sc, "trace": self.trace[-12:], "prediction": pred, "facts": facts,
                           "keys": [(d, e) for d, e, _ in obs["keys"]], **(exc_witness(exc) if exc is not None else {})}
        diverged = False

        # ---- (2) refusal is clean / (1) per-message order
        if kind == "REFUSE":
            res.count("refusals_checked")
            if exc is None:
                sig = "unexpected-type-processed:" if (obs["after"] != st or obs["keys"]) else "unexpected-type-ignored:"
                res.violation(sig + where, "message type not permitted in %s was not refused (state after: %s)" % (st, obs["after"]), self.case, witness())
                diverged = True
            else:
                if not is_um:
                    if is_alert:
                        res.violation("unexpected-type-wrong-alert:%s:%s" % (type(exc).__name__, where),
                                      "refused with %r instead of unexpected_message" % exc, self.case, witness())
                    # non-alert exceptions: C05's business (counted above)
                if obs["after"] != st:
                    res.violation("refusal-changed-state:" + where, "state %s -> %s during a refused message" % (st, obs["after"]), self.case, witness())
                    diverged = True
                for d, e, _ in obs["keys"]:
                    res.violation("refusal-installed-keys:%s:%s:%s" % (where, e, d), "traffic-key callback fired during a refused call", self.case, witness())
                if any(obs["out"].values()):
                    res.count("obs_output_during_refused_call")
        elif kind == "SOFT_REFUSE":
            res.count("soft_refusals_checked")
            if exc is None:
                res.count("obs_quic_forbidden_type_processed")
            if obs["after"] != st:
                res.violation("refusal-changed-state:" + where, "state %s -> %s" % (st, obs["after"]), self.case, witness())
                diverged = True
            for d, e, _ in obs["keys"]:
                res.violation("refusal-installed-keys:%s:%s:%s" % (where, e, d), "traffic-key callback fired", self.case, witness())
        elif kind == "ACCEPT":
            res.count("accepts_checked")
            want = (CLIENT_STATE if self.side == "client" else SERVER_STATE)[pred["next"]]
            if exc is not None:
                # after a refusal the adversary MACs/signs over what the victim accepted: a failure here means the
                # refused message left a trace in the victim (transcript or other state)
                sig = "legal-message-rejected-after-refusal" if self.refusals else "legal-message-rejected"
                res.violation("%s:%s:%s" % (sig, where, type(exc).__name__),
                              "valid %s in %s raised %r%s" % (tn, st, exc, " (after %d refused message(s))" % self.refusals if self.refusals else ""),
                              self.case, witness())
                diverged = True
            elif obs["after"] != want:
                res.violation("wrong-transition:%s:%s" % (where, obs["after"]), "expected %s" % want, self.case, witness())
                diverged = True
        elif kind == "FAIL":
            res.count("verification_failures_checked")
            if exc is None:
                res.violation("unverified-accepted:%s:%s" % (tn, pred["reason"]),
                              "%s that must not verify (%s) was accepted in %s -> %s" % (tn, pred["reason"], st, obs["after"]), self.case, witness())
                diverged = True
            else:
                res.count("failed:%s:%s" % (pred["reason"], type(exc).__name__))
                # a message whose content did not verify must leave the handshake where it was: a state that moved on
                # lets the rest of the (genuine) flight finish the handshake if the caller keeps feeding it
                res.count("failed_verifications_state_checked")
                if obs["after"] != st:
                    res.violation("failed-verification-changed-state:%s:%s" % (where, pred["reason"]),
                                  "%s failed verification (%s, %r) yet the state went %s -> %s" % (tn, pred["reason"], exc, st, obs["after"]), self.case, witness())
                    diverged = True
                for d, e, _ in obs["keys"]:
                    res.violation("failed-verification-installed-keys:%s:%s:%s" % (where, e, d), "traffic-key callback fired during a call that failed verification", self.case, witness())
        elif kind == "EITHER":
            res.count("either_checked")
            if exc is None:
                want = (CLIENT_STATE if self.side == "client" else SERVER_STATE)[pred["next"]]
                res.count("obs_either_accepted:" + pred["reason"])
                if obs["after"] != want:
                    res.violation("wrong-transition:%s:%s" % (where, obs["after"]), "expected %s" % want, self.case, witness())
                    diverged = True
            else:
                res.count("obs_either_refused:" + pred["reason"])

        # ---- (3) key release
        self.check_keys(t, spec, facts, pred, obs, where, witness)

        # ---- bookkeeping
        if kind != "NONE":
            self.model.advance(t, pred, exc is None)
        if diverged:
            self.model.diverged = True
        if exc is not None:
            if is_um or kind in ("REFUSE", "SOFT_REFUSE"):
                # refused: under policy "accepted" the adversary forgets the message, under "sent" its
                # transcript now differs from the victim's
                self.refusals += 1
                if self.policy == "accepted":
                    if cp is not None:
                        self.adv.sched.restore(cp)
                    else:
                        self.adv.sched = None
                    if self.adv.sent:
                        self.adv.sent.pop()
                else:
                    self.model.clean = False
            else:
                self.stopped = True  # verification failure: the connection is dead
        return obs

    def check_keys(self, t, spec, facts, pred, obs, where, witness):
        res = self.res
        m = self.model
        for d, e, secret in obs["keys"]:
            res.count("key_events_checked")
            res.count("key_event:%s:%s:%s" % (self.side, e, d))
            if e == "ONE_RTT":
                if self.side == "server" and d == "ENCRYPT":
                    res.count("obs_server_1rtt_send_key_at:" + where.split(":")[1])
                    continue
                why = None
                if t != T_FIN:
                    why = "not-in-finished:" + where
                elif not facts.get("mac_ok"):
                    why = "finished-mac-mismatch"
                elif self.side == "client" and not (m.psk_ok or m.cv_verified):
                    why = "no-verified-certificate-verify"
                elif self.side == "server" and m.cert_presented and not m.cv_verified:
                    why = "no-verified-certificate-verify"
                if why:
                    res.violation("1rtt-key-released:%s:%s:%s" % (self.side, d, why),
                                  "%s 1-RTT %s key released while processing %s" % (self.side, d, where), self.case, witness())
                else:
                    exp = self.expected_app_secret(d)
                    if exp is not None and exp != secret:
                        res.count("obs_1rtt_secret_differs_from_adversary_schedule")
                    else:
                        res.count("key_1rtt_release_legitimate")
            elif e == "ZERO_RTT":
                if self.side == "server":
                    ok = t == T_CH and facts.get("psk_valid") and facts.get("early_offered")
                    if not ok:
                        res.violation("0rtt-key-released:%s" % (facts.get("psk_why") or ("not-in-client-hello:" + where)),
                                      "server 0-RTT receive key released while processing %s" % where, self.case, witness())
                    else:
                        res.count("key_0rtt_release_legitimate")
                        if secret != self.adv.early_secret:
                            res.count("obs_0rtt_secret_differs_from_adversary_schedule")

    def expected_app_secret(self, d):
        return None

    # -- running symbol lists
    def run(self, specs):
        for spec in specs:
            if self.stopped:
                break
            self.step(spec)

    def finish(self, label):
        """completion oracle at the end of a case"""
        res = self.res
        done = self.completed()
        legal = self.model.s == "POST" and not self.model.diverged
        if done and not legal:
            res.violation(
                "completed-illegal-flight:%s:psk_ok=%s:cv_verified=%s" % (self.side, self.model.psk_ok, self.model.cv_verified),
                "victim reached %s although the flight is not a legal one (model state %s)" % (self.victim.state.name, self.model.s),
                self.case, {"scenario": self.sc, "trace": self.trace[-12:]})
        if legal and done:
            res.count("completed_legal")
            res.count("completed_legal:" + self.side)
        if legal and not done and not self.model.diverged:
            res.violation("legal-flight-not-completed:" + self.side, "model reached POST, victim is in %s" % self.victim.state.name,
                          self.case, {"scenario": self.sc, "trace": self.trace[-12:]})
        if not done:
            res.count("not_completed")
        body = self.trace[self.trace_start:]
        if body:
            # distinct = different *set* of dispatcher decisions (victim state, type/variant, outcome) under the scenario
            res.nontrivial.add("%s:%s" % (label, h(tuple(sorted((k, str(v)) for k, v in self.sc.items() if k in
                                                             ("side", "key_mode", "psk", "policy", "verify", "request", "prefix", "variants"))),
                                               tuple(sorted(set(body))), done)))
        return done


class ClientEnv(Env):
    side = "client"

    def __init__(self, sc, res, upto="SH"):
        """victim = client Context. upto: 'START' (nothing called), 'CH' (ClientHello sent) or 'SH' (ServerHello delivered)"""
        super().__init__(sc, res)
        from aioquic import tls
        from .. import c11_adversary as A
        import ssl

        psk_mode = sc["psk"]
        offered = psk_mode in ("sel", "notsel", "badidx", "wrongsuite")
        suite = sc["suite"]
        self.psk = os.urandom(48 if suite == 0x1302 else 32)
        v = tls.Context(is_client=True, cafile=CA_FILE, server_name="localhost",
                        alpn_protocols=["vf"] if sc["alpn"] else None,
                        verify_mode=None if sc["verify"] else ssl.CERT_NONE)
        v.handshake_extensions = [(0x39, b"\x01\x02\x03\x04")]
        v.update_traffic_key_cb = self.rec
        self.tickets = []
        v.new_session_ticket_cb = self.tickets.append
        if sc["client_cert"]:
            chain, key, certs = A.own_identity("client.c11")
            v.certificate = certs[0]
            v.certificate_private_key = key
        if offered:
            v.session_ticket = make_ticket(suite, self.psk, sc["ticket_early"])
        self.victim = v
        km = sc["key_mode"]
        self.adv = A.RogueServer("steal" if km == "steal_ec" else km, suite, sc["group"], psk=self.psk,
                                 alpn=b"vf" if sc["alpn"] else None)
        if km == "steal":
            # honest attempt: declare the algorithm that fits the stolen (RSA) certificate, sign with an own RSA key.
            # "steal_ec" keeps the own P-256 key, i.e. declares ECDSA against an RSA certificate.
            self.adv.ident.key = own_rsa_key()
        self.model = Model("client", psk_ok=False, verify=sc["verify"])
        self.model.s = "START"
        self.sh_refused = False
        if upto == "START":
            return
        self.start()
        if upto == "CH":
            return
        self.step(SYM["SH"])

    def start(self):
        obs = deliver(self.victim, self.rec, b"")
        if obs["exc"] is not None or obs["after"] != "CLIENT_EXPECT_SERVER_HELLO":
            raise RuntimeError("client victim did not start: %r" % (obs["exc"],))
        for d, e, _ in obs["keys"]:
            self.res.count("key_events_checked")
            self.res.count("key_event:client:%s:%s" % (e, d))
            if (d, e) != ("ENCRYPT", "ZERO_RTT"):
                self.res.violation("keys-at-client-hello:%s:%s" % (e, d), "unexpected key callback while sending ClientHello", self.case, None)
        self.adv.recv_client_hello(obs["out"]["INITIAL"])
        self.model.s = "SH"

    def expected_app_secret(self, d):
        s = self.adv.sched
        return s.s_ap if d == "DECRYPT" else s.c_ap

    def build(self, spec):
        from .. import c11_adversary as A

        t, v = spec["t"], spec.get("v", "ok")
        if v in (0, None):
            v = "ok"
        adv, m = self.adv, self.model
        facts = {}
        if t == T_SH and adv.sh_bytes is None and m.s == "SH":
            psk_mode = self.sc["psk"]
            if psk_mode == "sel":
                data = adv.server_hello(psk_index=0, seed_with_psk=True)
                if not adv.binder_ok:
                    raise RuntimeError("harness: PSK binder of the victim's ClientHello does not verify under the adversary's schedule")
                m.psk_ok = True
            elif psk_mode == "ghost":
                data = adv.server_hello(psk_index=0, seed_with_psk=False)
                facts.update(sh_valid=False, sh_reason="psk-selected-but-not-offered")
            elif psk_mode == "badidx":
                data = adv.server_hello(psk_index=1, seed_with_psk=True)
                facts.update(sh_valid=False, sh_reason="psk-index-not-offered")
            elif psk_mode == "wrongsuite":
                other = 0x1302 if self.sc["suite"] != 0x1302 else 0x1301
                data = adv.server_hello(psk_index=0, seed_with_psk=True, suite=other)
                facts.update(sh_valid=False, sh_reason="psk-suite-mismatch")
            else:
                data = adv.server_hello()
            return data, facts
        ensure_sched(adv)
        if t == T_CV:
            data = adv.certificate_verify(v if v in ("badsig", "stale") else "ok")
            facts["sig_valid"] = adv.ident.key_matches_cert and m.clean and v == "ok"
            facts["chain_valid"] = adv.ident.cert_is_authentic
        elif t == T_FIN:
            data = adv.finished(v if v in FIN_VARIANTS else "ok")
            facts["mac_ok"] = m.clean and v == "ok"
        elif t == T_EE:
            data = adv.encrypted_extensions(v if v in EE_VARIANTS else "ok")
            facts["ee_variant"] = v if v in EE_VARIANTS else "ok"
        elif t == T_CERT:
            data = adv.certificate(empty=(v == "empty"))
            facts["empty"] = v == "empty"
        elif t == T_SH and m.s == "SH":
            data = adv.typed(t)
            facts["sh_valid"] = True
        else:
            data = adv.typed(t, v if isinstance(v, int) else 0)
        return data, facts

    def legal_rest(self, with_cr=False):
        s = self.model.s
        seq = {"EE": ["EE"] + (["FIN"] if self.model.psk_ok else (["CR"] if with_cr else []) + ["CERT", "CV", "FIN"]),
               "CRC": (["CR"] if with_cr else []) + ["CERT", "CV", "FIN"], "CERT": ["CERT", "CV", "FIN"],
               "CV": ["CV", "FIN"], "FIN": ["FIN"], "POST": []}[s]
        return [SYM[x] for x in seq]


class ServerEnv(Env):
    side = "server"

    def __init__(self, sc, res, upto="CH"):
        """victim = server Context. upto: 'START' (nothing delivered) or 'CH' (ClientHello delivered)"""
        super().__init__(sc, res)
        from aioquic import tls
        from .. import c11_adversary as A

        suite = sc["suite"]
        psk_mode = sc["psk"]
        self.psk = os.urandom(48 if suite == 0x1302 else 32)
        v = tls.Context(is_client=False, alpn_protocols=["vf"] if sc["alpn"] else None)
        chain, key, certs = A.authentic()
        v.certificate = certs[0]
        v.certificate_private_key = key
        v.handshake_extensions = [(0x39, b"\x05\x06")]
        v.update_traffic_key_cb = self.rec
        v._request_client_certificate = bool(sc["request"])
        self.tickets = []
        v.new_session_ticket_cb = self.tickets.append
        known = psk_mode in ("ok", "early", "badbinder")
        ticket = make_ticket(suite, self.psk, True)
        v.get_session_ticket_cb = lambda ident: ticket if (known and ident == b"c11-ticket") else None
        self.victim = v
        offer = psk_mode != "none"
        self.early_offered = psk_mode in ("early", "badbinder", "unknown")
        self.adv = A.RogueClient(sc["key_mode"], suite, sc["group"], psk=self.psk if offer else None,
                                 binder="bad" if psk_mode == "badbinder" else "ok", early_data=self.early_offered,
                                 extensions=A.ext(0x39, b"\x07\x08"), alpn=b"vf" if sc["alpn"] else None)
        if sc["key_mode"] == "steal":
            self.adv.ident.key = own_rsa_key()
        self.model = Model("server", request=bool(sc["request"]))
        if upto == "START":
            return
        self.step(SYM["CH"])

    def expected_app_secret(self, d):
        return self.adv.sched.c_ap if d == "DECRYPT" else None

    def step(self, spec):
        first_ch = spec["t"] == T_CH and self.model.s == "CH" and self.adv.ch_bytes is None
        obs = super().step(spec)
        if first_ch and obs["exc"] is None and not self.model.diverged:
            self.adv.recv_server_flight(obs["out"]["INITIAL"], obs["out"]["HANDSHAKE"])
            if not self.adv.server_finished_ok:
                raise RuntimeError("harness: victim's server Finished does not verify under the adversary's key schedule")
            accepted = self.adv.psk_accepted
            if accepted and self.sc["psk"] not in ("ok", "early"):
                self.res.violation("psk-accepted:" + self.sc["psk"], "server selected a PSK whose binder/ticket is not valid", self.case,
                                   {"scenario": self.sc})
            self.model.early = bool(accepted and self.early_offered)
            self.res.count("obs_server_psk_" + ("accepted" if accepted else "not_accepted") + ":" + self.sc["psk"])
        return obs

    def build(self, spec):
        t, v = spec["t"], spec.get("v", "ok")
        if v in (0, None):
            v = "ok"
        adv, m = self.adv, self.model
        facts = {}
        if t == T_CH and adv.ch_bytes is None:
            data = adv.client_hello()
            pm = self.sc["psk"]
            facts["psk_valid"] = pm in ("ok", "early")
            facts["early_offered"] = self.early_offered
            facts["psk_why"] = {"badbinder": "binder-mismatch", "unknown": "unknown-ticket", "none": "no-psk-offered"}.get(pm)
            if pm == "badbinder":
                facts["ch_fail"] = "psk-binder-mismatch"
            return data, facts
        ensure_sched(adv)
        if t == T_CERT:
            data = adv.certificate(empty=(v == "empty"))
            facts["empty"] = v == "empty"
        elif t == T_CV:
            data = adv.certificate_verify("badsig" if v == "badsig" else "ok")
            facts["sig_valid"] = adv.ident.key_matches_cert and m.clean and v == "ok"
        elif t == T_FIN:
            data = adv.finished(v if v in FIN_VARIANTS else "ok")
            facts["mac_ok"] = m.clean and v == "ok"
        else:
            data = adv.typed(t, v if isinstance(v, int) else 0)
        return data, facts

    def legal_rest(self, with_cert=True):
        s = self.model.s
        seq = {"CH": None, "CERT": (["CERT", "CV", "FIN"] if with_cert else ["CERTE", "FIN"]), "CV": ["CV", "FIN"], "FIN": ["FIN"], "POST": []}[s]
        return [SYM[x] for x in seq]


_rsa = []


def own_rsa_key():
    if not _rsa:
        from cryptography.hazmat.primitives.asymmetric import rsa

        _rsa.append(rsa.generate_private_key(public_exponent=65537, key_size=2048))
    return _rsa[0]


def ensure_sched(adv):
    """before the key exchange the adversary has no secrets: the best it can do is all-zero keys"""
    from .. import c11_adversary as A

    if adv.sched is None:
        adv.sched = A.Schedule(adv.suite, None)
    s = adv.sched
    for name in ("c_hs", "s_hs", "master"):
        if getattr(s, name) is None:
            setattr(s, name, s.zeros)


# ================================================================== W2


def w2_case(sc, symbols, res, case):
    side = sc["side"]
    env_cls = ClientEnv if side == "client" else ServerEnv
    env = env_cls(sc, res)
    env.case = case
    if side == "client" and env.victim.state.name != "CLIENT_EXPECT_ENCRYPTED_EXTENSIONS":
        res.count("w2_server_hello_refused")
    if side == "server" and env.victim.state.name == "SERVER_EXPECT_CLIENT_HELLO":
        res.count("w2_client_hello_refused")
    env.stopped = False  # a refused hello does not end the experiment: the rest must still be refused
    env.run([SYM[x] for x in sc.get("prefix", [])])
    env.trace_start = len(env.trace)
    env.run([sym_spec(s) for s in symbols])
    done = env.finish("w2")
    res.evaluations += 1
    res.count("w2_%s_sequences" % side)
    res.count("w2_len_%d" % len(symbols))
    if done:
        res.count("w2_completed:%s:%s:%s" % (side, sc["key_mode"], sc["psk"]))
    return env


def gen_w2(batch, res):
    sc = scenario_details(batch["scenario"], batch["seed"])
    alphabet = CLIENT_ALPHABET if sc["side"] == "client" else SERVER_ALPHABET
    k = len(alphabet)
    lo, hi = batch["lo"], batch["hi"]
    vseqs = variant_sequences(sc["side"], batch["L"]) if sc.get("variants") else None
    for idx in range(lo, hi):
        symbols = vseqs[idx] if vseqs is not None else [alphabet[d] for d in seq_of(idx, k)]
        if vseqs is not None:
            res.count("w2_variant_sequences")
        case = {"gen": "w2_one", "scenario": sc, "seq": symbols}
        env = w2_case(sc, symbols, res, case)
        if idx in (lo, lo + 7, hi - 1):
            res.sample({"gen": "w2", "scenario": {k_: sc[k_] for k_ in ("side", "key_mode", "psk", "policy", "verify", "request", "prefix") if k_ in sc}, "seq": symbols,
                        "trace": env.trace, "completed": env.completed()}, limit=3)
    if hi >= (len(vseqs) if vseqs is not None else n_sequences(k, batch["L"])):
        res.count("w2_enumerations_complete")


def gen_w2_one(batch, res):
    w2_case(batch["scenario"], batch["seq"], res, batch)


# ================================================================== W1


def w1_instances():
    """state instances: (side, scenario overrides, legal prefix)"""
    I = []
    c = lambda psk, prefix, upto="SH", **kw: I.append({"side": "client", "psk": psk, "prefix": prefix, "upto": upto, **kw})
    s = lambda psk, prefix, request=False, upto="CH": I.append({"side": "server", "psk": psk, "prefix": prefix, "upto": upto, "request": request})
    c("none", [], upto="START")
    c("sel", [], upto="START")
    c("none", [], upto="CH")
    c("sel", [], upto="CH")
    c("none", [])
    c("sel", [])
    c("notsel", [])
    c("none", ["EE"])
    c("notsel", ["EE"])
    c("none", ["EE", "CR"])
    c("none", ["EE", "CERT"])
    c("none", ["EE", "CR", "CERT"])
    c("none", ["EE", "CERT", "CV"])
    c("none", ["EE", "CR", "CERT", "CV"])
    c("sel", ["EE"])
    c("none", ["EE", "CERT", "CV", "FIN"])
    c("none", ["EE", "CR", "CERT", "CV", "FIN"])
    c("sel", ["EE", "FIN"])
    s("none", [], upto="START")
    s("none", [], request=True)
    s("none", ["CERT"], request=True)
    s("none", [])
    s("none", ["CERTE"], request=True)
    s("none", ["CERT", "CV"], request=True)
    s("ok", [])
    s("early", [])
    s("none", ["FIN"])
    s("none", ["CERTE", "FIN"], request=True)
    s("none", ["CERT", "CV", "FIN"], request=True)
    s("early", ["FIN"])
    return I


def w1_prepare(inst, seed, res, case):
    sc = scenario_details({"side": inst["side"], "key_mode": "auth" if inst["side"] == "client" else "own",
                           "psk": inst["psk"], "policy": "accepted", "request": inst.get("request", False)}, seed)
    env = (ClientEnv if inst["side"] == "client" else ServerEnv)(sc, res, upto=inst["upto"])
    env.case = case
    env.run([SYM[x] for x in inst["prefix"]])
    return env


def w1_cell(inst, spec, seed, res):
    """one (state instance, message) cell: deliver the message, then the legal continuation"""
    case = {"gen": "w1_one", "instance": inst, "spec": spec, "seed": seed}
    env = w1_prepare(inst, seed, res, case)
    if env.model.diverged or env.stopped:
        res.count("w1_prefix_failed")
        env.finish("w1")
        return env
    state = env.victim.state.name
    env.trace_start = len(env.trace)
    if inst["upto"] == "START" and inst["side"] == "client":
        w1_start_cell(env, spec, res, case)
        return env
    env.step(spec)
    # continuation: whatever happened, the legal remainder (MACs over what the victim accepted) must complete
    if not env.stopped and not env.model.diverged:
        if env.model.s in ("SH", "CH"):
            env.step(SYM["SH"] if env.side == "client" else SYM["CH"])
        if not env.stopped and not env.model.diverged:
            with_opt = bool(seed & 1)
            rest = env.legal_rest(with_opt) if env.side == "client" else env.legal_rest(with_opt)
            env.run(rest)
            res.count("w1_continuations")
    env.finish("w1")
    res.count("w1_cells")
    res.count("w1_cells:" + state)
    res.evaluations += 1
    return env


def w1_start_cell(env, spec, res, case):
    """CLIENT_HANDSHAKE_START: handle_message() is the 'start' call; any input bytes are discarded (see ASSUMPTIONS)."""
    from aioquic import tls
    from .. import c11_adversary as A

    # the adversary needs some ClientHello to build a plausible message: use a throw-away client's
    shadow_res = Result()
    shadow = ClientEnv(dict(env.sc, psk="none"), shadow_res, upto="CH")
    shadow.case = case
    data, _ = shadow.build(spec) if spec["t"] != T_SH else (shadow.adv.server_hello(), None)
    obs = deliver(env.victim, env.rec, data)
    env.trace.append((obs["before"], A.type_name(spec["t"]), "start-call"))
    res.count("steps_total")
    if obs["exc"] is not None and isinstance(obs["exc"], tls.AlertUnexpectedMessage) and obs["after"] == obs["before"] and not obs["keys"]:
        res.count("obs_input_in_handshake_start_refused")
    elif obs["exc"] is None and obs["after"] == "CLIENT_EXPECT_SERVER_HELLO":
        res.count("obs_input_in_handshake_start_discarded")
        if STRICT_HANDSHAKE_START:
            res.violation("unexpected-type-ignored:CLIENT_HANDSHAKE_START:" + A.type_name(spec["t"]),
                          "input delivered before the ClientHello was sent is silently discarded", case, None)
        for d, e, _ in obs["keys"]:
            res.count("key_events_checked")
            if (d, e) != ("ENCRYPT", "ZERO_RTT"):
                res.violation("keys-at-client-hello:%s:%s" % (e, d), "unexpected key callback while sending ClientHello", case, None)
        # the discarded bytes must have no later effect: a legal handshake still completes
        env.adv.recv_client_hello(obs["out"]["INITIAL"])
        env.model.s = "SH"
        env.step(SYM["SH"])
        if not env.stopped and not env.model.diverged:
            env.run(env.legal_rest(False))
    else:
        res.violation("handshake-start:%s" % (type(obs["exc"]).__name__ if obs["exc"] else obs["after"]),
                      "start call with input ended in %s / %r" % (obs["after"], obs["exc"]), case,
                      exc_witness(obs["exc"]) if obs["exc"] else None)
        env.model.diverged = True
    env.finish("w1")
    res.count("w1_cells")
    res.count("w1_cells:CLIENT_HANDSHAKE_START")
    res.evaluations += 1


NAMED_TYPES = (T_CH, T_SH, T_NST, T_EOED, T_EE, T_CERT, T_CR, T_CV, T_FIN, T_KU, T_CCERT, T_MH)


def w1_types(all_types, seed):
    """thorough: all 256 values; quick: every value with a TLS 1.3 meaning, 0/3/6/255 and 64 seeded others"""
    if all_types:
        return list(range(256))
    base = sorted(set(NAMED_TYPES) | {0, 3, 6, 255})
    others = [t for t in range(256) if t not in base]
    return sorted(base + random.Random(seed).sample(others, 64))


def w1_specs(variants, all_types=True, seed=0):
    specs = []
    for t in w1_types(all_types, seed):
        specs.append({"t": t, "v": 0})
        if variants > 1 and t not in (T_CH, T_SH, T_EE, T_CERT, T_CR, T_CV, T_FIN, T_NST):
            for v in range(1, variants):
                specs.append({"t": t, "v": v})
    specs += [{"t": T_CV, "v": "badsig"}, {"t": T_CV, "v": "stale"}, {"t": T_CERT, "v": "empty"}]
    specs += [{"t": T_FIN, "v": v} for v in FIN_VARIANTS] + [{"t": T_EE, "v": v} for v in EE_VARIANTS]
    return specs


def gen_w1(batch, res):
    for k, inst in enumerate(batch["instances"]):
        for spec in w1_specs(batch.get("variants", 1), batch.get("all_types", True), batch["seed"] + k):
            if spec.get("v") == "stale" and inst["side"] == "server":
                continue
            env = w1_cell(inst, spec, batch["seed"] + k, res)
            if spec["t"] in (T_FIN, 99) and spec.get("v") == 0:
                res.sample({"gen": "w1", "instance": inst, "spec": spec, "trace": env.trace, "completed": env.completed()}, limit=4)


def gen_w1_one(batch, res):
    w1_cell(batch["instance"], batch["spec"], batch["seed"], res)


# ================================================================== W3 (QUIC level)


def gen_w3(batch, res):
    from .. import c11_quic

    c11_quic.run_w3(batch, res)


def gen_w3_one(batch, res):
    from .. import c11_quic

    c11_quic.run_w3_one(batch, res)


GENS = {"w1": gen_w1, "w1_one": gen_w1_one, "w2": gen_w2, "w2_one": gen_w2_one, "w3": gen_w3, "w3_one": gen_w3_one}


def run_batch(batch):
    res = Result()
    t0 = time.process_time()
    GENS[batch["gen"]](batch, res)
    res.count("cpu_s_" + batch["gen"].split("_")[0], round(time.process_time() - t0, 3))
    return res.as_dict()
