"""C14 — HTTP/3 events are independent of chunking and survive a round trip.

(a) metamorphic monitor: the same per-stream byte strings are delivered to fresh receiver
    H3Connections under many splittings x interleavings; the normalised per-stream outcome must
    equal that of the reference delivery (each stream whole, sender order).  Byte strings come from
    real sender H3Connections over a recording stub and from a harness frame-level generator.
    All 2^(n-1) splittings are enumerated for a catalogue of streams of <= 14 bytes.
(b) producer/consumer check: client and server H3Connection over a real connected QUIC pair with
    reordering / loss chosen by the harness; what each application receives must equal what the
    peer submitted, per stream, in order, ended exactly once.
"""

from __future__ import annotations

import random
import time

from .. import c14_gen as G
from .. import c14_lib as L
from ..common import Result, SeededUrandom, exc_signature, exc_witness, h

PROPERTY = "C14"
LEVEL = "exploration"
BUDGET = {"quick": 75, "thorough": 1500}
BATCH_TIMEOUT = {"quick": 300, "thorough": 3000}
RULE = (
    "(a) a case = per-stream byte strings (real sender H3Connection over a recording stub, or harness frame generator: "
    "DATA/HEADERS of length 0/1/63/64/16383/16384, GREASE/reserved frames and stream types, FIN at a boundary / inside a "
    "header / inside a payload, static+dynamic+literal QPACK); a delivery = (splitting of every stream, interleaving "
    "preserving per-stream order) fed to a fresh receiver; every stream of the <=14-byte catalogue gets all 2^(n-1) "
    "splittings (FIN on the last chunk and FIN alone, with the encoder stream before and after). Non-trivial = the "
    "reference delivery produced >=1 event or a close and the delivery differs from the reference schedule; distinct = "
    "distinct (case label/shape, cut classes relative to the frame structure, FIN mode, order, blocked-seen). "
    "(b) a case = seeded script of requests/responses/trailers/pushes/WebTransport/datagrams over a real QUIC pair with "
    "held-back (reordered) and dropped datagrams; non-trivial = >=1 body byte and >=1 header block received; distinct = "
    "distinct (script shape, network mode, blocked-seen)."
)
ASSUMPTIONS = [
    "after a connection error (close() called on the transport) the layer ignores further input by design: when the "
    "reference delivery closes, only 'closed with the same code' is compared, not per-stream content; a delivery that "
    "closes with another code is accepted (counted) iff delivering exactly the per-stream prefixes it had received, whole "
    "and in sender order, closes with that same code (several independent errors, first one wins)",
    "an interleaving is restricted to be causal: bytes the sender emitted after it had processed the receiver's QPACK "
    "decoder feedback (phase k+1) are never delivered before bytes of phase k",
    "event packaging (number of DataReceived events, which event carries the end flag) is not compared",
    "header lists stay below pylsqpack's 4096-byte encode buffers (a larger list makes the third-party encoder raise); "
    "exceptions escaping handle_event are compared as an outcome class only (C16 owns them)",
    "datagram order is compared only on the stub; over the real reordering/lossy link only integrity and at-most-once",
]


def floors(tier):
    # ~10 % of what a complete quick run reaches (a loaded machine completes only part of the plan)
    return {
        "deliveries_checked": 30000,
        "splittings_enumerated": 20000,
        "exh_streams_complete": 5,
        "blocked_resumes_observed": 500,
        "sender_cases": 20,
        "stub_roundtrip_streams_compared": 50,
        "frames_cases": 10,
        "rt_cases": 10,
        "rt_streams_compared": 50,
        "rt_blocked_resumes_observed": 3,
    }


def finalize(tier, merged):
    planned = len(G.short_catalog())
    return {
        "exhaustive": bool(merged.get("exh_streams_complete", 0) >= planned),
        "exhaustive_scope": "all 2^(n-1) splittings (x FIN on last chunk / FIN alone x context orders) of the %d catalogue "
        "streams of <= %d bytes; %d completed" % (planned, G.EXH_MAX, merged.get("exh_streams_complete", 0)),
        "deliveries": int(merged.get("deliveries_checked", 0)),
    }


# ------------------------------------------------------------------ plan


def plan(tier, seed):
    quick = tier == "quick"
    batches = []
    # (a1) exhaustive catalogue, balanced by cost (largest first so the budget cut loses little)
    items = G.short_catalog()
    costs = sorted(((G.item_cost(it), i) for i, it in enumerate(items)), reverse=True)
    target = 45000
    cur, cur_cost = [], 0
    for cst, i in costs:
        cur.append(i)
        cur_cost += cst
        if cur_cost >= target:
            batches.append({"gen": "a_exh", "items": cur})
            cur, cur_cost = [], 0
    if cur:
        batches.append({"gen": "a_exh", "items": cur})
    for i in range(3 if quick else 40):
        batches.append({"gen": "a_exh", "rand": 40, "seed": seed * 1000003 + i})
    # (a2) pairs
    npairs = len(G.pair_catalog())
    for i in range(npairs):
        batches.append({"gen": "a_pairs", "item": i, "cap": 17000 if quick else 300000, "seed": seed * 1000003 + i})
    # (a3) frame-level random, (a4) real-sender cases, (b) round trips
    nf, ns, nrt = (20, 20, 20) if quick else (300, 300, 300)
    mixed = []
    for i in range(max(nf, ns, nrt)):
        if i < nf:
            mixed.append({"gen": "a_frames", "seed": seed * 1000003 + i, "cases": 12 if quick else 16, "nrand": 14 if quick else 60})
        if i < ns:
            mixed.append({"gen": "a_sender", "seed": seed * 1000003 + i, "cases": 16 if quick else 20, "nrand": 14 if quick else 60})
        if i < nrt:
            mixed.append({"gen": "rt", "seed": seed * 1000003 + i, "cases": 10 if quick else 25})
    # interleave the heavy exhaustive batches with the mixed ones so that a budget cut is spread
    out = []
    a, b = batches, mixed
    while a or b:
        if a:
            out.append(a.pop(0))
        for _ in range(2):
            if b:
                out.append(b.pop(0))
    return out


# ------------------------------------------------------------------ shared checking


def _selfcheck():
    """The harness QPACK writer must mean what it says (checked with pylsqpack, not with aioquic)."""
    import pylsqpack

    mq = L.MiniQpack()
    a = mq.insert(b"x-a", b"b")
    b = mq.insert(b"x-a", b"c", dyn_name=a)
    c = mq.insert(b":authority", b"zz", static_name=0)
    lines = [("s", i) for i in sorted(L.STATIC)] + [("d", a), ("d", c), ("d", b), ("dn", a, b"q"), ("sn", 95, b"ua"), ("l", b"lit", b"")]
    dec = pylsqpack.Decoder(4096, 16)
    dec.feed_encoder(mq.take_enc())
    _, got = dec.feed_header(0, mq.block(lines))
    want = mq.headers_of(lines)
    if [tuple(x) for x in got] != [tuple(x) for x in want]:
        raise RuntimeError("harness QPACK writer self-check failed: %r vs %r" % (got, want))


def _cut_sig(case, schedule, lays):
    """set of cut classes (relative to frame structure) of a schedule + whether FIN came alone"""
    classes = set()
    base = {}
    order = []
    for ph, steps in zip(case.phases, schedule):
        pos = {}
        for k, n, f in steps:
            if k == "dg":
                continue
            if not order or order[-1] != k:
                order.append(k)
            p = pos.get(k, 0)
            if p > 0:
                classes.add(lays[k][0] + ":" + L.cut_class(lays[k], base.get(k, 0) + p))
            if f and n == 0:
                classes.add(lays[k][0] + ":fin-alone")
            pos[k] = p + n
        for k in ph.data:
            base[k] = base.get(k, 0) + len(ph.data[k])
    # order class: is any qenc stream delivered (first touched) after a message stream
    enc_late = False
    seen_msg = False
    for k in order:
        kind = lays[k][0]
        if kind in ("msg", "push"):
            seen_msg = True
        if kind == "qenc" and seen_msg:
            enc_late = True
    return classes, enc_late, len(order) > len(set(order))


class Checker:
    """reference outcome + comparison of deliveries for one case"""

    def __init__(self, env, case, res, shape):
        self.env, self.case, self.res, self.shape = env, case, res, shape
        self.ref_sched = L.ref_schedule(case)
        self.ref = L.deliver(env, case, self.ref_sched)
        res.count("reference_deliveries")
        r = self.ref
        res.count("ref_outcome_" + ("raised" if r.raised else "closed" if r.closed is not None else "events" if r.events else "silent"))
        self.interesting = bool(r.events or r.closed is not None or r.raised)
        self.lays = {k: L.stream_layout(k, d) for k, (d, f) in case.full_streams().items()}

    def judge_other_close_code(self, sched, var):
        """`var` closed with another code than the reference.  By design the layer stops at the first error,
        so which of several errors is reported may depend on the interleaving.  The property still demands
        that the outcome depends only on the bytes delivered so far, so `var` is compared with the whole-stream,
        sender-order delivery of exactly the per-stream prefixes it had received:
          same close code                                  -> legitimate (counted)
          the prefixes *before* var's last step already close when delivered whole
                                                           -> var missed a close: violation (close-missing)
          the prefixes do not close at all when delivered whole -> violation (close-only-when-split)
          otherwise (two errors that both need the last step) -> undecidable here, counted.
        Returns a list of (signature, text)."""
        env, case = self.env, self.case
        pc = L.prefix_case(case, sched, var.closed_at)
        o = L.deliver(env, pc, L.ref_schedule(pc))
        if o.closed == var.closed:
            self.res.count("obs_close_code_differs_but_prefix_consistent")
            return []
        phi, sti = var.closed_at
        if sti > 0 or phi > 0:
            before = (phi, sti - 1) if sti > 0 else (phi - 1, len(sched[phi - 1]) - 1)
            pb = L.prefix_case(case, sched, before)
            ob = L.deliver(env, pb, L.ref_schedule(pb), probe=True)
            if ob.closed is not None:
                return [("chunk:close-missing:0x%x:%s" % (ob.closed, L.close_diag(pb, ob)),
                         "the bytes received before this delivery's last step close the connection with 0x%x when each stream is "
                         "delivered whole, but this delivery had not closed (it later closed with 0x%x)" % (ob.closed, var.closed))]
        if o.closed is None:
            diag = L.close_diag(case, L.deliver(env, case, sched, probe=True))
            return [("chunk:close-only-when-split:0x%x:%s" % (var.closed, diag),
                     "this delivery closes with 0x%x; the same per-stream prefixes delivered whole in sender order do not close" % var.closed)]
        self.res.count("obs_close_code_differs_undecided")
        return []

    def check(self, label, sched, sig_extra=None, full_sig=True):
        res = self.res
        var = L.deliver(self.env, self.case, sched)
        res.count("deliveries_checked")
        res.evaluations += 1
        if var.resumes:
            res.count("blocked_resumes_observed", var.resumes)
            res.count("deliveries_with_blocked_stream")
        diffs = L.classify(self.case, self.ref, var)
        if diffs and diffs[0][0].startswith("chunk:close-"):
            if var.closed is not None and self.ref.closed is not None:
                diffs = self.judge_other_close_code(sched, var)
            else:
                # name the mechanism: re-run the delivery that closed with the diagnostic probe on
                if var.closed is not None:
                    diag = L.close_diag(self.case, L.deliver(self.env, self.case, sched, probe=True))
                else:
                    diag = L.close_diag(self.case, L.deliver(self.env, self.case, self.ref_sched, probe=True))
                diffs = L.classify(self.case, self.ref, var, diag)
        for sig, text in diffs:
            res.violation(
                sig,
                "%s [case %s, delivery %s]" % (text, self.case.label, label),
                {"gen": "a_replay", "case": self.case.to_json(), "schedule": sched, "label": label},
                {"reference": _brief(self.ref), "delivery": _brief(var)},
            )
        if self.interesting and sched != self.ref_sched:
            if full_sig:
                classes, enc_late, interleaved = _cut_sig(self.case, sched, self.lays)
                res.nontrivial.add("a:" + h(self.shape, sorted(classes), enc_late, interleaved, bool(var.blocked_sids)))
            else:
                res.nontrivial.add("a:" + h(self.shape, sig_extra, bool(var.blocked_sids)))
        return var


def _brief(o):
    n = o.norm()
    for sid, s in n["streams"].items():
        for it in s["items"]:
            if isinstance(it[2], (bytes, bytearray)) and len(it[2]) > 48:
                it[2] = "%d bytes %s.." % (len(it[2]), bytes(it[2][:16]).hex())
            elif isinstance(it[2], tuple) and len(repr(it[2])) > 400:
                it[2] = repr(it[2])[:400] + ".."
    n["streams"] = {str(k): v for k, v in n["streams"].items()}
    n["closed_by"] = o.closed_by
    n["dgrams"] = len(n["dgrams"])
    return n


# ------------------------------------------------------------------ (a1) exhaustive catalogue


def a_exh(batch, res):
    env = L.Env()
    _selfcheck()
    if "rand" in batch:
        rng = random.Random(batch["seed"])
        todo = [G.short_random_item(rng) for _ in range(batch["rand"])]
    else:
        items = G.short_catalog()
        todo = [items[idx] for idx in batch["items"]]
    for it in todo:
        case = it["case"]
        ck = Checker(env, case, res, it["label"])
        n = 0
        for order, mask, fin_alone, sched in G.exh_schedules(it):
            ck.check("%s/mask=%x/%s" % (order, mask, "fin-alone" if fin_alone else "fin-last"), sched)
            n += 1
        res.count("splittings_enumerated", n)
        res.count("exh_random_streams_complete" if "rand" in batch else "exh_streams_complete")
        d, f = case.full_streams()[it["target"]]
        res.sample({"gen": "a_exh", "label": it["label"], "target_hex": d.hex(), "fin": f, "deliveries": n,
                    "reference": _brief(ck.ref)}, limit=2)


# ------------------------------------------------------------------ (a2) pairs


def a_pairs(batch, res):
    env = L.Env()
    _selfcheck()
    it = G.pair_catalog()[batch["item"]]
    case = it["case"]
    ka, kb = it["a"], it["b"]
    ph = case.phases[-1]
    la, lb = len(ph.data[ka]), len(ph.data[kb])
    fa, fb = ph.fin[ka], ph.fin[kb]
    total = G.count_pair(it)
    cap = batch["cap"]
    ck = Checker(env, case, res, it["label"])
    pre = [s for s in ck.ref_sched[:-1]]
    others = [k for k in ph.keys() if k not in (ka, kb)]
    if others:
        raise RuntimeError("pair phase must hold exactly the two streams")
    n = 0
    if total <= cap:
        for ma in range(1 << (la - 1)):
            for ea in ((False, True) if fa else (False,)):
                ca = L.chunks_for(la, fa, L.cuts_from_mask(ma, la), ea)
                for mb in range(1 << (lb - 1)):
                    for eb in ((False, True) if fb else (False,)):
                        cb = L.chunks_for(lb, fb, L.cuts_from_mask(mb, lb), eb)
                        for steps in L.all_interleavings(ca, cb, ka, kb):
                            ck.check("pair/%x/%x" % (ma, mb), pre + [steps])
                            n += 1
        res.count("pairs_fully_enumerated")
    else:
        rng = random.Random(batch["seed"])
        for _ in range(cap):
            ma, mb = rng.getrandbits(la - 1), rng.getrandbits(lb - 1)
            if rng.random() < 0.3:
                ma &= rng.getrandbits(la - 1)
                mb &= rng.getrandbits(lb - 1)
            ca = L.chunks_for(la, fa, L.cuts_from_mask(ma, la), fa and rng.random() < 0.5)
            cb = L.chunks_for(lb, fb, L.cuts_from_mask(mb, lb), fb and rng.random() < 0.5)
            steps = L.merge_random({ka: ca, kb: cb}, [ka, kb], rng, rng.choice([0.0, 0.3, 0.6]))
            ck.check("pair/%x/%x/rand" % (ma, mb), pre + [steps])
            n += 1
        res.count("pairs_sampled")
    res.count("pair_deliveries", n)
    res.count("splittings_enumerated", n)
    res.sample({"gen": "a_pairs", "label": it["label"], "combinations": total, "delivered": n, "reference": _brief(ck.ref)}, limit=1)


# ------------------------------------------------------------------ (a3) frame-level random


def a_frames(batch, res):
    env = L.Env()
    _selfcheck()
    rng = random.Random(batch["seed"])
    for ci in range(batch["cases"]):
        case = G.gen_frames_case(rng)
        if batch.get("only") is not None and ci != batch["only"]:
            continue
        ck = Checker(env, case, res, case.label)
        res.count("frames_cases")
        if case.faults:
            res.count("frames_cases_with_fault")
        srng = random.Random(batch["seed"] * 7919 + ci)
        n = 0
        for label, sched in G.long_schedules(case, srng, batch["nrand"]):
            ck.check(label, sched)
            n += 1
        res.sample({"gen": "a_frames", "seed": batch["seed"], "case": ci, "label": case.label, "bytes": case.total_bytes(),
                    "streams": len(case.full_streams()), "deliveries": n, "ref_closed": ck.ref.closed,
                    "ref_events": ck.ref.events}, limit=2)


# ------------------------------------------------------------------ (a4) real sender over the stub

TOK = b"abcdefghijklmnopqrstuvwxyz0123456789-_.!#$%&'*+^`|~"
POOL_NAMES = [b"x-request-id", b"accept-language", b"x-a", b"cache-control", b"x-forwarded-for", b"if-none-match", b"te", b"x-%s" % (b"long-name-" * 6)]
POOL_VALUES = [b"1", b"en-US,en;q=0.9", b"no-cache", b"abc", b"W/\"5e2-17a\"", b"trailers", b"10.0.0.1, 10.0.0.2", b""]
STATIC_FIELDS = [(b"accept", b"*/*"), (b"accept-encoding", b"gzip, deflate, br"), (b"content-type", b"text/plain"),
                 (b"cache-control", b"no-cache"), (b"vary", b"origin"), (b"x-frame-options", b"sameorigin")]


def gen_value(rng, maxlen):
    n = rng.choice([0, 1, 2, 8, 20, 60, maxlen // 4, maxlen])
    n = min(n, maxlen)
    if n == 0:
        return b""
    alphabet = rng.choice([b"abcdefghijklmnopqrstuvwxyz0123456789", bytes(range(0x21, 0x7F)), bytes(range(0x21, 0x7F)) + b" \t" + bytes(range(0x80, 0x100))])
    v = bytearray(rng.choice(alphabet) for _ in range(n))
    if v[0] in b" \t":
        v[0] = 0x78
    if v[-1] in b" \t":
        v[-1] = 0x78
    return bytes(v)


def gen_name(rng):
    n = rng.choice([1, 2, 5, 12, 30])
    name = bytes(rng.choice(TOK) for _ in range(n))
    if name in (b"content-length", b"transfer-encoding"):
        name = b"x" + name
    return name


def gen_fields(rng, budget, nmax):
    """regular (non-pseudo) header fields: pool (repeats -> dynamic table), static-table hits, random literals,
    repeated names, cookies.  `budget` bounds the raw size so that pylsqpack's 4 kB buffers are not hit."""
    out = []
    nf = rng.choice([0, 0, 1, 2, 3, 5, 8, 15, nmax])
    nf = min(nf, nmax)
    for _ in range(nf):
        r = rng.random()
        if r < 0.3:
            f = (rng.choice(POOL_NAMES), rng.choice(POOL_VALUES))
        elif r < 0.45:
            f = rng.choice(STATIC_FIELDS)
        elif r < 0.55:
            f = (b"cookie", b"k%d=%s" % (rng.randrange(100), gen_value(rng, 30).replace(b";", b"_").replace(b" ", b"_").replace(b"\t", b"_")))
        elif r < 0.65 and out:
            f = (rng.choice(out)[0], gen_value(rng, 40))  # repeated name
        else:
            f = (gen_name(rng), gen_value(rng, min(budget, rng.choice([10, 100, 1000, 3000]))))
        if f[0] in (b"content-length", b"transfer-encoding"):
            continue
        cost = len(f[0]) + len(f[1]) + 8
        if cost > budget:
            continue
        budget -= cost
        out.append(f)
    return out


def gen_request_headers(rng, budget=1500, nmax=40, body_len=None):
    method = rng.choice([b"GET", b"POST", b"PUT", b"OPTIONS"])
    hs = [(b":method", method), (b":scheme", b"https"), (b":authority", rng.choice([b"localhost", b"example.org:8443", b"a"])),
          (b":path", rng.choice([b"/", b"/index.html", b"/a/b?c=d&e=" + gen_value(rng, 20).replace(b" ", b"+").replace(b"\t", b"+")]))]
    rng.shuffle(hs)
    hs += gen_fields(rng, budget, nmax)
    if body_len is not None and rng.random() < 0.4:
        hs.insert(rng.randrange(4, len(hs) + 1), (b"content-length", b"%d" % body_len))
    return hs


def gen_response_headers(rng, budget=1500, nmax=40, body_len=None):
    hs = [(b":status", rng.choice([b"200", b"204", b"404", b"500", b"299"]))]
    hs += gen_fields(rng, budget, nmax)
    if body_len is not None and rng.random() < 0.4:
        hs.insert(rng.randrange(1, len(hs) + 1), (b"content-length", b"%d" % body_len))
    return hs


def gen_trailers(rng, budget=600):
    # never empty: pylsqpack's decoder rejects a field section without any field line (third-party behaviour)
    return gen_fields(rng, budget, 6) or [(rng.choice([b"x-checksum", b"server-timing", b"x-a"]), gen_value(rng, 20))]


def gen_body_parts(rng, max_total, max_parts=50):
    total = rng.choice([0, 0, 1, 2, 100, 1200, 5000, max_total // 4, max_total])
    total = min(total, max_total)
    nparts = rng.choice([1, 1, 2, 3, 7, max_parts])
    if total == 0:
        return [b""] if rng.random() < 0.7 else []
    cuts = sorted(rng.randrange(0, total + 1) for _ in range(nparts - 1))
    pts = [0] + cuts + [total]
    key = rng.getrandbits(32)
    blob = _blob(key, total)
    return [blob[a:b] for a, b in zip(pts, pts[1:])]  # parts may be empty


def _blob(key, n):
    r = random.Random(key)
    base = bytes(r.getrandbits(8) for _ in range(min(n, 997)))
    if n <= 997:
        return base
    out = bytearray()
    i = 0
    while len(out) < n:
        out += base
        out += i.to_bytes(4, "big")  # position-dependent so that a shifted / dropped block shows
        i += 1
    return bytes(out[:n])


class Expect:
    def __init__(self):
        self.streams = {}
        self.dgrams = []

    def st(self, sid):
        return self.streams.setdefault(sid, {"items": [], "ended": 0, "after_end": False})

    def add(self, sid, kind, ident, payload):
        s = self.st(sid)
        if kind in ("D", "W"):
            if s["items"] and s["items"][-1][0] == kind and s["items"][-1][1] == ident:
                s["items"][-1][2] += payload
                return
            if kind == "D" and not payload:
                return
            if kind == "W" and not payload and s["items"]:
                return
        s["items"].append([kind, ident, payload])

    def normalised(self):
        out = {}
        for sid, s in self.streams.items():
            items = [it for it in s["items"]]
            # an empty W marker exists only if the stream ended without any byte
            items2 = []
            for it in items:
                if it[0] == "W" and not it[2] and not s["ended"]:
                    continue
                items2.append(it)
            if items2 or s["ended"]:
                out[sid] = {"items": items2, "ended": s["ended"], "after_end": False}
        return out


def build_message_script(rng, kind, sid_getter, exp, max_body, push_id=None, budget=1500, with_push=None):
    """ops for one request / response / pushed response.  `sid_getter()` yields the stream id at run time."""
    ops = []
    parts = gen_body_parts(rng, max_body)
    body_len = sum(len(p) for p in parts)
    trailers = gen_trailers(rng) if rng.random() < 0.3 else None
    if kind == "req":
        headers = gen_request_headers(rng, budget, body_len=body_len)
    else:
        headers = gen_response_headers(rng, budget, body_len=body_len)
    last_is_headers = not parts and trailers is None
    if with_push and (last_is_headers or rng.random() < 0.4):
        ops.extend(with_push)  # a promise may precede the response headers (and must precede the FIN)
        with_push = None
    ops.append(("headers", headers, last_is_headers, push_id))
    if with_push:
        ops.extend(with_push)
    for i, p in enumerate(parts):
        end = trailers is None and i == len(parts) - 1
        ops.append(("data", p, end, push_id))
    if trailers is not None:
        ops.append(("headers", trailers, True, push_id))
    return ops


class SenderApp:
    """Executes scripts against a sending H3Connection and records what the peer must see."""

    def __init__(self, h3, quic, rng, exp: Expect, res, case_ref):
        self.h3, self.quic, self.rng, self.exp, self.res, self.case_ref = h3, quic, rng, exp, res, case_ref
        self.scripts = []  # [ {ops: [...], sid: int|None, i: 0} ]
        self.next_push = 0
        self.pushes_planned = 0
        self.failed = False

    def add_script(self, ops, sid=None, alloc=None):
        s = {"ops": ops, "sid": sid, "i": 0, "alloc": alloc}
        self.scripts.append(s)
        return s

    def pending(self):
        return [s for s in self.scripts if s["i"] < len(s["ops"])]

    def step(self):
        """run one op of a random pending script; False when nothing is left"""
        p = self.pending()
        if not p or self.failed:
            return False
        s = p[self.rng.randrange(len(p))]
        op = s["ops"][s["i"]]
        s["i"] += 1
        self.run_op(s, op)
        return True

    def _api(self, name, fn, *a, **kw):
        try:
            return fn(*a, **kw)
        except Exception as exc:
            self.failed = True
            self.res.violation(
                exc_signature(exc, "send:%s-raised:" % name),
                "%s raised %r on a valid submission" % (name, exc),
                self.case_ref,
                exc_witness(exc),
            )
            return None

    def run_op(self, s, op):
        h3, exp = self.h3, self.exp
        k = op[0]
        if s["sid"] is None and s["alloc"] is not None:
            s["sid"] = s["alloc"]()
        sid = s["sid"]
        if k == "headers":
            _, headers, end, pid = op
            self._api("send_headers", h3.send_headers, sid, headers, end_stream=end)
            exp.add(sid, "H", pid, tuple(headers))
            if end:
                exp.st(sid)["ended"] += 1
            self.res.count("submitted_header_blocks")
        elif k == "data":
            _, data, end, pid = op
            self._api("send_data", h3.send_data, sid, data, end)
            exp.add(sid, "D", pid, bytes(data))
            if end:
                exp.st(sid)["ended"] += 1
            self.res.count("submitted_send_data_calls")
        elif k == "push":
            _, headers, push_ops_builder = op
            try:
                push_sid = h3.send_push_promise(sid, headers)
            except Exception as exc:
                if type(exc).__name__ == "NoAvailablePushIDError":
                    # documented refusal (the peer's MAX_PUSH_ID has not arrived yet / is used up): not submitted
                    self.res.count("obs_push_refused_no_push_id")
                    return
                self.failed = True
                self.res.violation(exc_signature(exc, "send:send_push_promise-raised:"), "send_push_promise raised %r on a valid submission" % (exc,),
                                   self.case_ref, exc_witness(exc))
                return
            pid = self.next_push
            self.next_push += 1
            exp.add(sid, "P", pid, tuple(headers))
            self.add_script(push_ops_builder(pid), sid=push_sid)
            self.res.count("submitted_pushes")
        elif k == "wt_open":
            _, session, uni = op
            s["sid"] = self._api("create_webtransport_stream", h3.create_webtransport_stream, session, uni)
            s["session"] = session
            self.res.count("submitted_wt_streams")
        elif k == "wt_data":
            _, data, end = op
            if sid is None:
                return
            self.quic.send_stream_data(sid, data, end)
            if data or end:
                exp.add(sid, "W", s["session"], bytes(data))
            if end:
                exp.st(sid)["ended"] += 1
        elif k == "dgram":
            _, flow, data = op
            self._api("send_datagram", h3.send_datagram, flow, data)
            exp.dgrams.append((flow, bytes(data)))
            self.res.count("submitted_datagrams")


def plan_sender_scripts(rng, app: SenderApp, is_client, wt, n_msgs, max_body, can_push, req_sids=None):
    """Populate `app` with scripts.  Client: requests (ids allocated at run time), server: responses on the
    given request stream ids (+ pushes)."""
    quic = app.quic
    for i in range(n_msgs):
        if is_client:
            ops = build_message_script(rng, "req", None, app.exp, max_body)
            app.add_script(ops, alloc=lambda: quic.get_next_available_stream_id())
        else:
            pushes = []
            if can_push and rng.random() < 0.4:
                for _ in range(rng.choice([1, 1, 2])):
                    if app.pushes_planned >= 8:  # the client's initial MAX_PUSH_ID
                        break
                    app.pushes_planned += 1
                    ph = gen_request_headers(rng, 600)
                    ph = [f for f in ph if f[0] != b"content-length"]
                    ph[0:4] = [(b":method", b"GET"), (b":scheme", b"https"), (b":authority", b"localhost"), (b":path", b"/pushed/%d" % rng.randrange(100))]
                    builder = (lambda r: (lambda pid: build_message_script(r, "resp", None, app.exp, max_body // 4, push_id=pid)))(random.Random(rng.getrandbits(32)))
                    pushes.append(("push", ph, builder))
            ops = build_message_script(rng, "resp", None, app.exp, max_body, with_push=pushes)
            sid = req_sids[i] if req_sids else 4 * i
            app.add_script(ops, sid=sid)
    if wt:
        for _ in range(rng.choice([0, 1, 2])):
            session = rng.choice([0, 4, 8])
            uni = rng.random() < 0.5
            ops = [("wt_open", session, uni)]
            parts = gen_body_parts(rng, max_body // 2, 8)
            for j, p in enumerate(parts):
                ops.append(("wt_data", p, j == len(parts) - 1 and rng.random() < 0.8))
            app.add_script(ops)
    for _ in range(rng.choice([0, 0, 1, 3])):
        app.add_script([("dgram", 4 * rng.randrange(0, 5), _blob(rng.getrandbits(32), rng.choice([0, 1, 100, 900])))])


def _feed(h3, env, log):
    for e in log:
        if e[0] == "s":
            h3.handle_event(env.StreamDataReceived(stream_id=e[1], data=e[2], end_stream=e[3]))
        else:
            h3.handle_event(env.DatagramFrameReceived(data=e[1]))


def gen_sender_case(env, rng, res, case_ref):
    sender_is_client = rng.random() < 0.5
    wt = rng.random() < 0.4
    sq, rq = L.StubQuic(sender_is_client), L.StubQuic(not sender_is_client)
    S = env.H3Connection(sq, enable_webtransport=wt)
    R = env.H3Connection(rq, enable_webtransport=wt)  # shadow receiver: only its feedback is used
    case = L.Case(not sender_is_client, wt)
    settings = rng.random() < 0.9
    if settings:
        _feed(S, env, rq.take())
    exp = Expect()
    app = SenderApp(S, sq, rng, exp, res, case_ref)
    plan_sender_scripts(rng, app, sender_is_client, wt, rng.choice([1, 2, 3, 5, 9]), rng.choice([10, 3000, 30000]), can_push=settings and not sender_is_client)
    feedback = settings and rng.random() < 0.45
    nops = 0
    while app.step():
        nops += 1
        if feedback and rng.random() < 0.25:
            log = sq.take()
            case.phases[-1].add_log(log)
            _feed(R, env, log)
            _feed(S, env, rq.take())
            case.phases.append(L.Phase())
            res.count("sender_feedback_phases")
    case.phases[-1].add_log(sq.take())
    case.expected = exp
    case.label = "sender:%s%s%s%s" % ("client" if sender_is_client else "server", ",wt" if wt else "", ",feedback" if feedback else "", "" if settings else ",no-settings")
    if (rq.closed or sq.closed) and not app.failed:
        # the shadow receiver got exactly what the real sender emitted, in emission order
        who, cl = ("receiver", rq.closed) if rq.closed else ("sender-on-feedback", sq.closed)
        res.violation("stub-roundtrip:valid-submission-rejected:%s:0x%x" % (who, cl[0]),
                      "%s closed the connection (%r) during an exchange of valid submissions in emission order" % (who, cl), case_ref)
        app.failed = True
    return case, app


def compare_expected(exp: Expect, out, res, case_ref, prefix, ordered_dgrams=True, lossy=False):
    """submitted vs received normal forms; returns number of streams compared"""
    want = exp.normalised()
    got = {sid: s for sid, s in out.streams.items()}
    n = 0
    for sid in sorted(set(want) | set(got)):
        a = want.get(sid, {"items": [], "ended": 0, "after_end": False})
        b = got.get(sid, {"items": [], "ended": 0, "after_end": False})
        n += 1
        if a["items"] != b["items"]:
            d = L._first_item_diff([list(x) for x in a["items"]], [list(x) for x in b["items"]])
            i, x, y = d
            kind = (x or y)[0]
            what = {"H": "headers", "P": "push-promise", "D": "body", "W": "webtransport"}.get(kind, "events")
            if x is not None and y is not None and x[0] == y[0] and x[1] != y[1]:
                what += "-id"
            elif x is None:
                what += "-extra"
            elif y is None:
                what += "-missing"
            elif x[0] != y[0]:
                what = "item-kind:%s-as-%s" % (x[0], y[0])
            elif kind in ("D", "W"):
                what += "-longer" if len(y[2]) > len(x[2]) else ("-shorter" if len(y[2]) < len(x[2]) else "-altered")
            res.violation("%s:%s-differ:%s" % (prefix, what, _skind(sid, a, b)),
                          "stream %s item %d: submitted %s, received %s" % (sid, i, L._short(x), L._short(y)), case_ref,
                          {"stream": sid})
        elif a["ended"] != b["ended"]:
            w = "end-missing" if b["ended"] < a["ended"] else ("end-spurious" if a["ended"] == 0 else "ended-twice")
            res.violation("%s:%s:%s" % (prefix, w, _skind(sid, a, b)),
                          "stream %s: submitted end_stream %d time(s), peer saw %d end flag(s)" % (sid, a["ended"], b["ended"]), case_ref, {"stream": sid})
        elif b["after_end"]:
            res.violation("%s:events-after-end:%s" % (prefix, _skind(sid, a, b)), "stream %s: events after the end flag" % sid, case_ref, {"stream": sid})
    wd, gd = list(exp.dgrams), list(out.dgrams)
    if ordered_dgrams:
        if wd != gd:
            res.violation("%s:datagrams-differ" % prefix, "submitted %d datagrams, received %d (or content/order differs)" % (len(wd), len(gd)), case_ref)
    else:
        pool = list(wd)
        for g in gd:
            if g in pool:
                pool.remove(g)
            else:
                res.violation("%s:datagram-not-submitted-or-duplicated" % prefix, "received datagram %r.. was not submitted (or arrived twice)" % (g[1][:16],), case_ref)
                break
        if pool and not lossy:
            res.violation("%s:datagram-missing" % prefix, "%d submitted datagram(s) never arrived on a loss-free link" % len(pool), case_ref)
    return n


def _skind(sid, a, b):
    if sid % 4 in (2, 3):
        kinds = {it[0] for it in a["items"] + b["items"]}
        return "push" if "H" in kinds or "D" in kinds else ("wt-uni" if "W" in kinds else "uni")
    kinds = {it[0] for it in a["items"] + b["items"]}
    return "wt-bidi" if kinds == {"W"} else "msg"


def a_sender(batch, res):
    env = L.Env()
    rng = random.Random(batch["seed"])
    for ci in range(batch["cases"]):
        crng = random.Random(rng.getrandbits(48))
        if batch.get("only") is not None and ci != batch["only"]:
            continue
        case_ref = {"gen": "a_sender", "seed": batch["seed"], "cases": batch["cases"], "only": ci, "nrand": batch["nrand"]}
        case, app = gen_sender_case(env, crng, res, case_ref)
        res.count("sender_cases")
        if app.failed:
            continue
        ck = Checker(env, case, res, case.label + "/%d" % len(case.full_streams()))
        # the reference delivery must also be what was submitted (round trip over the stub)
        if ck.ref.raised or ck.ref.closed is not None:
            res.violation("stub-roundtrip:valid-submission-rejected:%s" % (ck.ref.raised or "0x%x" % ck.ref.closed),
                          "receiver %s on bytes produced by a real sender from valid submissions" % (ck.ref.raised or "closed 0x%x" % ck.ref.closed),
                          case_ref, _brief(ck.ref))
            continue
        nstreams = compare_expected(case.expected, ck.ref, res, case_ref, "stub-roundtrip")
        res.count("stub_roundtrip_streams_compared", nstreams)
        srng = random.Random(batch["seed"] * 7919 + ci)
        n = 0
        for label, sched in G.long_schedules(case, srng, batch["nrand"]):
            ck.check(label, sched)
            n += 1
        res.sample({"gen": "a_sender", "seed": batch["seed"], "case": ci, "label": case.label, "bytes": case.total_bytes(),
                    "streams": len(case.full_streams()), "phases": len(case.phases), "deliveries": n, "ref_events": ck.ref.events}, limit=2)


def a_replay(batch, res):
    env = L.Env()
    case = L.Case.from_json(batch["case"])
    ck = Checker(env, case, res, case.label)
    ck.check(batch.get("label", "replay"), batch["schedule"])


# ------------------------------------------------------------------ (b) round trip over real QUIC


class Endpoint:
    def __init__(self, name, conn, h3, res, case_ref):
        self.name, self.conn, self.h3, self.res, self.case_ref = name, conn, h3, res, case_ref
        self.out = L.Outcome()
        self.blocked = set()
        self.resumes = 0
        self.terminated = None
        self.h3_events = []
        self.enc_dirty = False
        self.on_h3 = None
        enc_sid = h3._local_encoder_stream_id
        orig = conn.send_stream_data

        def tapped(stream_id, data, end_stream=False, _orig=orig):
            if stream_id == enc_sid and data:
                self.enc_dirty = True
            return _orig(stream_id, data, end_stream)

        conn.send_stream_data = tapped  # harness-side observation of encoder-stream writes (instance attribute)
        # diagnostics for a close initiated by this endpoint's HTTP/3 layer (names the mechanism in the signature)
        self.last_call = None
        self.local_close = None
        orig_close = conn.close

        def close_tap(*a, _orig=orig_close, **kw):
            if self.local_close is None:
                self.local_close = (kw.get("error_code", a[0] if a else None), kw.get("reason_phrase", ""), self.last_call)
            return _orig(*a, **kw)

        conn.close = close_tap
        orig_h = getattr(h3, "_handle_request_or_push_frame", None)
        if orig_h is not None:

            def spy(frame_type, frame_data, stream, stream_ended, _orig=orig_h):
                self.last_call = (stream.stream_id, L.tclass(int(frame_type)), frame_data is None)
                return _orig(frame_type=frame_type, frame_data=frame_data, stream=stream, stream_ended=stream_ended)

            h3._handle_request_or_push_frame = spy

    def pump_events(self):
        new = []
        while True:
            ev = self.conn.next_event()
            if ev is None:
                break
            if type(ev).__name__ == "ConnectionTerminated":
                self.terminated = (ev.error_code, ev.reason_phrase)
            self.last_call = None
            try:
                evs = self.h3.handle_event(ev)
            except Exception as exc:
                self.res.violation(exc_signature(exc, "rt:handle_event-raised:"), "%s: handle_event raised %r on traffic from a real peer" % (self.name, exc), self.case_ref, exc_witness(exc))
                self.terminated = ("raised", repr(exc))
                return new
            for e in evs:
                L.absorb(self.out, e)
                new.append(e)
                if self.on_h3 is not None:
                    self.on_h3(e)
            nb = L.blocked_now(self.h3)
            if nb or self.blocked:
                self.resumes += len(self.blocked - nb)
                self.blocked = nb
        return new


def rt_case(env, seed, res, case_ref):
    from ..puppet import CLIENT_ADDR, SERVER_ADDR, HandshakePair

    su = SeededUrandom(seed)
    su.install()
    try:
        _rt_case(env, seed, res, case_ref, HandshakePair, CLIENT_ADDR, SERVER_ADDR)
    finally:
        su.uninstall()


def _rt_case(env, seed, res, case_ref, HandshakePair, CLIENT_ADDR, SERVER_ADDR, capture=None):
    """capture: optional list that receives the two Endpoint objects (C20 compares their outcomes across runs)"""
    rng = random.Random(seed)
    wt = rng.random() < 0.4
    pair = HandshakePair(opts={"alpn": ["h3"]}).complete()
    now = pair.now
    hc = env.H3Connection(pair.client, enable_webtransport=wt)
    hs = env.H3Connection(pair.server, enable_webtransport=wt)
    C = Endpoint("client", pair.client, hc, res, case_ref)
    S = Endpoint("server", pair.server, hs, res, case_ref)
    if capture is not None:
        capture.extend([C, S])
    exp_c2s, exp_s2c = Expect(), Expect()
    capp = SenderApp(hc, pair.client, rng, exp_c2s, res, case_ref)
    sapp = SenderApp(hs, pair.server, rng, exp_s2c, res, case_ref)
    n_req = rng.choice([1, 2, 3, 4, 6])
    max_body = rng.choice([100, 5000, 40000, 200000])
    budget = rng.choice([300, 1500, 3300])
    # client scripts; the server answers a request once its headers have arrived
    req_scripts = []
    for i in range(n_req):
        ops = build_message_script(rng, "req", None, exp_c2s, max_body if i == 0 else max_body // 4, budget=budget)
        req_scripts.append(capp.add_script(ops, alloc=lambda: pair.client.get_next_available_stream_id()))
    answered = set()
    pushes_left = [8]
    srng = random.Random(rng.getrandbits(48))

    def answer(sid):
        if sid in answered:
            return
        answered.add(sid)
        pushes = []
        if pushes_left[0] > 0 and srng.random() < 0.4:
            for _ in range(srng.choice([1, 1, 2])):
                if pushes_left[0] <= 0:
                    break
                pushes_left[0] -= 1
                ph = [(b":method", b"GET"), (b":scheme", b"https"), (b":authority", b"localhost"), (b":path", b"/pushed/%d" % srng.randrange(100))]
                ph += gen_fields(srng, 600, 8)
                builder = (lambda r: (lambda pid: build_message_script(r, "resp", None, exp_s2c, max_body // 8, push_id=pid, budget=budget)))(random.Random(srng.getrandbits(32)))
                pushes.append(("push", ph, builder))
        ops = build_message_script(srng, "resp", None, exp_s2c, max_body // 2, with_push=pushes, budget=budget)
        sapp.add_script(ops, sid=sid)

    def on_server_h3(e):
        if type(e).__name__ == "HeadersReceived" and e.stream_id % 4 == 0 and e.push_id is None:
            answer(e.stream_id)

    S.on_h3 = on_server_h3

    for app, r in ((capp, rng), (sapp, srng)):
        if wt:
            for _ in range(r.choice([0, 1, 2])):
                session = 0
                uni = r.random() < 0.5
                ops = [("wt_open", session, uni)]
                parts = gen_body_parts(r, max_body // 4, 8)
                for j, p in enumerate(parts):
                    ops.append(("wt_data", p, j == len(parts) - 1 and r.random() < 0.8))
                app.add_script(ops)
            for _ in range(r.choice([0, 1, 3])):
                app.add_script([("dgram", 4 * r.randrange(0, 3), _blob(r.getrandbits(32), r.choice([0, 1, 100, 900])))])

    net = rng.choice(["plain", "hold", "hold", "enc-late", "enc-late", "enc-late", "lossy"])
    p_hold = {"plain": 0.0, "hold": 0.25, "enc-late": 0.05, "lossy": 0.15}[net]
    p_drop = 0.05 if net == "lossy" else 0.0
    held = {"client": [], "server": []}  # datagrams travelling *to* that endpoint: (release_round, data)
    stats = {"dgrams": 0, "held": 0, "dropped": 0}
    nrng = random.Random(rng.getrandbits(48))

    def flush(src: Endpoint, dst: Endpoint, rnd):
        first = True
        batch = []
        for data, _addr in src.conn.datagrams_to_send(now=now):
            stats["dgrams"] += 1
            if nrng.random() < p_drop:
                stats["dropped"] += 1
                continue
            hold = nrng.random() < p_hold
            if net == "enc-late" and src.enc_dirty and first and nrng.random() < 0.8:
                hold = True
            first = False
            if hold:
                stats["held"] += 1
                held[dst.name].append((rnd + nrng.choice([1, 1, 2, 4]), data))
            else:
                batch.append(data)
        src.enc_dirty = False
        if nrng.random() < (0.3 if net != "plain" else 0.0):
            nrng.shuffle(batch)
        return batch

    def deliver(dst: Endpoint, datas, from_addr):
        for d in datas:
            dst.conn.receive_datagram(d, from_addr, now=now)
        return dst.pump_events()

    def release(dst: Endpoint, rnd):
        due = [d for r, d in held[dst.name] if r <= rnd]
        held[dst.name] = [(r, d) for r, d in held[dst.name] if r > rnd]
        return due

    def timers():
        for ep in (C, S):
            t = ep.conn.get_timer()
            if t is not None and t <= now:
                ep.conn.handle_timer(now=now)
                ep.pump_events()

    ops_per_round = rng.choice([1, 1, 2, 4, 10])
    max_rounds = 4000
    quiescent = False
    idle = 0
    rnd = 0
    ops_run = 0
    while rnd < max_rounds:
        rnd += 1
        now += 0.004
        timers()
        # client app
        for _ in range(ops_per_round):
            if not capp.step():
                break
            ops_run += 1
            if net == "enc-late" or nrng.random() < 0.3:
                # flush after the op so that encoder-stream bytes and later requests travel apart
                deliver(S, flush(C, S, rnd), CLIENT_ADDR)
        sent = flush(C, S, rnd) + release(S, rnd)
        deliver(S, sent, CLIENT_ADDR)
        n1 = len(sent)
        for _ in range(ops_per_round):
            if not sapp.step():
                break
            ops_run += 1
            if net == "enc-late" or nrng.random() < 0.3:
                deliver(C, flush(S, C, rnd), SERVER_ADDR)
        sent = flush(S, C, rnd) + release(C, rnd)
        deliver(C, sent, SERVER_ADDR)
        n2 = len(sent)
        if C.terminated or S.terminated or capp.failed or sapp.failed:
            break
        busy = n1 or n2 or capp.pending() or sapp.pending() or held["client"] or held["server"]
        if busy:
            idle = 0
        else:
            idle += 1
            # jump to the next protocol timer (ack delay / PTO); only the idle timer left => quiescent
            ts = [t for t in (C.conn.get_timer(), S.conn.get_timer()) if t is not None]
            nxt = min(ts) if ts else None
            if nxt is not None and nxt - now < 30.0:
                now = max(now, nxt)
                if idle > 300:
                    break
            elif idle >= 2:
                quiescent = True
                break
    res.count("rt_rounds", rnd)
    res.count("rt_datagrams", stats["dgrams"])
    res.count("rt_datagrams_held_back", stats["held"])
    res.count("rt_datagrams_dropped", stats["dropped"])
    resumes = C.resumes + S.resumes
    res.count("rt_blocked_resumes_observed", resumes)
    if resumes:
        res.count("rt_cases_with_blocked_stream")
    for ep in (C, S):
        for sid in list(ep.out.streams):
            ep.out.streams[sid] = L.stream_norm(ep.out.streams[sid])
    if capp.failed or sapp.failed:
        return
    if C.terminated or S.terminated:
        t = C.terminated or S.terminated
        if t[0] != "raised":
            diag = "transport"
            for ep, exp in ((C, exp_s2c), (S, exp_c2s)):
                if ep.local_close is not None:
                    diag = "%s-h3:%s" % (ep.name, _rt_close_diag(ep, exp))
            res.violation("rt:connection-terminated:0x%x:%s" % (t[0], diag), "connection terminated during a valid exchange: %r" % (t,), case_ref,
                          {"client": _brief(C.out), "server": _brief(S.out)})
        return
    if not quiescent:
        res.inconclusive.append("rt seed %r: not quiescent after %d rounds" % (seed, rnd))
        return
    # a held-back packet may arrive below the receiver's duplicate-suppression floor and be discarded, which is
    # loss as far as (unreliable) DATAGRAM frames are concerned: only the undisturbed link must deliver them all
    lossy = net != "plain"
    n = compare_expected(exp_c2s, S.out, res, case_ref, "rt:c2s", ordered_dgrams=False, lossy=lossy)
    n += compare_expected(exp_s2c, C.out, res, case_ref, "rt:s2c", ordered_dgrams=False, lossy=lossy)
    res.count("rt_streams_compared", n)
    res.count("rt_cases")
    res.count("rt_net_" + net)
    body = sum(len(it[2]) for s in list(S.out.streams.values()) + list(C.out.streams.values()) for it in s["items"] if it[0] in ("D", "W"))
    res.count("rt_body_bytes_received", body)
    if body and (S.out.events or C.out.events):
        res.nontrivial.add("rt:" + h(n_req, wt, net, max_body, budget, ops_per_round, bool(resumes), len(exp_s2c.streams)))
    res.sample({"gen": "rt", "seed": seed, "net": net, "requests": n_req, "wt": wt, "max_body": max_body, "rounds": rnd,
                "datagrams": stats["dgrams"], "held": stats["held"], "dropped": stats["dropped"], "streams_compared": n,
                "blocked_resumes": resumes, "body_bytes": body}, limit=2)


def _rt_close_diag(ep, exp):
    """what the closing HTTP/3 layer was doing: the last frame-handler call of the QUIC event that made it close"""
    lc = ep.local_close[2]
    if lc is None:
        return "no-frame-handler-call"
    sid, tname, resumed = lc
    if not resumed:
        return "frame=" + tname
    want = exp.normalised().get(sid, {"items": []})["items"]
    got = ep.out.streams.get(sid, {"items": []})["items"]
    nxt = want[len(got)][0] if len(got) < len(want) else "?"
    return "resume-of-blocked-%s(handled-as-%s)" % ({"H": "HEADERS", "P": "PUSH_PROMISE"}.get(nxt, nxt), tname)


def _determinism_shim():
    """QuicConnection keeps the streams served in one datagrams_to_send() call in a *set* of QuicStream
    objects and re-queues them in set order, i.e. in memory-address order: the frame order inside packets
    (hence the whole schedule) differs from process to process.  Hash streams by their id instead so that
    a seed replays.  Equality stays identity; nothing else changes."""
    try:
        from aioquic.quic.stream import QuicStream

        QuicStream.__hash__ = lambda self: self.stream_id
    except Exception:  # pragma: no cover - only determinism is lost
        pass


def rt(batch, res):
    env = L.Env()
    _determinism_shim()
    rng = random.Random(batch["seed"])
    for ci in range(batch["cases"]):
        seed = rng.getrandbits(48)
        if batch.get("only") is not None and ci != batch["only"]:
            continue
        case_ref = {"gen": "rt", "seed": batch["seed"], "cases": batch["cases"], "only": ci}
        res.evaluations += 1
        rt_case(env, seed, res, case_ref)


GENS = {"a_exh": a_exh, "a_pairs": a_pairs, "a_frames": a_frames, "a_sender": a_sender, "a_replay": a_replay, "rt": rt}


def run_batch(batch):
    res = Result()
    t0 = time.process_time()
    GENS[batch["gen"]](batch, res)
    res.count("cpu_s_" + batch["gen"], round(time.process_time() - t0, 2))
    return res.as_dict()
