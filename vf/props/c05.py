"""C05 — network input can never make the QUIC/TLS API raise (totality monitor at the API boundary).

Oracle (single, simple): every call the driver makes to receive_datagram / handle_timer /
datagrams_to_send / get_timer / next_event on the victim — from the prepared state until
ConnectionTerminated has been returned by next_event() — RETURNS.  Any exception is a violation with
signature <ExceptionType>@<module.function>[<outer function][:<assert message>].

Workload: four generator families (raw, mutated-genuine, key-holding-peer frames + histories,
key-holding-peer TLS messages) applied to real client and server connections prepared in every
reachable connection / TLS state (vf/c05_lib.prepare).  States are prepared once per batch with
genuine traffic and deep-copied per input group; a raise seen on a copy is re-run on a freshly
prepared (never copied) state before it is reported.
"""

from __future__ import annotations

import os
import random
import signal
import time
import traceback

from ..common import Result, SeededUrandom, exc_witness

PROPERTY = "C05"
BUILD = "plain"
LEVEL = "exploration"
BUDGET = {"quick": 70, "thorough": 1300}
BATCH_TIMEOUT = {"quick": 300, "thorough": 1500}
RULE = (
    "case = one hostile input (datagram, protected packet with chosen frames, hostile TLS message inside CRYPTO frames, or a "
    "multi-packet history) delivered to a real client/server QuicConnection prepared by genuine traffic in one of 22 states "
    "(server: fresh, partial ClientHello, expecting Finished, connected, after peer/local key update, close pending, closing, "
    "draining; client: first flight, after ServerHello/EncryptedExtensions/Certificate/CertificateVerify/Finished, connected, ...), "
    "followed by <=200 timer/transmit/event steps and a final run to termination. non-trivial = the connection was live and the "
    "input reached at least QUIC header parsing (depth probes: header / decrypt / payload / TLS message); distinct = "
    "(role, state, family, frame-or-message kind, outcome class {ignored, replied, events, closing, closed(code)}) tuples."
)
RULE += " Server state after_ch_0rtt (resumed session, early data accepted, peer holds the client's 0-RTT keys); descriptor slices come from a fixed shuffle; generator 'live': genuine peers with application traffic (resets, STOP_SENDING, key updates, ID changes) over lossy networks, oracle = no API call raises."

ASSUMPTIONS = [
    "application callbacks (session ticket / token handlers) supplied by the harness do not raise",
    "datagrams_to_send on a server connection that has never been handed any datagram is outside the property (no network input yet)",
    "a wall-clock watchdog hit (possible hang) is reported as an observation and makes the case inconclusive, not violated",
]

GENERIC_FUNCS = {
    "pull_extension", "pull_list", "pull_block", "pull_opaque", "pull_certificate_entry", "pull_key_share", "pull_alpn_protocol",
    "pull_psk_identity", "pull_psk_binder", "pull_offered_psks", "negotiate", "handle_message", "_handle_reassembled_message",
    "hkdf_expand_label", "hkdf_label", "add", "subtract", "bounds", "__getitem__",
}
CASE_WATCHDOG_S = 60


class CaseTimeout(BaseException):
    pass


def _on_alarm(signum, frame):
    raise CaseTimeout()


# ----------------------------------------------------------------------------- plan

O_DEFAULT = {}
OPT_VARIANTS = [
    ("v2", {"original_version": "v2"}),
    ("qlog", {"qlog": 1}),
    ("chacha", {"cipher_suites_client": ["CHACHA20_POLY1305_SHA256"]}),
    ("tickets", {"tickets": 1, "token_handler": 1}),
    ("noalpn", {"no_alpn": 1}),
    ("idle5", {"idle_client": 5.0, "idle_server": 5.0}),
    ("v2only", {"versions_client": ["v2"], "versions_server": ["v2", "v1"]}),
]
SERVER_STATES = ["fresh", "partial_ch", "after_ch", "after_ch_0rtt", "connected", "key_updated", "local_key_update", "close_pending", "closing", "draining"]
CLIENT_STATES = ["first_flight", "after_sh", "after_ee", "after_cert", "after_cv", "after_fin", "connected", "key_updated",
                 "local_key_update", "close_pending", "closing", "draining"]
DEAD = ("closing", "draining")
# catalogue sizes differ a lot between families; `parts` slices a catalogue, `n` caps a slice
QUICK = {"raw": (4, 900), "mut": (3, 500), "frames": (2, 750), "tls": (1, None), "hist": (1, None)}
FAMS = ("hist", "tls", "frames", "raw", "mut")


def plan(tier, seed):
    rnd = random.Random(seed)
    jobs = []

    def job(role, state, opts, tag, fam, parts, part, n):
        if state == "after_ch_0rtt" and fam == "tls":
            return  # (the TLS catalogue for servers is covered by after_ch; this state is about frames in 0-RTT packets)
        jobs.append({"role": role, "state": state, "opts": opts, "optname": tag, "fam": fam, "seed": seed * 1000003 + len(jobs) + 1,
                     "n": n, "part": part, "parts": parts})

    all_states = [("server", s) for s in SERVER_STATES] + [("client", s) for s in CLIENT_STATES]
    if tier == "quick":
        for role, state in all_states:
            for fam in FAMS:
                parts, n = QUICK[fam]
                if state in DEAD:
                    if fam in ("tls", "hist"):
                        continue
                    parts, n = parts * 4, 150  # receive_datagram returns at once in these states: thin slice
                job(role, state, O_DEFAULT, "default", fam, parts, (seed + len(jobs)) % parts, n)
        combos = [(r, s, f) for r, s in all_states if s not in DEAD for f in FAMS]
        rnd.shuffle(combos)
        ci = 0
        for tag, opts in OPT_VARIANTS:
            for _ in range(6):
                role, state, fam = combos[ci % len(combos)]
                ci += 1
                parts, n = QUICK[fam]
                if fam == "tls":
                    parts, n = 3, None
                job(role, state, opts, tag, fam, parts, rnd.randrange(parts), n)
        per_batch = 3
    else:
        for tag, opts in [("default", O_DEFAULT)] + OPT_VARIANTS:
            for role, state in all_states:
                for fam in FAMS:
                    if state in DEAD:
                        if fam in ("tls", "hist") or tag != "default":
                            continue
                        job(role, state, opts, tag, fam, 4, rnd.randrange(4), 800)
                        continue
                    k = {"raw": 3, "frames": 2, "tls": 1, "mut": 1, "hist": 1}[fam]
                    for part in range(k):
                        job(role, state, opts, tag, fam, k, part, None)
        # further seeds for the parts that depend on random bytes
        for rep in range(2):
            for role, state in all_states:
                if state in DEAD:
                    continue
                for fam in ("raw", "mut"):
                    job(role, state, O_DEFAULT, "default", fam, 2, rep, None)
        per_batch = 2
    rnd.shuffle(jobs)
    batches = []
    for i in range(0, len(jobs), per_batch):
        batches.append({"gen": "multi", "jobs": jobs[i: i + per_batch], "seed": seed * 1000003 + i})
    # hostile-certificate handshakes (genuine server with a hostile certificate, client victim)
    for i in range(0, len(CERT_KINDS), 7):
        batches.append({"gen": "certs", "certs": CERT_KINDS[i: i + 7], "seed": seed * 1000003 + 900000 + i})
    # consistent server flights with hostile CertificateRequest messages against clients with / without a certificate
    for suite in ROGUE_SUITES:
        for ck in ROGUE_CLIENT_CERTS:
            batches.append({"gen": "rogue", "suites": [suite], "client_certs": [ck], "seed": seed * 1000003 + 950000})
    # genuine peers exchanging application traffic (many streams, resets, STOP_SENDING, key updates, connection-ID changes)
    # over lossy networks: the inputs are genuine packets, in the orders and with the losses a network produces — what
    # the connection makes of them must never be an exception out of receive_datagram / datagrams_to_send / handle_timer
    nlive, per = (96, 8) if tier == "quick" else (6000, 25)
    for i in range(0, nlive, per):
        batches.append({"gen": "live", "seeds": [seed * 1000003 + 990000 + i + k for k in range(per)]})
    # genuine peers over the configuration space of C03(c)
    for i in range(6 if tier == "quick" else 60):
        batches.append({"gen": "configs", "seed": seed * 1000003 + 970000 + 40 * i, "count": 40})
    rnd.shuffle(batches)
    return batches


def floors(tier):
    return {
        "cases": 20000 if tier == "quick" else 150000,
        "cases_raw": 2000, "cases_mut": 1500, "cases_frames": 3000, "cases_tls": 1500, "cases_hist": 60,
        "depth_ge_payload": 3000, "depth_tls_message": 800, "terminated_observed": 1000, "api_calls": 200000,
        "states_prepared": 40,
    }


def finalize(tier, merged):
    return {
        "states": int(merged.get("states_prepared", 0)),
        "inputs": int(merged.get("cases", 0)),
        "api_calls_monitored": int(merged.get("api_calls", 0)),
    }


# ----------------------------------------------------------------------------- signature


def signature(exc):
    tb = traceback.extract_tb(exc.__traceback__)
    chain = []
    for fr in tb:
        fn = fr.filename.replace("\\", "/")
        if "/aioquic/" in fn:
            chain.append((fn.rsplit("/", 1)[1][:-3], fr.name))
    if not chain:
        sig = "%s@?" % type(exc).__name__
    else:
        mod, func = chain[-1]
        sig = "%s@%s.%s" % (type(exc).__name__, mod, func)
        if func in GENERIC_FUNCS:
            for m2, f2 in reversed(chain[:-1]):
                if f2 not in GENERIC_FUNCS and f2 != func:
                    sig += "<" + f2
                    break
    if isinstance(exc, AssertionError) and exc.args:
        sig += ":" + str(exc.args[0])[:40].replace(" ", "-")
    return sig


# ----------------------------------------------------------------------------- running cases


def _state_name(conn):
    return conn._state.name


def run_desc(st, d, lib, gen, full_settle=True):
    """Deliver one descriptor to st (mutates st). Returns dict(outcome, depth, live, raised=ApiRaised|None, where)."""
    from ..simnet import ApiRaised

    drv = st.drv
    live = _state_name(drv.conn) not in ("CLOSING", "DRAINING", "TERMINATED")
    lib.PROBES.reset()
    ev0, sent0 = len(drv.events), drv.sent
    had_term = drv.terminated is not None
    depth = 0
    try:
        steps = gen.materialize(st, d)
        if isinstance(steps, gen.Script):
            for f in steps.steps:
                for dg, addr in f(st):
                    drv.receive(dg, addr)
                    depth = max(depth, lib.PROBES.depth())
        else:
            for dg, addr in steps:
                drv.receive(dg, addr)
                depth = max(depth, lib.PROBES.depth())
        sent_now = drv.sent
        quiet = depth < 4 and len(drv.events) == ev0 and sent_now == sent0 and drv.terminated is None
        if quiet and not full_settle:
            # nothing observable happened: only fire timers that are already due; the full
            # 200-step cycle runs once at the end of the input group (see run_cases)
            drv.settle(2, 0.05)
        else:
            drv.settle(200, 5.0)
    except ApiRaised as ar:
        return {"outcome": "raised", "depth": max(depth, lib.PROBES.depth()), "live": live, "raised": ar}
    depth = max(depth, lib.PROBES.depth())
    if drv.terminated is not None and not had_term:
        outcome = "closed(0x%x)" % int(drv.terminated.error_code)
    elif live and _state_name(drv.conn) in ("CLOSING", "DRAINING"):
        outcome = "closing"
    elif len(drv.events) > ev0:
        outcome = "events"
    elif sent_now > sent0:
        outcome = "replied"
    else:
        outcome = "ignored"
    return {"outcome": outcome, "depth": depth, "live": live, "raised": None}


def kind_coarse(d):
    k = d["kind"]
    if d["fam"] == "tls":
        p = k.split(":")
        return ":".join(p[:2])
    return k


def account(res, st, d, r):
    fam = d["fam"]
    res.evaluations += 1
    res.count("cases")
    res.count("cases_" + fam)
    res.count("o|%s|%s|%s|%s" % (st.role, st.name, fam, r["outcome"]))
    res.count("k|%s|%s|%s" % (fam, kind_coarse(d), r["outcome"].split("(")[0]))
    res.count("depth|%s|%d" % (fam, r["depth"]))
    if r["depth"] >= 4:
        res.count("depth_ge_payload")
    if r["depth"] >= 5:
        res.count("depth_tls_message")
    if r["live"] and r["depth"] >= 1:
        res.nontrivial.add("%s|%s|%s|%s|%s" % (st.role, st.name, fam, d["kind"], r["outcome"]))
    else:
        res.count("trivial_cases")


def replay_on_fresh(batch, descs, lib, gen):
    """Run descs on a freshly prepared, never-copied state. Returns (signature or None, ApiRaised or None, phase)."""
    from ..simnet import ApiRaised

    SeededUrandom(batch["seed"]).install()
    st = lib.prepare(batch["role"], batch["state"], batch.get("opts") or {}, batch["seed"])
    for d in descs:
        r = run_desc(st, d, lib, gen)
        if r["raised"] is not None:
            return signature(r["raised"].exc), r["raised"], "input"
    try:
        st.drv.finish()
    except ApiRaised as ar:
        return signature(ar.exc), ar, "finish"
    return None, None, None


def report(res, batch, descs, ar, sig, phase, confirmed_on):
    case = {"gen": "replay", "role": batch["role"], "state": batch["state"], "opts": batch.get("opts") or {}, "seed": batch["seed"], "descs": descs}
    last = descs[-1] if descs else {}
    what = "%s %s in state %s: %s() raised %r after %s input %s/%s (%s)" % (
        batch["role"], "victim", batch["state"], ar.call, ar.exc, phase, last.get("fam"), last.get("kind"), confirmed_on)
    w = exc_witness(ar.exc)
    w["api_call"] = ar.call
    w["last_descriptor"] = {k: (v if not isinstance(v, str) or len(v) < 300 else v[:300] + "...") for k, v in last.items()}
    res.violation(sig, what[:600], case, w)


def run_cases(batch, res, lib, gen):
    from ..simnet import ApiRaised

    role, state, opts, fam = batch["role"], batch["state"], batch.get("opts") or {}, batch["fam"]
    try:
        base = lib.prepare(role, state, opts, batch["seed"])
    except ApiRaised as ar:
        sig = signature(ar.exc)
        case = {"gen": "replay", "role": role, "state": state, "opts": opts, "seed": batch["seed"], "descs": []}
        res.violation(sig, "preparing state %s/%s with genuine traffic: %s() raised %r" % (role, state, ar.call, ar.exc), case, exc_witness(ar.exc))
        res.evaluations += 1
        return
    res.count("states_prepared")
    rng = random.Random(batch["seed"])
    descs = gen.enumerate_family(fam, base, rng, batch.get("n"), batch.get("part", 0), batch.get("parts", 1))
    if batch.get("only") is not None:
        descs = descs[: batch["only"]]
    group_max = {"raw": 40, "mut": 25, "frames": 1, "tls": 1, "hist": 1}[fam]
    confirmed = {}
    unconfirmed = {}
    i = 0
    fidelity_budget = 1 if batch["seed"] % 3 == 0 else 0
    while i < len(descs):
        st = base.clone()
        start = i
        outcomes = []
        viol = None
        while i < len(descs) and i - start < group_max:
            d = descs[i]
            i += 1
            signal.setitimer(signal.ITIMER_REAL, CASE_WATCHDOG_S)
            try:
                r = run_desc(st, d, lib, gen, full_settle=group_max == 1)
            except CaseTimeout:
                res.count("obs_watchdog_possible_hang")
                res.inconclusive.append("watchdog: %s/%s %s %s did not finish in %ds" % (role, state, fam, d["kind"], CASE_WATCHDOG_S))
                res.sample({"possible_hang": d if len(str(d)) < 600 else {"fam": fam, "kind": d["kind"]}, "role": role, "state": state})
                break
            finally:
                signal.setitimer(signal.ITIMER_REAL, 0)
            account(res, st, d, r)
            outcomes.append(r["outcome"])
            if r["raised"] is not None:
                viol = (r["raised"], "input")
                break
            if r["outcome"] != "ignored" or r["depth"] >= 4 or st.drv.terminated is not None:
                break
        res.count("api_calls", st.drv.calls)
        if viol is None and st.drv.terminated is None and outcomes:
            res.count("finish_runs")
            signal.setitimer(signal.ITIMER_REAL, CASE_WATCHDOG_S)
            try:
                st.drv.settle(200, 5.0)
                st.drv.finish()
            except ApiRaised as ar:
                viol = (ar, "finish")
            except CaseTimeout:
                res.count("obs_watchdog_possible_hang")
                res.inconclusive.append("watchdog in finish phase: %s/%s %s" % (role, state, fam))
            finally:
                signal.setitimer(signal.ITIMER_REAL, 0)
            res.count("api_calls", 0)
        if st.drv.terminated is not None:
            res.count("terminated_observed")
        elif viol is None and outcomes:
            res.count("obs_not_terminated_within_steps")
        seq = descs[start:i]
        if viol is not None:
            ar, phase = viol
            sig = signature(ar.exc)
            res.count("raised_on_copy")
            if confirmed.get(sig, 0) >= 2:
                res.count("violations_seen")
                continue
            if unconfirmed.get(sig, 0) >= 2:
                res.count("obs_unconfirmed_on_fresh_state")
                continue
            sig2, ar2, phase2 = replay_on_fresh(batch, seq, lib, gen)
            SeededUrandom(batch["seed"] + i).install()
            if sig2 is None:
                # try the last input alone before giving up
                sig2, ar2, phase2 = replay_on_fresh(batch, seq[-1:], lib, gen)
                if sig2 is not None:
                    seq = seq[-1:]
            if sig2 is None:
                unconfirmed[sig] = unconfirmed.get(sig, 0) + 1
                res.count("obs_unconfirmed_on_fresh_state")
                res.inconclusive.append("raise %s seen on a copied state did not reproduce on a fresh state (%s/%s %s)" % (sig, role, state, fam))
                continue
            confirmed[sig2] = confirmed.get(sig2, 0) + 1
            report(res, batch, seq, ar2, sig2, phase2, "confirmed on fresh state")
        elif fidelity_budget and outcomes:
            fidelity_budget -= 1
            SeededUrandom(batch["seed"]).install()
            fresh = lib.prepare(role, state, opts, batch["seed"])
            out2 = []
            for d in seq:
                out2.append(run_desc(fresh, d, lib, gen, full_settle=group_max == 1)["outcome"])
            res.count("copy_fidelity_checked")
            SeededUrandom(batch["seed"] + i).install()
            if out2 != outcomes:
                res.count("obs_copy_fidelity_mismatch")
                res.inconclusive.append("copy fidelity: outcomes on copy %r vs fresh %r (%s/%s %s)" % (outcomes[:4], out2[:4], role, state, fam))
    if descs:
        d0 = descs[0]
        res.sample({"role": role, "state": state, "opts": batch.get("optname"), "family": fam, "descriptors": len(descs),
                    "first": {k: (v if not isinstance(v, (str, list)) or len(str(v)) < 120 else str(v)[:120] + "...") for k, v in d0.items()}}, limit=1)


def run_replay(batch, res, lib, gen):
    sig, ar, phase = replay_on_fresh(batch, batch["descs"], lib, gen)
    res.evaluations += 1
    res.count("cases")
    res.nontrivial.add("replay")
    res.nontrivial.add("replay2")
    if sig is not None:
        report(res, batch, batch["descs"], ar, sig, phase, "replay")


# ----------------------------------------------------------------------------- hostile certificates

CERT_KINDS = ["many-sans", "long-san", "expired", "not-yet-valid", "no-san", "wrong-name", "ip-san", "ed25519", "ed448", "p256", "p384",
              "selfsigned-rsa", "idn-san", "wildcard", "empty-subject", "uri-san", "email-san", "long-cn", "nul-san",
              # certificates whose DER was edited after signing (the TLS proof of possession only needs the public key, which
              # is untouched): the library that parses them may object late and in its own way
              "der:duplicate-san-extension", "der:san-oid-to-unknown", "der:duplicate-basic-constraints"]


def make_cert(kind):
    import datetime
    import ipaddress

    from cryptography import x509
    from cryptography.hazmat.primitives import hashes
    from cryptography.hazmat.primitives.asymmetric import ec, ed448, ed25519, rsa
    from cryptography.x509.oid import NameOID

    now = datetime.datetime.now(datetime.timezone.utc)
    nb, na = now - datetime.timedelta(days=2), now + datetime.timedelta(days=30)
    alg = hashes.SHA256()
    if kind == "ed25519":
        key, alg = ed25519.Ed25519PrivateKey.generate(), None
    elif kind == "ed448":
        key, alg = ed448.Ed448PrivateKey.generate(), None
    elif kind == "p256":
        key = ec.generate_private_key(ec.SECP256R1())
    elif kind == "p384":
        key = ec.generate_private_key(ec.SECP384R1())
    else:
        key = rsa.generate_private_key(65537, 2048)
    cn = "localhost"
    sans = [x509.DNSName("localhost")]
    if kind == "many-sans":
        sans = [x509.DNSName("host-%04d.a-rather-long-domain-name.example" % i) for i in range(120)]
    elif kind == "long-san":
        sans = [x509.DNSName(".".join(["l" * 60] * 4))] * 1 + [x509.DNSName("x%d." % i + ".".join(["m" * 60] * 3)) for i in range(8)]
    elif kind == "expired":
        nb, na = now - datetime.timedelta(days=20), now - datetime.timedelta(days=10)
    elif kind == "not-yet-valid":
        nb, na = now + datetime.timedelta(days=10), now + datetime.timedelta(days=20)
    elif kind == "no-san":
        sans = None
    elif kind == "wrong-name":
        sans = [x509.DNSName("other.example")]
    elif kind == "ip-san":
        sans = [x509.IPAddress(ipaddress.ip_address("10.0.0.1"))]
    elif kind == "idn-san":
        sans = [x509.DNSName("xn--nxasmq6b.example"), x509.DNSName("xn--.example")]
    elif kind == "wildcard":
        sans = [x509.DNSName("*"), x509.DNSName("*.*"), x509.DNSName("l*calhost"), x509.DNSName("*.com")]
    elif kind == "uri-san":
        sans = [x509.UniformResourceIdentifier("https://localhost/")]
    elif kind == "email-san":
        sans = [x509.RFC822Name("root@localhost")]
    elif kind == "long-cn":
        cn = "c" * 64
        sans = None
    elif kind == "nul-san":
        sans = [x509.DNSName("localhost\x00.evil.example")]
    name = x509.Name([x509.NameAttribute(NameOID.COMMON_NAME, cn)]) if kind != "empty-subject" else x509.Name([])
    b = x509.CertificateBuilder().subject_name(name).issuer_name(name).public_key(key.public_key()).serial_number(4242).not_valid_before(nb).not_valid_after(na)
    if sans is not None:
        b = b.add_extension(x509.SubjectAlternativeName(sans), critical=kind == "empty-subject")
    if kind.startswith("der:"):
        from cryptography.hazmat.primitives.serialization import Encoding

        # two extensions of the same DER shape whose OIDs differ in the last byte: subjectAltName 2.5.29.17 /
        # issuerAltName 2.5.29.18, and basicConstraints 2.5.29.19 / a second copy made from 2.5.29.18's slot
        b = b.add_extension(x509.IssuerAlternativeName([x509.DNSName("localhost")]), critical=False)
        b = b.add_extension(x509.BasicConstraints(ca=False, path_length=None), critical=False)
        der = bytearray(b.sign(key, alg).public_bytes(Encoding.DER))
        san, ian, bc = bytes.fromhex("0603551d11"), bytes.fromhex("0603551d12"), bytes.fromhex("0603551d13")
        if kind == "der:duplicate-san-extension":
            i = der.index(ian)
            der[i : i + 5] = san
        elif kind == "der:san-oid-to-unknown":
            i = der.index(san)
            der[i : i + 5] = bytes.fromhex("0603551d7f")
        elif kind == "der:duplicate-basic-constraints":
            i = der.index(ian)
            der[i : i + 5] = bc
        return x509.load_der_x509_certificate(bytes(der)), key
    return b.sign(key, alg), key


def run_certs(batch, res, lib, gen):
    """A genuine aioquic server presents a hostile (self-made, correctly signed) certificate to a
    client victim: reaches verify_certificate and the CONNECTION_CLOSE path with its reason phrase."""
    from ..simnet import SERVER_ADDR, ApiRaised

    kind = batch["cert"]
    cert, key = make_cert(kind)

    def tweak(ccfg, scfg):
        scfg.certificate = cert
        scfg.certificate_chain = []
        scfg.private_key = key

    g = lib.Genuine({}, tweak=tweak)
    g.start()
    drv = lib.Drv(g.client, "client", g.now, SERVER_ADDR)
    lib.PROBES.reset()
    descs = [{"fam": "certs", "kind": "CERT:" + kind}]
    res.count("states_prepared")
    try:
        for rnd_ in range(6):
            out = drv.transmit()
            g.now = drv.now
            try:
                g.deliver("server", out)
                back = g.emit("server")
            except Exception as exc:  # the *genuine* server cannot present this certificate: not the victim's problem
                res.count("obs_genuine_server_failed_with_hostile_cert")
                res.sample({"cert": kind, "genuine_server_error": repr(exc)[:200]})
                return
            for dg in back:
                drv.receive(dg)
            if drv.terminated is not None or not back and not out:
                break
        drv.settle(200, 5.0)
        outcome = "closed(0x%x)" % int(drv.terminated.error_code) if drv.terminated is not None else ("events" if drv.events else "ignored")
        drv.finish()
    except ApiRaised as ar:
        sig = signature(ar.exc)
        case = {"gen": "certs", "cert": kind, "seed": batch.get("seed", 0)}
        what = "client victim, genuine server with hostile certificate %r: %s() raised %r" % (kind, ar.call, ar.exc)
        w = exc_witness(ar.exc)
        w["api_call"] = ar.call
        res.violation(sig, what[:600], case, w)
        outcome = "raised"
    res.evaluations += 1
    res.count("cases")
    res.count("cases_certs")
    res.count("api_calls", drv.calls)
    res.count("o|client|handshake|certs|%s" % outcome)
    res.count("k|certs|%s|%s" % (kind, outcome.split("(")[0]))
    if drv.terminated is not None:
        res.count("terminated_observed")
    res.nontrivial.add("client|handshake|certs|%s|%s" % (kind, outcome))



# ----------------------------------------------------------------------------- genuine peers, every configuration pair


def run_configs(batch, res):
    """Two genuine endpoints whose *configurations* differ (cipher suites, version lists and original version, ALPN lists,
    Retry, client-certificate request, key type — the sampling space of C03(c)), over a lossy network: whatever the
    combination negotiates or refuses, the input one endpoint's configuration makes the other one receive is network
    input, and no exception may leave the API.  (C03 runs the same space for agreement and only *counts* API raises.)"""
    import random as _random

    from .. import c03_quic as Q
    for i in range(batch["count"]):
        seed = batch["seed"] + i
        rng = _random.Random("c05-configs/%d" % seed)
        o = Q.sample_options(rng)
        # bias towards the corners: one side restricted to a single version while the other prefers another one
        r = rng.random()
        if r < 0.25:
            only = rng.choice(["v1", "v2"])
            other = "v2" if only == "v1" else "v1"
            o["versions_s"] = [only]
            o["versions_c"] = rng.choice([[other, only], [only, other]])
            o["original_version"] = rng.choice([only, other])
        fp = Q.fate_params(rng)
        fp["loss"] = rng.choice([0.0, 0.0, 0.05])
        case = {"gen": "configs", "seed": seed, "count": 1}
        try:
            sim, _mon = Q.run_hs(o, fp, seed, Q.TicketStore(), horizon=30.0)
        except Exception as exc:  # the harness itself
            res.inconclusive.append("configs seed %d: harness failed: %r" % (seed, exc))
            continue
        res.evaluations += 1
        res.count("cases")
        res.count("cases_configs")
        ar = sim.api_raised
        if ar is not None:
            sig = signature(ar.exc) + ":genuine-peer"
            w = exc_witness(ar.exc)
            w["api_call"] = ar.call
            w["options"] = {k: o[k] for k in sorted(o)}
            res.violation(sig, "genuine client/server pair with options %r: %s() raised %r" % ({k: o[k] for k in ("versions_c", "versions_s", "original_version") if k in o}, ar.call, ar.exc), case, w)
            outcome = "raised"
        else:
            c_done = any(type(e).__name__ == "HandshakeCompleted" for _t, e in sim.client.events) if sim.client is not None else False
            outcome = "completed" if c_done else "not-completed"
        res.count("k|configs|%s" % outcome)
        res.nontrivial.add("configs|%s|%s|%s|%s|%s" % (tuple(o["versions_c"]), tuple(o["versions_s"]), o.get("original_version"), bool(o.get("retry")), outcome))


# ----------------------------------------------------------------------------- consistent hostile flights (rogue server)

ROGUE_SUITES = (0x1301, 0x1302, 0x1303)
ROGUE_CLIENT_CERTS = ("none", "ec", "rsa")


def rogue_cr_variants():
    """(label, CertificateRequest body) — what a key-holding server may legally or illegally ask for."""
    from .. import c11_adversary as A

    def cr(algs=None, ctx=b"", extra=b"", raw_algs=None, twice=False):
        exts = b""
        if algs is not None or raw_algs is not None:
            body = raw_algs if raw_algs is not None else A.vec(2, b"".join(a.to_bytes(2, "big") for a in algs))
            exts += A.ext(13, body)
            if twice:
                exts += A.ext(13, body)
        return A.vec(1, ctx) + A.vec(2, exts + extra)

    return [
        ("usual", cr([0x0403, 0x0804, 0x0401, 0x0807])),
        ("only-ed448", cr([0x0808])), ("only-ed25519", cr([0x0807])), ("only-ecdsa-p384", cr([0x0503])), ("only-ecdsa-p521", cr([0x0603])),
        ("only-rsa-pkcs1-sha1", cr([0x0201])), ("only-rsa-pss-pss", cr([0x0809])), ("only-unknown", cr([0xFFFF])), ("only-grease", cr([0x0A0A, 0x1A1A])),
        ("only-ecdsa-p256", cr([0x0403])), ("only-rsa-pss-sha256", cr([0x0804])), ("only-rsa-pkcs1-sha256", cr([0x0401])),
        ("empty-list", cr([])), ("no-signature-algorithms", cr(None)), ("odd-length-list", cr(raw_algs=A.vec(2, b"\x08\x04\x08"))),
        ("list-length-overruns", cr(raw_algs=b"\x00\x08\x08\x04")), ("signature-algorithms-twice", cr([0x0403, 0x0804], twice=True)),
        ("context-255", cr([0x0403, 0x0804], ctx=bytes(255))), ("context-1", cr([0x0808], ctx=b"\x07")),
        ("with-certificate-authorities", cr([0x0808], extra=A.ext(47, A.vec(2, A.vec(2, b"\x30\x00"))))),
        ("with-unknown-extension", cr([0x0503], extra=A.ext(0xFACE, b"\x00" * 40))),
        ("many-algorithms", cr([0x0900 + i for i in range(300)])),
    ]


def run_rogue(batch, res):
    """A server that holds the authentic key and keeps the transcript consistent (own RFC 8446 key schedule, Finished
    and CertificateVerify recomputed over what it really sent: vf.c11_adversary) sends a flight with a hostile but
    well-protected CertificateRequest to TLS client victims with and without a client certificate.  Whatever the
    victim does — answer, or refuse with an alert — no exception other than tls.Alert may leave handle_message
    (QuicConnection only converts tls.Alert into a close; anything else escapes receive_datagram)."""
    from aioquic import tls
    from aioquic.buffer import Buffer

    from .. import c11_adversary as A

    ca = os.path.join(A.CERTS, "pycacert.pem")
    variants = rogue_cr_variants()
    for suite in batch["suites"]:
        for ckind in batch["client_certs"]:
            for label, body in variants:
                for after in ("EE", "CERT-position-swapped"):
                    v = tls.Context(is_client=True, cafile=ca, server_name="localhost", alpn_protocols=["vf"], cipher_suites=[tls.CipherSuite(suite)])
                    v.handshake_extensions = [(0x39, b"\x01\x02\x03\x04")]
                    if ckind == "ec":
                        _chain, key, certs = A.own_identity("client.c05")
                        v.certificate, v.certificate_private_key = certs[0], key
                    elif ckind == "rsa":
                        _chain, key, certs = A.authentic()
                        v.certificate, v.certificate_private_key = certs[0], key
                    adv = A.RogueServer("auth", suite, A.G_X25519, alpn=b"vf")
                    case = {"gen": "rogue", "suites": [suite], "client_certs": [ckind], "only": label, "position": after}
                    if batch.get("only") and (batch["only"] != label or batch.get("position", after) != after):
                        continue
                    steps = []
                    outcome = "?"
                    exc = None
                    where = None

                    def feed(name, data):
                        nonlocal exc, where
                        bufs = {tls.Epoch.INITIAL: Buffer(capacity=16384), tls.Epoch.HANDSHAKE: Buffer(capacity=65536), tls.Epoch.ONE_RTT: Buffer(capacity=16384)}
                        try:
                            v.handle_message(data, bufs)
                        except Exception as e:
                            exc, where = e, name
                            return None
                        res.count("api_calls")
                        return bufs

                    b = feed("start", b"")
                    if b is None:
                        raise RuntimeError("harness: client victim did not start: %r" % (exc,))
                    adv.recv_client_hello(bytes(b[tls.Epoch.INITIAL].data))
                    flight = [("SH", adv.server_hello), ("EE", adv.encrypted_extensions)]
                    cr_step = ("CR", lambda: adv.emit(A.hs_msg(A.CR, body)))
                    if after == "EE":
                        flight += [cr_step, ("CERT", adv.certificate), ("CV", adv.certificate_verify), ("FIN", adv.finished)]
                    else:
                        # (illegal position: after the Certificate — must be refused with an alert, too)
                        flight += [("CERT", adv.certificate), cr_step, ("CV", adv.certificate_verify), ("FIN", adv.finished)]
                    for name, make in flight:
                        if feed(name, make()) is None:
                            break
                        steps.append(name)
                    res.evaluations += 1
                    res.count("cases")
                    res.count("cases_rogue")
                    if exc is None:
                        outcome = "answered:" + v.state.name
                    elif isinstance(exc, tls.Alert):
                        outcome = "alert:%s@%s" % (type(exc).__name__, where)
                    else:
                        outcome = "raised"
                        sig = signature(exc) + ":rogue-flight"
                        w = exc_witness(exc)
                        w["delivered"] = steps + [where]
                        res.violation(sig, "client victim (certificate: %s, suite 0x%04x), consistent server flight with CertificateRequest %r after %s: handle_message(%s) raised %r"
                                      % (ckind, suite, label, after, where, exc), case, w)
                    res.count("k|rogue|%s|%s" % (label, outcome.split("@")[0]))
                    res.nontrivial.add("rogue|%s|%s|%s|%s" % (ckind, label, after, outcome))
                    if label == "usual" and after == "EE" and not outcome.startswith("answered:CLIENT_POST_HANDSHAKE"):
                        res.inconclusive.append("rogue: the usual CertificateRequest did not lead to completion (%s): the adversary is not consistent" % outcome)


def run_batch(batch):
    import logging

    from .. import c05_gen as gen
    from .. import c05_lib as lib

    logging.disable(logging.CRITICAL)
    res = Result()
    t0 = time.process_time()
    signal.signal(signal.SIGALRM, _on_alarm)
    su = SeededUrandom(batch.get("seed", 0))
    su.install()
    lib.PROBES.install()
    try:
        if batch["gen"] == "multi":
            for job in batch["jobs"]:
                t1 = time.process_time()
                SeededUrandom(job["seed"]).install()
                run_cases(job, res, lib, gen)
                res.count("cpu_s_" + job["fam"], round(time.process_time() - t1, 2))
        elif batch["gen"] == "cases":
            run_cases(batch, res, lib, gen)
            res.count("cpu_s_" + batch["fam"], round(time.process_time() - t0, 2))
        elif batch["gen"] == "replay":
            run_replay(batch, res, lib, gen)
        elif batch["gen"] == "live":
            from ..scenarios import gen_scenario
            from ..simprops import run_case

            for sd in batch["seeds"]:
                sc = gen_scenario(sd)
                sim, ok = run_case(sc, [], res, {"gen": "live", "seeds": [sd]}, tap=False)
                res.count("live_scenarios")
                res.count("live_datagrams_delivered", sim.fates.counts.get("deliver", 0))
                res.nontrivial.add("live:%s:%s" % (sd % 997, sim.stopped_reason))
            res.count("cpu_s_live", round(time.process_time() - t0, 2))
        elif batch["gen"] == "configs":
            run_configs(batch, res)
            res.count("cpu_s_configs", round(time.process_time() - t0, 2))
        elif batch["gen"] == "rogue":
            run_rogue(batch, res)
            res.count("cpu_s_rogue", round(time.process_time() - t0, 2))
        elif batch["gen"] == "certs":
            for kind in batch.get("certs") or [batch["cert"]]:
                run_certs(dict(batch, cert=kind, certs=None), res, lib, gen)
            res.count("cpu_s_certs", round(time.process_time() - t0, 2))
        else:
            raise ValueError(batch["gen"])
    finally:
        su.uninstall()
        signal.setitimer(signal.ITIMER_REAL, 0)
    res.count("cpu_s_total", round(time.process_time() - t0, 2))
    return res.as_dict()
