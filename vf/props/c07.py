"""C07 — receive-side limits are enforced and buffering stays bounded.

A key-holding peer P (vf.puppet.Puppet) injects frame sequences into a genuine endpoint R
(both roles) and reads everything R emits through the independent tap.

O1 "accusation is exact": vf.c07_model.RecvModel knows, from the wire only, the limits R has
    advertised (transport parameters parsed out of the handshake's CRYPTO frames + every MAX_*
    frame R emitted) and what P has sent; every injected frame is classified must-accept /
    must-reject(codes) / either and compared with what R did (CONNECTION_CLOSE on the wire).
O2 "bounded state, measured": long repetition histories (CRYPTO with a permanent gap, CRYPTO
    feeding an incomplete TLS message, PATH_CHALLENGE from one / many source addresses,
    NEW_CONNECTION_ID + retire_prior_to without acknowledging the RETIRE frames, never-completed
    streams); hooked queue/buffer lengths every 100 frames against the advertised / documented
    bounds (constants read from the running module) and a generic reachable-bytes walk.
"""

from __future__ import annotations

import json
import os
import random
import time

from .. import frames as F
from ..c07_model import (
    CODE_NAME, CONNECTION_ID_LIMIT_ERROR, CRYPTO_BUFFER_EXCEEDED, FLOW_CONTROL_ERROR, LIMIT_CODES, VARINT_MAX, RecvModel,
    code_name, reachable, wire_transport_parameters,
)
from ..common import Result, SeededUrandom, h

PROPERTY = "C07"
BUILD = "plain"
LEVEL = "exploration"
BUDGET = {"quick": 70, "thorough": 1300}
BATCH_TIMEOUT = {"quick": 300, "thorough": 2400}
SIGNAL_IS_VIOLATION = False
RULE = (
    "limits: per (victim role, limit configuration) one genuine handshake, then forked histories of 5..200 packets from a "
    "key-holding peer: STREAM / RESET_STREAM / STOP_SENDING / STREAM_DATA_BLOCKED with offsets, ends and final sizes at "
    "L-1, L, L+1, 2L, 2^62-1 for the currently advertised stream / connection limits, stream ids at the stream-count limit, "
    "wrong initiator / direction, duplicates, several frames per packet, interleaved with R's own limit raises; each packet "
    "classified by a wire-only reference model. non-trivial = a history in which a frame exactly at a limit was accepted or "
    "a must-reject frame was evaluated; distinct = hash of (role, configuration, bucketed sequence of (frame kind, model "
    "tags, outcome)). floods: 10^3..10^5-frame repetition histories, non-trivial = flood ran to its planned length or R "
    "closed with the documented error; distinct = (generator, role, variant, outcome)."
)
RULE += " Late additions: flood 'vary_validated' (a peer that answers every PATH_CHALLENGE from thousands of addresses; remembered paths bounded by MAX_NETWORK_PATHS); limit histories in which the victim's own application calls stop_stream() on streams the peer keeps sending on."

ASSUMPTIONS = [
    "R's advertised limits are read from the wire (transport parameters inside the handshake CRYPTO frames, MAX_* frames); "
    "small stream-count limits are obtained by presetting R's _local_max_streams_* before the handshake (workload set-up of "
    "the endpoint's configuration; the values then travel in R's transport parameters)",
    "'either' region (observation only): final size below bytes already sent, frames for streams R may have discarded "
    "(completed receive-only streams after a send cycle, bidirectional streams whose both halves are finished), any frame "
    "after such a frame on the same stream, STREAM frames with offset+length > 2^62-1 may be refused with "
    "FRAME_ENCODING_ERROR as well",
    "wrong initiator / send-only stream ids are expected to be refused with STREAM_STATE_ERROR (pinned by the repository's "
    "tests)",
    "bounds are evaluated while R is connected; the state R holds at the instant it decides to close is not measured",
    "P acknowledges everything R sends in the limits histories, so R's MAX_* frames always fit in the packet being built; if "
    "a must-reject frame is accepted while R's internal limit is ahead of what it advertised it is counted as "
    "obs_limit_raised_before_advertised",
    "0-RTT-stage packets are not generated (same frame handlers as 1-RTT); Initial-space CRYPTO floods are not generated",
    "growth of _streams_finished, _peer_cid_sequence_numbers, loss-recovery and TLS bookkeeping is reported as observation",
]

# limit configurations: md = max_data, msd = max_stream_data, msb/msu = stream-count presets, ropen: R opens own streams
CFGS = [
    {"md": 4096, "msd": 1200, "msb": 128, "msu": 128},
    {"md": 65536, "msd": 16384, "msb": 3, "msu": 2},
    {"md": 3000, "msd": 3000, "msb": 1, "msu": 1},
    {"md": 20000, "msd": 500, "msb": 8, "msu": 5, "ropen": 1},
    {"md": 100, "msd": 100, "msb": 4, "msu": 4},
    {"md": 1048576, "msd": 1048576, "msb": 128, "msu": 128, "ropen": 1},
    {"md": 1, "msd": 1, "msb": 2, "msu": 0},
    {"md": 2000, "msd": 8000, "msb": 6, "msu": 6},
]

MAX_PAYLOAD = 1150  # a bigger 1-RTT packet does not fit R's receive path (1200-byte datagrams)
ALLOC_CAP = 4 << 20  # never ask R to allocate more than this in one reassembly buffer (harness memory guard)


def floors(tier):
    # ~10 % of what a complete quick run reaches
    return {
        "o1_frames_classified": 10000,
        "o1_must_accept_checked": 5000,
        "o1_must_reject_checked": 100,
        "o1_at_limit_accepted": 1000,
        "o1_r_limit_raises_seen": 2000,
        "o2_measurements": 50,
        "o2_flood_frames": 5000,
        "o2_walks": 2,
    }


def finalize(tier, merged):
    return {"histories": int(merged.get("o1_histories", 0)), "flood_runs": int(merged.get("o2_flood_runs", 0))}


def plan(tier, seed):
    b = []
    quick = tier == "quick"
    per_batch = 40 if quick else 150
    rounds = 3 if quick else 18
    for rnd in range(rounds):
        for ci in range(len(CFGS)):
            for victim in ("server", "client"):
                b.append({"gen": "limits", "victim": victim, "cfg": ci, "seed": seed * 1000003 + rnd * 977 + ci * 31 + (victim == "client"), "n": per_batch})
    fl = []
    reps = 1 if quick else 10
    for rep in range(reps):
        scale = 1 if quick else (1 if rep < 5 else 10)
        for victim in ("server", "client"):
            s = seed * 1000003 + rep * 131 + (victim == "client")
            for space in ("1rtt", "handshake"):
                fl.append({"gen": "flood_crypto", "victim": victim, "space": space, "variant": "gap", "n": 3000 * scale, "seed": s})
            fl.append({"gen": "flood_crypto", "victim": victim, "space": "1rtt", "variant": "contig", "n": min(700 * scale, 3000), "seed": s})
            for variant in ("same", "same_burst", "vary_probe", "vary_promote", "vary_validated", "few_burst", "lost_responses"):
                # R looks a source address up linearly: keep the many-address runs below 2*10^4 datagrams
                nn = min(6000 * scale, 20000) if variant.startswith("vary") else 6000 * scale
                fl.append({"gen": "flood_challenge", "victim": victim, "variant": variant, "n": nn, "seed": s})
            for variant in ("noack", "burst", "ack", "fill"):
                fl.append({"gen": "flood_ncid", "victim": victim, "variant": variant, "n": 5000 * scale, "seed": s})
            for variant, per in (("late_burst", 40), ("late_noack", 40), ("late_noack", 10), ("late_ack", 25), ("late_ack", 40), ("late_mixed", 12), ("late_burst", 5)):
                fl.append({"gen": "flood_ncid", "victim": victim, "variant": variant, "per": per, "n": 2000 * scale, "seed": s})
            for variant in ("compliant", "hostile_conn", "hostile_count", "compliant_uni"):
                fl.append({"gen": "flood_streams", "victim": victim, "variant": variant, "n": min(1500 * scale, 6000), "seed": s})
    # interleave so that a budget cut-off loses a bit of everything
    out = []
    k = max(1, len(b) // max(1, len(fl)))
    bi = iter(b)
    for f in fl:
        out.append(f)
        for _ in range(k):
            x = next(bi, None)
            if x is not None:
                out.append(x)
    out.extend(bi)
    return out


# ---------------------------------------------------------------------------------- set-up


_CFG_CACHE = {}


def _cached_make_configs(opts):
    """vf.simnet.make_configs spends ~0.1 s validating the RSA key on every call; build each distinct
    configuration once per process and hand out shallow copies (each pair sets its own secrets_log_file)."""
    import copy

    from ..simnet import make_configs

    key = json.dumps(opts, sort_keys=True)
    if key not in _CFG_CACHE:
        _CFG_CACHE[key] = make_configs(opts)
    c, s = _CFG_CACHE[key]
    return copy.copy(c), copy.copy(s)


def make_pair(cfg, stage="complete"):
    """Genuine pair with R's limits as configured. stage: complete | mid_server | mid_client
    (mid_X: X is the victim and has handshake keys but the handshake is not complete)."""
    from aioquic.quic.connection import QuicConnection

    from .. import puppet as _puppet
    from ..puppet import HandshakePair

    _puppet.make_configs = _cached_make_configs  # this process only

    class LimitPair(HandshakePair):
        def preset(self, conn):
            if "msb" in cfg:
                conn._local_max_streams_bidi.value = conn._local_max_streams_bidi.sent = cfg["msb"]
            if "msu" in cfg:
                conn._local_max_streams_uni.value = conn._local_max_streams_uni.sent = cfg["msu"]

        def start(self):
            self.preset(self.client)  # before connect(): transport parameters are serialised there
            super().start()
            self.server = QuicConnection(configuration=self.scfg, original_destination_connection_id=self.client_odcid, **self.server_conn_kwargs)
            self.preset(self.server)
            return self

    opts = {}
    if "md" in cfg:
        opts["max_data_server"] = opts["max_data_client"] = cfg["md"]
    if "msd" in cfg:
        opts["max_stream_data_server"] = opts["max_stream_data_client"] = cfg["msd"]
    pair = LimitPair(opts)
    if stage == "complete":
        pair.complete()
    else:
        pair.start()
        pair.now += 0.01
        pair.transfer("client")
        pair.now += 0.01
        pair.transfer("server", limit=None if stage == "mid_server" else 1)
    return pair


def make_puppet(pair, victim):
    from ..puppet import Puppet

    return Puppet(pair, me="client" if victim == "server" else "server")


def frames_of(views):
    out = []
    for v in views:
        if v.error is None:
            out.extend(v.frames)
    return out


def ack_prefix(pup):
    """ACK of everything R sent in the application space, except the packets the puppet pretends never arrived
    (pup.withheld: packets that carried a window update; R declares them lost once three later ones are acknowledged)."""
    lg = pup.tap.largest.get((pup.victim_name, "A"))
    if lg is None:
        return b""
    holes = sorted(n for n in getattr(pup, "withheld", ()) if 0 <= n <= lg)
    if not holes:
        return F.f_ack([(0, lg)])
    ranges, lo = [], 0
    for n in holes:
        if n > lo:
            ranges.append((lo, n - 1))
        lo = n + 1
    if lo <= lg:
        ranges.append((lo, lg))
    return F.f_ack(ranges[-16:]) if ranges else b""


WINDOW_UPDATES = ("MAX_DATA", "MAX_STREAM_DATA", "MAX_STREAMS_BIDI", "MAX_STREAMS_UNI", "MAX_STREAMS")


def withhold_updates(pup, views, res):
    """Lossy histories: the puppet never acknowledges (most of) R's packets that carry MAX_DATA / MAX_STREAM_DATA /
    MAX_STREAMS.  It did see the frames — the limits count as advertised — but R's loss detection will declare the
    packets lost while processing a later ACK that sits in front of in-limit STREAM / RESET_STREAM frames of the same
    packet, i.e. before R had a chance to transmit again."""
    rng = getattr(pup, "lossy_rng", None)
    if rng is None:
        return
    for v in views:
        if v.error is None and v.space == "A" and v.pn is not None and any(f["name"] in WINDOW_UPDATES for f in v.frames):
            res.count("o1_window_update_packets_seen")
            if rng.random() < 0.6:
                pup.withheld.add(v.pn)
                res.count("o1_window_update_packets_never_acked")


def r_closed(pup, views):
    """(code, is_app) if R closed (CONNECTION_CLOSE on the wire or ConnectionTerminated event)."""
    c = pup.close_code(views)
    if c is not None:
        return c[0], c[1]
    if pup.terminated is not None:
        return pup.terminated.error_code, False
    return None


def trim(pup):
    del pup.events[:]
    del pup.tap.packets[:]
    if len(pup.history) > 2000:
        del pup.history[:1000]


def merge(res, d):
    if d.get("harness_error"):
        res.inconclusive.append("forked history: " + d["harness_error"][-600:])
        return
    res.evaluations += d.get("evaluations", 0)
    res.nontrivial.update(d.get("nontrivial", []))
    for v in d.get("violations", []):
        res.violation(v["signature"], v["what"], v["case"], v.get("witness"))
    for k, v in d.get("counters", {}).items():
        if k != "violations_seen":
            res.count(k, v)
    for s in d.get("samples", []):
        res.sample(s, limit=2)
    res.inconclusive.extend(d.get("inconclusive", []))


# ---------------------------------------------------------------------------------- O1: op generation


class Ids:
    def __init__(self, p_is_client):
        self.p_bidi = 0 if p_is_client else 1
        self.p_uni = 2 if p_is_client else 3
        self.r_bidi = 1 if p_is_client else 0
        self.r_uni = 3 if p_is_client else 2


def contig_of(st):
    if st is None or not st.got or st.got[0][0] != 0:
        return 0
    return st.got[0][1]


def pick_sid(rng, model, ids, boundary):
    uni = rng.random() < 0.4
    base = ids.p_uni if uni else ids.p_bidi
    mine = sorted(s for s in model.streams if s & 3 == base and not model.streams[s].tainted)
    r = rng.random()
    if boundary:
        if r < 0.40 and mine:
            return rng.choice(mine)
        if r < 0.72:
            M = model.max_streams[uni]
            n = rng.choice([M - 2, M - 1, M - 1, M, M, M + 1, 2 * M, M + 1000, (1 << 60) - 1])
            return 4 * max(0, min(n, (1 << 60) - 1)) + base
        if r < 0.80:
            opened = sorted(s for s in model.r_opened if s & 3 == ids.r_bidi)
            if opened:
                return rng.choice(opened)
        if r < 0.88:
            return ids.r_bidi + 4 * rng.choice([0, 1, 5, 40, 127, 128, 1 << 40])
        if r < 0.94:
            return ids.r_uni + 4 * rng.choice([0, 0, 1, 7, 128, 1 << 40])
    else:
        if r < 0.70 and mine:
            return rng.choice(mine)
        if r < 0.80:
            opened = sorted(s for s in model.r_opened if s & 3 == ids.r_bidi)
            if opened:
                return rng.choice(opened)
    # next unused index of this type, sometimes skipping ahead within the limit
    used = [s // 4 for s in model.streams if s & 3 == base]
    n = (max(used) + 1) if used else 0
    M = model.max_streams[uni]
    if rng.random() < 0.3 and M - 1 > n:
        n = rng.choice([M - 1, rng.randrange(n, M)])
    return 4 * n + base


def pick_end(rng, model, sid, boundary):
    st = model.streams.get(sid)
    L = model.stream_limit(sid)
    hi = st.highest if st else 0
    fin = st.final if st and st.final is not None else None
    credit = model.max_data - model.conn_hi
    c = [L - 1, L, L, L + 1, 2 * L, hi - 1, hi, hi + 1, hi + credit - 1, hi + credit, hi + credit, hi + credit + 1]
    if fin is not None:
        c += [fin - 1, fin, fin, fin + 1]
    if hi > 1:
        # far below what was already received: as a final size (RESET_STREAM) this must never *give back* connection
        # credit; as a STREAM end it is a plain retransmission
        c += [0, hi // 2]
    if boundary:
        c += [VARINT_MAX, VARINT_MAX - 1, L + rng.randrange(1, 5000), 1 << 40]
    else:
        ct = contig_of(st)
        c += [ct + rng.choice([1, 10, 100, 700, 1000])] * 6 + [rng.randrange(0, L + 1)] * 3 + [L // 2 + 1, min(L, hi + credit) ]
    return max(0, min(VARINT_MAX, rng.choice(c)))


def gen_op(rng, model, ids, boundary, last_op):
    r = rng.random()
    if last_op is not None and r < 0.07:
        return dict(last_op)
    if r < 0.12:
        return {"kind": "NOISE", "which": rng.randrange(6), "v": rng.choice([0, 1, 1000, 1 << 30, 1 << 60])}
    sid = pick_sid(rng, model, ids, boundary)
    if r < 0.20:
        return {"kind": rng.choice(["STOP_SENDING", "STREAM_DATA_BLOCKED"]), "sid": sid, "v": rng.choice([0, 100, VARINT_MAX])}
    st = model.streams.get(sid)
    if r < 0.42:
        return {"kind": "RESET_STREAM", "sid": sid, "final": pick_end(rng, model, sid, boundary)}
    # STREAM
    L = model.stream_limit(sid)
    if rng.random() < 0.25:
        # offset at the limit boundary, end = offset + len (catches checks that compare the offset only)
        if boundary:
            off = max(0, rng.choice([L - 2, L - 1, L - 1, L, L + 1]))
        else:
            off = max(0, L - rng.choice([1, 2, 3, 50]))
        ln = rng.choice([0, 1, 1, 2, 3, 50])
        if not boundary:
            ln = max(0, min(ln, L - off))
    elif boundary and rng.random() < 0.12:
        off = VARINT_MAX - rng.choice([0, 1, 5])
        ln = rng.choice([1, 2, 6, 10])
    else:
        end = pick_end(rng, model, sid, boundary)
        if not boundary and rng.random() < 0.6:
            # contiguous in-order data: this is what makes R raise its limits
            ct = contig_of(st)
            ln = min(max(0, end - ct), 1000)
            if end - ln != ct:
                ln = min(rng.choice([0, 1, 2, 17, 100, 1000]), end)
        else:
            ln = min(rng.choice([0, 1, 1, 2, 3, 17, 100, 1000]), end)
        off = end - ln
    hi = st.highest if st else 0
    p_fin = 0.5 if (off + ln in (hi - 1, hi, hi + 1)) else 0.15
    return {"kind": "STREAM", "sid": sid, "off": off, "len": ln, "fin": rng.random() < p_fin}


def alloc_ok(model, op):
    if op["kind"] != "STREAM" or not op["len"]:
        return True
    return op["off"] + op["len"] - contig_of(model.streams.get(op["sid"])) <= ALLOC_CAP


def encode_op(op):
    k = op["kind"]
    if k == "STREAM":
        # data bytes identify their offset (mod 251); content is irrelevant to the property
        data = bytes((op["off"] + i) % 251 for i in range(op["len"]))
        return F.f_stream(op["sid"], op["off"], data, fin=op["fin"])
    if k == "RESET_STREAM":
        return F.f_reset_stream(op["sid"], 7, op["final"])
    if k == "STOP_SENDING":
        return F.f_stop_sending(op["sid"], 9)
    if k == "STREAM_DATA_BLOCKED":
        return F.f_stream_data_blocked(op["sid"], op["v"])
    w = op["which"]
    if w == 0:
        return F.f_ping()
    if w == 1:
        return F.f_max_data(op["v"])
    if w == 2:
        return F.f_data_blocked(op["v"])
    if w == 3:
        return F.f_streams_blocked(min(op["v"], 1 << 60), uni=bool(op["v"] & 1))
    if w == 4:
        return F.f_max_streams(min(op["v"], 1 << 60), uni=bool(op["v"] & 1))
    return F.f_padding(3) + F.f_ping()


# ---------------------------------------------------------------------------------- O1: evaluation


def hooked_window_open(R, model, op):
    """True when R's internal limits are ahead of what it advertised and the offered frame is within them."""
    try:
        if op["kind"] not in ("STREAM", "RESET_STREAM"):
            uni = bool(op["sid"] & 2)
            lim = R._local_max_streams_uni if uni else R._local_max_streams_bidi
            return lim.value > model.max_streams[uni] and op["sid"] // 4 + 1 <= lim.value
        end = op["off"] + op["len"] if op["kind"] == "STREAM" else op["final"]
        uni = bool(op["sid"] & 2)
        lim = R._local_max_streams_uni if uni else R._local_max_streams_bidi
        s = R._streams.get(op["sid"])
        ahead = R._local_max_data.value > model.max_data or lim.value > model.max_streams[uni]
        if s is not None and s.max_stream_data_local > model.stream_limit(op["sid"]):
            ahead = True
            if end > s.max_stream_data_local:
                return False
        return ahead
    except Exception:
        return False


def note_recount_risk(R, model, pre_reset, ops):
    """Diagnosis for signatures only: a frame is about to reach a stream P has reset while R's hooked
    receiver.highest_offset for it is still below the reset's final size, so R would charge those bytes again."""
    try:
        reset = dict(pre_reset)
        high = {}
        for op in ops:
            if op["kind"] not in ("STREAM", "RESET_STREAM"):
                continue
            sid = op["sid"]
            if sid not in high:
                rs = R._streams.get(sid)
                if rs is None and sid in R._streams_finished:
                    high[sid] = VARINT_MAX  # R has discarded the stream and ignores its frames
                else:
                    high[sid] = rs.receiver.highest_offset if rs is not None else 0
            end = op["off"] + op["len"] if op["kind"] == "STREAM" else op["final"]
            if sid in reset and reset[sid] > high[sid] and end > high[sid]:
                model.diag_risk_now = True  # this packet only
            if op["kind"] == "RESET_STREAM":
                reset.setdefault(sid, end)
            else:
                high[sid] = max(high[sid], end)
    except Exception:
        pass


def recount_evidence(R, model):
    """Names the mechanism of a spurious FLOW_CONTROL_ERROR (signature only, never the verdict): R has charged more
    bytes to the connection than P sent, or holds a reset stream whose final size it did not record as received."""
    try:
        if not model.resets:
            return False
        if getattr(model, "diag_overcount", False) or getattr(model, "diag_risk_now", False) or R._local_max_data.used > model.conn_hi:
            return True
        # R stopped somewhere inside the packet: its counter must equal the peer's total after one of the prefixes
        if R._local_max_data.used not in getattr(model, "diag_prefix_totals", [R._local_max_data.used]):
            return True
        for s in R._streams.values():
            fs = s.receiver._final_size
            if fs is not None and s.receiver.highest_offset < fs:
                return True
    except Exception:
        pass
    return False


SIG_TAGS = ("at-stream-limit", "at-conn-limit", "at-stream-count-limit")  # boundary the accused peer was sitting on
VIOLATION_TAGS = ("over-stream-limit", "over-conn-limit", "stream-count", "beyond-final-size", "final-size-changed",
                  "send-only-stream", "receive-only-stream", "wrong-initiator", "over-varint")


def vtags(v):
    return ",".join(t for t in VIOLATION_TAGS if t in v.tags) or "none"


def evaluate(res, case, pup, model, ops, verdicts, closed, R):
    """Compare R's reaction to one packet carrying `ops` with the model's verdicts."""
    first_rej = next((i for i, v in enumerate(verdicts) if v.kind == "reject"), None)
    upto = len(verdicts) if first_rej is None else first_rej
    either_before = any(v.kind == "either" for v in verdicts[:upto])
    res.count("o1_frames_classified", len(ops))
    for v in verdicts:
        res.count("o1_class_" + v.kind)
    outcome = "closed:" + code_name(closed[0]) if closed else "open"
    res.count("o1_outcome_" + outcome)
    wit = {
        "ops": ops, "verdicts": [repr(v) for v in verdicts], "outcome": outcome,
        "advertised": {"max_data": model.max_data, "max_streams_bidi": model.max_streams[False], "max_streams_uni": model.max_streams[True],
                       "stream_limits": {str(o.get("sid")): model.stream_limit(o["sid"]) for o in ops if "sid" in o}},
        "peer_sent": {"conn_lo": model.conn_lo, "conn_hi": model.conn_hi},
    }
    if either_before:
        res.count("o1_either_packets")
        if closed:
            res.count("obs_either_closed_" + code_name(closed[0]))
        return
    if first_rej is None:
        res.count("o1_must_accept_checked", len(ops))
        at_count = any(
            o.get("sid") is not None and o["kind"] != "NOISE" and (o["sid"] & 1 == 0) != model.r_is_client
            and o["sid"] // 4 + 1 == model.max_streams[bool(o["sid"] & 2)] for o in ops
        )
        if any("at-stream-limit" in v.tags or "at-conn-limit" in v.tags for v in verdicts) or at_count:
            if not closed:
                res.count("o1_at_limit_accepted")
        if closed:
            code = closed[0]
            last = ops[-1]
            tags = sorted({t for v in verdicts for t in v.tags if t in SIG_TAGS} | ({"at-stream-count-limit"} if at_count else set()))
            kinds = "+".join(sorted({o["kind"] for o in ops}))
            if code == FLOW_CONTROL_ERROR and not closed[1] and recount_evidence(R, model):
                sig = "O1:accused-within-limits:FLOW_CONTROL_ERROR:bytes-counted-twice-after-RESET_STREAM"
            elif code in LIMIT_CODES and not closed[1]:
                sig = "O1:accused-within-limits:%s:%s" % (code_name(code), ",".join(tags) or "below-every-limit")
            else:
                sig = "O1:closed-without-cause:%s:%s" % (code_name(code), kinds)
            res.violation(sig, "peer within every advertised limit, R closed with %s (last frame %r)" % (code_name(code), last), case, wit)
        return
    v = verdicts[first_rej]
    op = ops[first_rej]
    res.count("o1_must_reject_checked")
    res.count("o1_reject_expected_" + "+".join(sorted(v.tags)))
    if not closed:
        if hooked_window_open(R, model, op):
            res.count("obs_limit_raised_before_advertised")
            return
        res.violation(
            "O1:limit-not-enforced:%s:%s" % (op["kind"], vtags(v)),
            "frame %r is beyond what R advertised (%s) but R did not close" % (op, v.why), case, wit,
        )
        return
    code = closed[0]
    if closed[1] or code not in v.codes:
        sig = "O1:wrong-close-code:%s:%s:got-%s" % (op["kind"], vtags(v), code_name(code))
        if code == FLOW_CONTROL_ERROR and not closed[1] and recount_evidence(R, model):
            sig = "O1:accused-within-limits:FLOW_CONTROL_ERROR:bytes-counted-twice-after-RESET_STREAM"
        res.violation(
            sig,
            "frame %r violates %s; expected one of %s, R closed with %s" % (op, v.why, sorted(code_name(c) for c in v.codes), code_name(code)), case, wit,
        )
    else:
        res.count("o1_rejected_with_matching_code")


def step_packet(res, case, pup, model, ops, R, no_cycle=False):
    """Send ops in one 1-RTT packet (after an ACK of everything R sent). Returns (closed, verdicts).
    no_cycle: R gets no send cycle after the datagram (back-to-back arrival) unless it wants to close."""
    from ..simnet import ApiRaised

    verdicts = []
    pre_reset = {sid: st.final for sid, st in model.streams.items() if st.reset}
    model.diag_risk_now = False
    model.diag_prefix_totals = [model.conn_hi]
    for op in ops:
        v = model.classify(op)
        verdicts.append(v)
        if v.kind == "reject":
            break
        model.apply(op, v)
        model.diag_prefix_totals.append(model.conn_hi)
    sent_ops = ops[: len(verdicts)]
    note_recount_risk(R, model, pre_reset, sent_ops)
    del model.diag_prefix_totals[len(sent_ops):]  # a packet R closed on was processed up to, at most, its last-but-one frame
    payload = ack_prefix(pup) + b"".join(encode_op(o) for o in sent_ops)
    if len(payload) > MAX_PAYLOAD:
        raise RuntimeError("harness: packet payload of %d bytes would be dropped by R" % len(payload))
    try:
        if no_cycle:
            pup.now += 0.0001
            pup.call("receive_datagram", pup.packet("1rtt", payload), pup.addr, now=pup.now)
            views = pup.transmit() if (R._close_pending or R._state.name != "CONNECTED") else []
        else:
            views = pup.deliver(pup.packet("1rtt", payload))
            views += pup.cycle(steps=3, max_advance=0.02)
    except ApiRaised as exc:
        res.count("obs_api_raised_" + type(exc.exc).__name__)  # totality is C05's property
        return ("api", False), verdicts
    model.on_r_frames(frames_of(views))
    withhold_updates(pup, views, res)
    if not no_cycle:
        model.on_r_cycled()
    closed = r_closed(pup, views)
    evaluate(res, case, pup, model, sent_ops, verdicts, closed, R)
    if not closed and R._local_max_data.used > model.conn_hi:
        model.diag_overcount = True  # diagnosis for signatures only (see recount_evidence)
    return closed, verdicts


def run_history(pup, model, seed, case, max_len=200):
    res = Result()
    rng = random.Random(seed)
    ids = Ids(pup.me_name == "client")
    R = pup.victim
    n_target = rng.choice([5, 8, 12, 20, 30, 50, 80, 120, 200])
    n_target = min(n_target, max_len)
    kill_at = rng.randrange(2, n_target + 1)
    raises0 = model.raises
    sig = []
    last_op = None
    closed = None
    step = 0
    pup.withheld = set()
    r_loss = random.Random("c07-lossy/%s" % seed)
    pup.lossy_rng = r_loss if r_loss.random() < 0.35 else None
    if pup.lossy_rng is not None:
        res.count("o1_lossy_histories")
    r_stop = random.Random("c07-localstop/%s" % seed)
    local_stops = r_stop.random() < 0.3
    stopped = set()
    p_is_client = pup.me_name == "client"
    for step in range(1, n_target + 1):
        if local_stops and r_stop.random() < 0.1:
            # R's own application loses interest in a stream P is still sending on (stop_stream -> STOP_SENDING): what P
            # keeps sending within the advertised limits is as legal as before and is charged once
            cands = [sid for sid, st in sorted(model.streams.items())
                     if sid not in stopped and st.final is None and not st.reset and (not (sid & 2) or (sid & 1) == (0 if p_is_client else 1))]
            if cands:
                sid = r_stop.choice(cands)
                stopped.add(sid)
                try:
                    pup.call("stop_stream", sid, 9)
                    res.count("o1_local_stop_stream_calls")
                except Exception as exc:
                    res.count("obs_local_stop_stream_raised_" + type(getattr(exc, "exc", exc)).__name__)
        boundary = step >= kill_at and rng.random() < 0.6
        if boundary and rng.random() < 0.5:
            kill_at = step + rng.randrange(1, 30)  # survived probes: keep going for a while
        nops = rng.choice([1, 1, 1, 1, 2, 2, 3])
        ops = []
        room = MAX_PAYLOAD - max(60, len(ack_prefix(pup)) + 16)
        for _ in range(nops):
            op = None
            for _try in range(25):
                cand = gen_op(rng, model, ids, boundary, last_op)
                if len(encode_op(cand)) > room:
                    continue
                if cand["kind"] != "NOISE" and cand["kind"] in ("STREAM", "RESET_STREAM") and not alloc_ok(model, cand):
                    continue
                if boundary:
                    op = cand
                    break
                # benign step: only frames the model accepts (the model state moves as ops are appended,
                # so classify against a packet-local copy)
                if _accepts(model, ops, cand):
                    op = cand
                    break
                # ... plus RESET_STREAM frames whose final size lies below what was already received: R lets them pass
                # (the property only speaks of sizes *beyond* a limit) but they must never hand back connection credit,
                # which only shows if the history goes on to the connection limit afterwards
                if cand["kind"] == "RESET_STREAM" and not ops and rng.random() < 0.7:
                    v = model.classify(cand)
                    if v.kind == "either" and "final-size-below-received" in v.tags:
                        op = cand
                        res.count("o1_benign_low_final_resets")
                        break
            if op is None:
                op = {"kind": "NOISE", "which": 0, "v": 0}
            room -= len(encode_op(op))
            ops.append(op)
            last_op = op
        nviol = len(res.violations)
        closed, verdicts = step_packet(res, case, pup, model, ops, R)
        if len(res.violations) > nviol and not closed:
            closed = ("violation", False)  # model and R disagree from here on: end of history
        sig.append((tuple(o["kind"][:3] for o in ops[: len(verdicts)]), tuple(tuple(sorted(v.tags)) for v in verdicts), bool(closed)))
        if closed:
            break
    res.evaluations += 1
    res.count("o1_histories")
    res.count("o1_packets", step)
    res.count("o1_r_limit_raises_seen", model.raises - raises0)
    if res.counters.get("o1_at_limit_accepted") or res.counters.get("o1_must_reject_checked"):
        res.nontrivial.add("lim:" + h(case.get("victim"), case.get("cfg"), tuple(sig[-12:]), len(sig) // 10))
    res.sample({"case": case, "packets": step, "closed": code_name(closed[0]) if closed and isinstance(closed[0], int) else str(closed),
                "raises": model.raises - raises0, "advertised_max_data": model.max_data, "last": sig[-2:]}, limit=1)
    return res.as_dict()


def _accepts(model, ops_so_far, cand):
    import copy

    if not ops_so_far:
        return model.classify(cand).kind == "accept"
    m = copy.deepcopy(model)
    for o in ops_so_far:
        v = m.classify(o)
        if v.kind == "reject":
            return False
        m.apply(o, v)
    return m.classify(cand).kind == "accept"


def prepare_limits(batch):
    cfg = CFGS[batch["cfg"]]
    pair = make_pair(cfg)
    pup = make_puppet(pair, batch["victim"])
    tp = wire_transport_parameters(pair)[batch["victim"]]
    need = ("initial_max_data", "initial_max_stream_data_bidi_local", "initial_max_stream_data_bidi_remote", "initial_max_stream_data_uni",
            "initial_max_streams_bidi", "initial_max_streams_uni")
    if any(k not in tp for k in need):
        raise RuntimeError("could not read R's transport parameters from the wire: %r" % (tp,))
    model = RecvModel(batch["victim"] == "client", tp)
    R = pup.victim
    if cfg.get("ropen"):
        # workload set-up: R's application opens a bidirectional stream of its own (P may then send on it)
        ids = Ids(pup.me_name == "client")
        pup.call("send_stream_data", ids.r_bidi, b"hello from R", False)
        pup.call("send_stream_data", ids.r_uni, b"uni from R", False)
        views = pup.transmit()
        views += pup.send("1rtt", ack_prefix(pup) + F.f_ping())
        model.on_r_frames(frames_of(views))
    return pair, pup, model, tp


def gen_limits(batch, res):
    pair, pup, model, tp = prepare_limits(batch)
    cfg = CFGS[batch["cfg"]]
    # sanity of the wire reader (harness check, not the property): what we configured is what R sent
    if tp["initial_max_data"] != cfg["md"] or tp["initial_max_streams_bidi"] != cfg["msb"]:
        raise RuntimeError("transport parameters on the wire %r differ from configuration %r" % (tp, cfg))
    todo = batch.get("only") or list(range(batch["n"]))
    for i in todo:
        if i != todo[0]:
            pair, pup, model, tp = prepare_limits(batch)  # every history starts from a fresh genuine handshake
        case = {"gen": "limits", "victim": batch["victim"], "cfg": batch["cfg"], "seed": batch["seed"], "n": batch["n"], "only": [i]}
        merge(res, run_history(pup, model, batch["seed"] * 7919 + i, case, batch.get("max_len", 200)))


# ---------------------------------------------------------------------------------- O2: measurement


def consts():
    import aioquic.quic.connection as qc

    c = {k: getattr(qc, k) for k in ("MAX_PENDING_CRYPTO", "MAX_REMOTE_CHALLENGES", "MAX_PENDING_RETIRES")}
    # documented in connection.py ("bound the number of paths a peer can make us remember")
    c["MAX_NETWORK_PATHS"] = getattr(qc, "MAX_NETWORK_PATHS", None)
    return c


NAMED_FIRST = ["_streams", "_streams_queue", "_crypto_streams", "_crypto_buffers", "_network_paths", "_retire_connection_ids",
               "_peer_cid_available", "_local_challenges", "_host_cids", "_datagrams_pending", "tls"]
OBS_ONLY = {"_streams_finished", "_peer_cid_sequence_numbers", "_loss", "_spaces", "_events", "_configuration", "_quic_logger",
            "_cryptos", "_cryptos_initial", "_logger", "_close_event", "_peer_cid"}
CRYPTO_ATTRS = {"_crypto_streams", "_crypto_buffers", "tls"}
STREAM_ATTRS = {"_streams", "_streams_queue"}
SLACK = 65536


def biggest_part(R, attr):
    """attr, or attr.<sub-attribute holding most payload> when the attribute is a plain object (naming only)."""
    try:
        obj = getattr(R, attr)
        d = vars(obj)
    except Exception:
        return attr
    best, size = None, 0
    for k, v in d.items():
        try:
            n = len(v) if isinstance(v, (bytes, bytearray, str, list, dict, set, tuple)) or type(v).__name__ == "deque" else 0
        except Exception:
            n = 0
        if n > size:
            best, size = k, n
    return "%s.%s" % (attr, best) if best else attr


class Walker:
    """Generic reachable-bytes measurement, attributed per attribute of the connection."""

    def __init__(self, R):
        self.R = R
        self.base = None

    def walk(self):
        # named structures first so that shared objects are charged to them
        return reachable(self.R, first=NAMED_FIRST)

    def baseline(self):
        self.base = self.walk()

    def growth(self):
        now = self.walk()
        return {k: (now[k][0] - self.base.get(k, (0, 0))[0], now[k][1] - self.base.get(k, (0, 0))[1]) for k in now}


class Bounds:
    """Evaluates the hooked measures against advertised / documented bounds."""

    def __init__(self, res, case, pup, model, tp):
        self.res, self.case, self.pup, self.model, self.tp = res, case, pup, model, tp
        self.R = pup.victim
        self.c = consts()
        self.acl = tp.get("active_connection_id_limit", 2)
        self.unacked_retire = set()  # seqs of RETIRE_CONNECTION_ID frames R sent that P never acknowledged
        self.max = {}

    def note_views(self, views, acked):
        for f in frames_of(views):
            if f["name"] == "RETIRE_CONNECTION_ID" and not acked:
                self.unacked_retire.add(f["seq"])

    def _mx(self, k, v):
        if v > self.max.get(k, -1):
            self.max[k] = v

    def measure(self, closed):
        R, res, model = self.R, self.res, self.model
        res.count("o2_measurements")
        if closed or R._state.name != "CONNECTED" or R._close_pending:
            res.count("o2_measurements_after_close_skipped")
            return
        total = 0
        for sid, s in R._streams.items():
            held = len(s.receiver._buffer)
            total += held
            self._mx("stream_held", held)
            if held > model.stream_limit(sid):
                res.violation("O2:bound:stream-held-exceeds-advertised-stream-limit", "stream %d holds %d bytes, advertised limit %d" % (sid, held, model.stream_limit(sid)), self.case, self.snapshot())
        self._mx("streams_total_held", total)
        if total > model.max_data:
            res.violation("O2:bound:streams-held-exceed-advertised-max_data", "streams hold %d bytes for reassembly, advertised max_data %d" % (total, model.max_data), self.case, self.snapshot())
        for uni in (False, True):
            n = sum(1 for sid in R._streams if bool(sid & 2) == uni and model.r_initiated(sid) is False)
            self._mx("open_peer_streams_" + ("uni" if uni else "bidi"), n)
            if n > model.max_streams[uni]:
                res.violation("O2:bound:open-peer-streams-exceed-advertised-max_streams", "%d open peer-initiated %s streams, advertised %d" % (n, "uni" if uni else "bidi", model.max_streams[uni]), self.case, self.snapshot())
        for epoch, s in R._crypto_streams.items():
            held = len(s.receiver._buffer)
            self._mx("crypto_held", held)
            if held > self.c["MAX_PENDING_CRYPTO"]:
                res.violation("O2:bound:crypto-held-exceeds-MAX_PENDING_CRYPTO", "crypto stream %s holds %d bytes, MAX_PENDING_CRYPTO %d" % (getattr(epoch, "name", epoch), held, self.c["MAX_PENDING_CRYPTO"]), self.case, self.snapshot())
        for p in R._network_paths:
            n = len(p.remote_challenges)
            self._mx("challenges_per_path", n)
            if n > self.c["MAX_REMOTE_CHALLENGES"]:
                res.violation("O2:bound:remote-challenges-per-path-exceed-MAX_REMOTE_CHALLENGES", "path %r queues %d challenges, MAX_REMOTE_CHALLENGES %d" % (p.addr, n, self.c["MAX_REMOTE_CHALLENGES"]), self.case, self.snapshot())
        self._mx("network_paths", len(R._network_paths))
        if self.c.get("MAX_NETWORK_PATHS") is not None and len(R._network_paths) > self.c["MAX_NETWORK_PATHS"]:
            res.violation("O2:bound:remembered-paths-exceed-MAX_NETWORK_PATHS", "%d network paths remembered (%d of them validated), MAX_NETWORK_PATHS %d" % (
                len(R._network_paths), sum(1 for p in R._network_paths if p.is_validated), self.c["MAX_NETWORK_PATHS"]), self.case, self.snapshot())
        self._mx("challenges_all_paths", sum(len(p.remote_challenges) for p in R._network_paths))
        nret = len(R._retire_connection_ids)
        self._mx("pending_retirements", nret)
        # documented: check is made after the frame's retirements were appended (one frame retires at most
        # active_connection_id_limit ids) and lost RETIRE frames are put back (at most those R sent unacknowledged)
        bound = min(4 * self.acl, self.c["MAX_PENDING_RETIRES"]) + self.acl + len(self.unacked_retire)
        if nret > bound:
            res.violation("O2:bound:pending-retirements-exceed-documented-bound", "%d pending RETIRE_CONNECTION_ID, bound %d (= min(4*%d, %d) + %d + %d unacknowledged)" % (nret, bound, self.acl, self.c["MAX_PENDING_RETIRES"], self.acl, len(self.unacked_retire)), self.case, self.snapshot())
        held_ids = 1 + len(R._peer_cid_available)
        self._mx("peer_cids_held", held_ids)
        if held_ids > self.acl:
            res.violation("O2:bound:peer-connection-ids-exceed-active_connection_id_limit", "%d peer-issued connection IDs held, advertised active_connection_id_limit %d" % (held_ids, self.acl), self.case, self.snapshot())

    def snapshot(self):
        R = self.R
        return {
            "max": dict(self.max), "constants": self.c, "active_connection_id_limit": self.acl,
            "advertised": {"max_data": self.model.max_data, "max_streams_bidi": self.model.max_streams[False], "max_streams_uni": self.model.max_streams[True]},
            "network_paths": len(R._network_paths), "pending_retirements": len(R._retire_connection_ids), "peer_cid_available": len(R._peer_cid_available),
            "streams": len(R._streams), "state": R._state.name,
        }

    def check_growth(self, growth, frames, crypto_epochs=1):
        """Generic walk: growth per attribute since the baseline vs. the bound that applies to it."""
        res, model = self.res, self.model
        res.count("o2_walks")
        allowed = {}
        stream_allow = model.max_data + 2048 * (model.max_streams[False] + model.max_streams[True] + len(model.r_opened)) + SLACK
        crypto_allow = crypto_epochs * self.c["MAX_PENDING_CRYPTO"] + SLACK
        g_stream = sum(growth.get(a, (0, 0))[0] for a in STREAM_ATTRS)
        g_crypto = sum(growth.get(a, (0, 0))[0] for a in CRYPTO_ATTRS)
        report = {}
        if g_stream > stream_allow:
            report["_streams"] = (g_stream, stream_allow)
        if g_crypto > crypto_allow:
            worst = max(CRYPTO_ATTRS, key=lambda a: growth.get(a, (0, 0))[0])
            report[worst] = (g_crypto, crypto_allow)
        for a, (b, o) in growth.items():
            if a == "*" or a in STREAM_ATTRS or a in CRYPTO_ATTRS:
                continue
            if b > SLACK:
                if a in OBS_ONLY:
                    res.count("obs_growth_" + a)
                    res.count("obs_growth_bytes_" + a, b)
                else:
                    report[a] = (b, SLACK)
        for a, (b, allow) in sorted(report.items()):
            res.violation(
                "O2:reachable-bytes-exceed-bound:%s" % biggest_part(self.R, a),
                "after %d frames the payload bytes reachable through connection.%s grew by %d (bound for this structure + fixed slack = %d)" % (frames, a, b, allow),
                self.case, {"growth": {k: v for k, v in growth.items() if v[0] > 4096}, **self.snapshot()},
            )
        return report


# ---------------------------------------------------------------------------------- O2: floods


def flood_setup(batch, cfg, stage="complete"):
    pair = make_pair(cfg, stage)
    pup = make_puppet(pair, batch["victim"])
    tp = wire_transport_parameters(pair)[batch["victim"]]
    if "initial_max_data" not in tp:
        raise RuntimeError("could not read R's transport parameters from the wire (%s): %r" % (stage, tp))
    model = RecvModel(batch["victim"] == "client", tp)
    return pair, pup, model, tp


RELEVANT = {
    "flood_crypto": ("crypto_held", "tls_receive_buffer"),
    "flood_challenge": ("challenges_per_path", "challenges_all_paths", "network_paths"),
    "flood_ncid": ("pending_retirements", "peer_cids_held"),
    "flood_streams": ("stream_held", "streams_total_held", "open_peer_streams_bidi", "open_peer_streams_uni"),
}


def _vlabel(batch):
    v = batch.get("variant", "")
    return "%s%d" % (v, batch["per"]) if "per" in batch else v


def flood_finish(res, batch, bounds, frames, closed, extra=None):
    res.evaluations += 1
    res.count("o2_flood_runs")
    res.count("o2_flood_frames", frames)
    out = "closed:" + code_name(closed[0]) if closed else "open"
    res.count("o2_%s_%s_%s" % (batch["gen"], _vlabel(batch), out))
    for k in RELEVANT[batch["gen"]]:
        if k in bounds.max:  # summed over runs by the runner: divide by o2_runs_<gen>_<variant>
            res.count("o2sum_%s_%s_%s" % (batch["gen"][6:], _vlabel(batch), k), bounds.max[k])
    res.count("o2_runs_%s_%s" % (batch["gen"][6:], _vlabel(batch)))
    if frames >= min(batch["n"], 1000) or closed:
        res.nontrivial.add("flood:%s:%s:%s:%s:%s" % (batch["gen"], batch["victim"], batch.get("space", ""), _vlabel(batch), out))
    s = {"case": batch, "frames": frames, "outcome": out, "max": bounds.max}
    if extra:
        s.update(extra)
    res.sample(s)


def gen_flood_crypto(batch, res):
    """CRYPTO at growing offsets with a permanent gap ('gap'), or contiguous CRYPTO data that begins a
    TLS message announcing 2^24-1 bytes ('contig'): handshake data held must stay within MAX_PENDING_CRYPTO."""
    from ..simnet import ApiRaised

    space = batch["space"]
    stage = "complete" if space == "1rtt" else ("mid_server" if batch["victim"] == "server" else "mid_client")
    pair, pup, model, tp = flood_setup(batch, {}, stage)
    R = pup.victim
    rng = random.Random(batch["seed"])
    b = Bounds(res, batch, pup, model, tp)
    w = Walker(R)
    w.baseline()
    cap = b.c["MAX_PENDING_CRYPTO"]
    n = batch["n"]
    closed = None
    frames = 0
    if batch["variant"] == "gap":
        # offsets far beyond anything the genuine handshake occupies: the gap below them is never filled
        base = 60000
        # first 60 %: within the documented bound, growing; then beyond it, up to 2^62-1
        offs = []
        for i in range(n):
            if i < n * 6 // 10:
                offs.append(base + (cap - base - 2000) * i // max(1, n * 6 // 10))
            else:
                j = i - n * 6 // 10
                offs.append(rng.choice([cap - 1200 + j * 7, cap + j * 1000, 2 * cap + j, cap * 8 + j * 4096, VARINT_MAX - 1100 - j]))
    else:
        offs = None
    from aioquic import tls as _tls

    start = R._crypto_streams[_tls.Epoch.ONE_RTT].receiver.starting_offset() if space == "1rtt" else None
    pos = start
    for i in range(n):
        if offs is not None:
            ln = rng.choice([1, 10, 200, 1000])
            off = min(offs[i], VARINT_MAX - ln)
            data = bytes(ln)
        else:
            data = (bytes([4]) + (0xFFFFFF).to_bytes(3, "big") + bytes(1096)) if i == 0 else bytes(1100)
            off = pos
            pos += len(data)
        ack = ack_prefix(pup) if space == "1rtt" else b""
        try:
            views = pup.deliver(pup.packet(space, ack + F.f_crypto(off, data)))
        except ApiRaised as exc:
            res.count("obs_api_raised_" + type(exc.exc).__name__)
            break
        frames += 1
        closed = r_closed(pup, views)
        if frames % 100 == 0 or closed:
            b.measure(closed)
            trim(pup)
        if closed:
            break
    b.measure(closed)
    if not closed or batch["variant"] == "contig":
        g = w.growth()
        b._mx("tls_receive_buffer", len(getattr(R.tls, "_receive_buffer", b"")))
        b.check_growth(g, frames)
    if closed and closed[0] not in (CRYPTO_BUFFER_EXCEEDED,):
        res.count("obs_flood_crypto_closed_" + code_name(closed[0]))
    flood_finish(res, batch, b, frames, closed)


def gen_flood_challenge(batch, res):
    """PATH_CHALLENGE with distinct data: same source address (R answers each / R gets no send cycle in between),
    a new source address per datagram (probing only / promoted by a non-probing frame), 8 addresses in bursts."""
    from ..simnet import ApiRaised

    pair, pup, model, tp = flood_setup(batch, {})
    R = pup.victim
    b = Bounds(res, batch, pup, model, tp)
    w = Walker(R)
    n = batch["n"]
    variant = batch["variant"]
    closed = None
    frames = 0
    base_done = False
    if variant == "lost_responses":
        # packets with 32 PATH_CHALLENGE frames each; P never acknowledges the packets that carry R's PATH_RESPONSEs and
        # every few rounds acknowledges only R's newest packet, so that R declares all the earlier ones lost at once:
        # whatever R does about lost responses, the queue per path stays within its documented bound
        rng = random.Random("c07-lost-responses/%s" % batch["seed"])
        k = 0
        for rnd in range(max(1, n // 400)):
            try:
                for _ in range(rng.choice([2, 4, 8])):
                    payload = b"".join(F.f_path_challenge((batch["seed"] * 1000003 + k + j).to_bytes(8, "big", signed=False)[-8:]) for j in range(32))
                    k += 32
                    views = pup.deliver(pup.packet("1rtt", payload))
                    frames += 32
                    closed = r_closed(pup, views)
                    b.measure(closed)
                    if closed:
                        break
                if closed:
                    break
                lg = pup.tap.largest.get((pup.victim_name, "A"))
                sel = F.f_ack([(lg, lg)]) if (lg is not None and rng.random() < 0.7) else ack_prefix(pup)
                views = pup.deliver(pup.packet("1rtt", sel + F.f_ping()))
                views += pup.cycle(steps=2, max_advance=rng.choice([0.0, 0.02, 0.5]))
                res.count("o2_selective_acks_after_challenge_floods")
            except ApiRaised as exc:
                res.count("obs_api_raised_" + type(exc.exc).__name__)
                break
            closed = r_closed(pup, views)
            b.measure(closed)
            trim(pup)
            if closed:
                break
        b.measure(closed)
        flood_finish(res, batch, b, frames, closed)
        return
    for i in range(n):
        data = (batch["seed"] * 1000003 + i).to_bytes(8, "big", signed=False)[-8:]
        addr = None
        payload = F.f_path_challenge(data)
        if variant in ("vary_probe", "vary_promote"):
            addr = ("10.%d.%d.%d" % ((i >> 16) & 255, (i >> 8) & 255, i & 255), 1024 + (i % 60000))
            if variant == "vary_promote":
                payload = F.f_ping() + payload
        elif variant == "few_burst":
            addr = ("10.9.9.%d" % (i % 8), 4000 + i % 8)
        elif variant == "vary_validated":
            # a peer that really owns every address it sends from: a non-probing packet from a new address, then the
            # echo of whatever PATH_CHALLENGE the victim sent there — every one of these paths ends up validated
            addr = ("10.%d.%d.%d" % ((i >> 16) & 255, (i >> 8) & 255, i & 255), 1024 + (i % 60000))
            try:
                views = pup.deliver(pup.packet("1rtt", ack_prefix(pup) + F.f_ping()), addr=addr)
                echoes = [f["data"] for v in views for f in v.frames if f["name"] == "PATH_CHALLENGE"]
                closed = r_closed(pup, views)
                if echoes and not closed:
                    res.count("o2_path_challenges_echoed", len(echoes))
                    views = pup.deliver(pup.packet("1rtt", b"".join(F.f_path_response(e) for e in echoes) + F.f_ping()), addr=addr)
                    closed = r_closed(pup, views)
            except ApiRaised as exc:
                res.count("obs_api_raised_" + type(exc.exc).__name__)
                break
            frames += 1
            res.maxc("o2_validated_paths_remembered_max", sum(1 for q in R._network_paths if q.is_validated))
            if frames == 100 and not base_done:
                w.baseline()
                base_done = True
            if frames % 25 == 0 or closed:
                b.measure(closed)
                trim(pup)
            if closed:
                break
            continue
        try:
            if variant in ("same_burst", "few_burst") and i % 200 != 199:
                pup.now += 0.0001
                pup.call("receive_datagram", pup.packet("1rtt", payload), addr or pup.addr, now=pup.now)
                views = []
                if R._state.name != "CONNECTED" or R._close_pending:
                    views = pup.transmit()
            else:
                views = pup.deliver(pup.packet("1rtt", ack_prefix(pup) + payload if variant != "vary_probe" else payload), addr=addr)
        except ApiRaised as exc:
            res.count("obs_api_raised_" + type(exc.exc).__name__)
            break
        frames += 1
        closed = r_closed(pup, views)
        if frames == 100 and not base_done:
            w.baseline()
            base_done = True
        if frames % 100 == 0 or closed:
            b.measure(closed)
            trim(pup)
        if closed:
            break
    b.measure(closed)
    if base_done and not closed:
        b.check_growth(w.growth(), frames)
    flood_finish(res, batch, b, frames, closed)


def gen_flood_ncid(batch, res):
    """NEW_CONNECTION_ID: increasing retire_prior_to while P never acknowledges ('noack'), with no send cycle for R in
    between ('burst'), acknowledging everything ('ack'); or issuing IDs without retiring any ('fill'); 'late_*': frames
    whose never-seen sequence number lies below an already delivered Retire Prior To (see _late_ncid)."""
    from ..simnet import ApiRaised

    pair, pup, model, tp = flood_setup(batch, {})
    R = pup.victim
    b = Bounds(res, batch, pup, model, tp)
    w = Walker(R)
    rng = random.Random(batch["seed"])
    n = batch["n"]
    variant = batch["variant"]
    closed = None
    frames = 0
    base_done = False
    cid_len = len(pup.my_cid)
    if variant.startswith("late"):
        frames, closed = _late_ncid(batch, res, pup, R, b, w, rng, cid_len)
        b.measure(closed)
        if not closed and w.base is not None:
            b.check_growth(w.growth(), frames)
        if closed and closed[0] != CONNECTION_ID_LIMIT_ERROR:
            res.count("obs_flood_ncid_closed_" + code_name(closed[0]))
        flood_finish(res, batch, b, frames, closed)
        return
    for i in range(1, n + 1):
        cid = (0xC0DE0000 + i).to_bytes(cid_len, "big")
        token = rng.getrandbits(128).to_bytes(16, "big")
        rpt = 0 if variant == "fill" else (i if rng.random() < 0.8 else max(0, i - rng.randrange(0, 4)))
        fr = F.f_new_connection_id(i, rpt, cid, token)
        acked = variant in ("ack", "fill")
        try:
            if variant == "burst":
                pup.now += 0.0001
                pup.call("receive_datagram", pup.packet("1rtt", fr), pup.addr, now=pup.now)
                views = []
                if R._state.name != "CONNECTED" or R._close_pending:
                    views = pup.transmit()
            else:
                views = pup.deliver(pup.packet("1rtt", (ack_prefix(pup) if acked else b"") + fr))
        except ApiRaised as exc:
            res.count("obs_api_raised_" + type(exc.exc).__name__)
            break
        frames += 1
        b.note_views(views, acked)
        closed = r_closed(pup, views)
        if frames == 100 and not base_done:
            w.baseline()
            base_done = True
        if frames % 100 == 0 or closed or variant in ("burst", "fill"):
            b.measure(closed)
            trim(pup)
        if closed:
            break
    b.measure(closed)
    if base_done and not closed:
        b.check_growth(w.growth(), frames)
    if closed and closed[0] != CONNECTION_ID_LIMIT_ERROR:
        res.count("obs_flood_ncid_closed_" + code_name(closed[0]))
    flood_finish(res, batch, b, frames, closed)


def _late_ncid(batch, res, pup, R, b, w, rng, cid_len):
    """Second way to queue a retirement: after one NEW_CONNECTION_ID with seq = retire_prior_to = N far ahead, frames with
    fresh sequence numbers below N (retire_prior_to 0) must each be answered with RETIRE_CONNECTION_ID. `per` such frames
    per datagram; late_burst: no send cycle for R; late_noack: R's RETIRE frames never acknowledged; late_ack: acknowledged;
    late_mixed: interleaved with ordinary frames that keep increasing retire_prior_to (acknowledged)."""
    from ..simnet import ApiRaised

    variant = batch["variant"]
    n = batch["n"]
    per = batch.get("per", 40)
    N = n + 10
    acked = variant in ("late_ack", "late_mixed")
    closed = None
    frames = 0
    late_seq = iter(rng.sample(range(1, N), n))  # fresh, distinct, in no particular order
    top = N  # highest ordinary sequence number issued so far

    def ncid(seq, rpt):
        return F.f_new_connection_id(seq, rpt, (0xC0DE0000 + seq).to_bytes(cid_len, "big"), rng.getrandbits(128).to_bytes(16, "big"))

    def push(payload, cycle):
        pkt = pup.packet("1rtt", (ack_prefix(pup) if acked else b"") + payload)
        if cycle:
            return pup.deliver(pkt)
        pup.now += 0.0001
        pup.call("receive_datagram", pkt, pup.addr, now=pup.now)
        return pup.transmit() if (R._state.name != "CONNECTED" or R._close_pending) else []

    try:
        views = push(ncid(N, N), variant != "late_burst")
        frames += 1
        b.note_views(views, acked)
        closed = r_closed(pup, views)
        b.measure(closed)
        dgrams = 0
        while frames < n and not closed:
            payload = b""
            k = 0
            while k < per and frames + k < n:
                if variant == "late_mixed" and rng.random() < 0.3:
                    top += 1
                    payload += ncid(top, top)
                else:
                    payload += ncid(next(late_seq), 0)
                k += 1
            views = push(payload, variant != "late_burst")
            frames += k
            dgrams += 1
            b.note_views(views, acked)
            closed = r_closed(pup, views)
            b.measure(closed)
            if dgrams == 3 and w.base is None:
                w.baseline()
            if dgrams % 20 == 0:
                trim(pup)
    except ApiRaised as exc:
        res.count("obs_api_raised_" + type(exc.exc).__name__)
    return frames, closed


def gen_flood_streams(batch, res):
    """Streams opened and left incomplete with one byte at the far end of the advertised stream window.
    compliant: P stays within every advertised limit (waits for R's raises); hostile_conn / hostile_count: P ignores the
    connection data limit / the stream-count limit (R must close; until it does the bounds must hold)."""
    variant = batch["variant"]
    cfg = {"md": 1 << 16, "msd": 64, "msb": 16, "msu": 16}
    if variant == "hostile_conn":
        cfg = {"md": 20000, "msd": 1000, "msb": 128, "msu": 128}
    hostile = variant.startswith("hostile")  # datagrams arrive back to back: R cannot raise a limit in between
    pair, pup, model, tp = flood_setup(batch, cfg)
    R = pup.victim
    b = Bounds(res, batch, pup, model, tp)
    w = Walker(R)
    ids = Ids(pup.me_name == "client")
    rng = random.Random(batch["seed"])
    n = batch["n"]
    closed = None
    frames = 0
    base_done = False
    nxt = {False: 0, True: 0}
    stall = 0

    def far_end(uni):
        sid = 4 * nxt[uni] + (ids.p_uni if uni else ids.p_bidi)
        L = model.stream_limit(sid)
        return {"kind": "STREAM", "sid": sid, "off": max(0, L - 1), "len": 1 if L else 0, "fin": False}

    def wanted(v):
        if v.kind == "accept":
            return True
        if variant == "hostile_conn":
            return v.kind == "reject" and "over-conn-limit" in v.tags and "stream-count" not in v.tags
        if variant == "hostile_count":
            return v.kind == "reject" and "stream-count" in v.tags and "over-conn-limit" not in v.tags
        return False

    while frames < n and not closed:
        if variant == "compliant_uni":
            order = [True]
        elif variant == "compliant":
            order = [bool(frames & 1), not (frames & 1)]
        else:
            order = [rng.random() < 0.5]
            order.append(not order[0])
        op = None
        for uni in order:
            cand = far_end(uni)
            if wanted(model.classify(cand)):
                op = cand
                break
        if op is None:
            # out of credit: poke R (it re-advertises when its own thresholds are crossed), then give up
            stall += 1
            if stall > 3:
                break
            views = pup.send("1rtt", ack_prefix(pup) + F.f_ping())
            views += pup.cycle(steps=2, max_advance=0.02)
            model.on_r_frames(frames_of(views))
            continue
        stall = 0
        closed, verdicts = step_packet(res, batch, pup, model, [op], R, no_cycle=hostile and frames % 50 != 49)
        if verdicts[-1].kind == "reject" and not closed:
            model.apply(op, type(verdicts[-1])("accept"))  # R let it pass (reported by O1): keep counting what P sent
        nxt[bool(op["sid"] & 2)] += 1
        frames += 1
        if frames == 100 and not base_done:
            w.baseline()
            base_done = True
        if frames % 100 == 0 or closed:
            b.measure(closed)
            trim(pup)
    b.measure(closed)
    if base_done and not closed:
        b.check_growth(w.growth(), frames)
    res.count("o1_r_limit_raises_seen", model.raises)
    flood_finish(res, batch, b, frames, closed, {"advertised_at_end": {"max_data": model.max_data, "bidi": model.max_streams[False], "uni": model.max_streams[True]}})


GENS = {
    "limits": gen_limits,
    "flood_crypto": gen_flood_crypto,
    "flood_challenge": gen_flood_challenge,
    "flood_ncid": gen_flood_ncid,
    "flood_streams": gen_flood_streams,
}


def run_batch(batch):
    res = Result()
    t0 = time.process_time()
    su = SeededUrandom(batch.get("seed", 0))
    su.install()
    try:
        GENS[batch["gen"]](batch, res)
    finally:
        su.uninstall()
    ch = os.times()
    res.count("cpu_s_" + batch["gen"], round(time.process_time() - t0 + ch.children_user + ch.children_system, 2))
    return res.as_dict()
