"""C04 - native helpers (_crypto.c, _buffer.c) never access memory out of bounds.

Observers
  1. compiler sanitizers: the staged C sources are built with clang ASan+UBSan (BUILD="asan");
     every report block in the sanitizer log is attributed to the case that triggered it
     (vf.c04_util.SanWatch) and is a violation; so is death by signal.
  2. boundary contracts: every call into AEAD / HeaderProtection (direct in W2, through checking
     proxies in W3/W4) and every Buffer call (W1, against a pure-Python bounded-buffer model) is
     classified as inside / outside its precondition; an out-of-contract call that the C code
     does not reject with a Python exception is a violation, sanitizer or not.
  3. usability: after a rejected call the same object must still produce the answers of an
     independent implementation (vf.refcrypto / the buffer model).

Workloads: W1 Buffer API, W2 AEAD/HeaderProtection grids, W3 hostile datagrams into real
connections, W4 packets the library builds for max_datagram_size settings >= 1200.
Everything risky runs in forked grandchildren of the batch process (vf.c04_util.Sandbox).
"""

from __future__ import annotations

import os
import sys

# ---- tuned sanitizer runtime ---------------------------------------------------------
# The child interpreter runs with PYTHONMALLOC=malloc under the preloaded ASan runtime. With the
# default 256 MB quarantine and 30-frame allocation stacks every Python object allocation costs
# microseconds (measured here: imports 29 s -> 4 s CPU, harness loops 13x faster with the options
# below), and suppress_equal_pcs=1 hides every report after the first that comes from the same pc
# (all memcpy overflows share one pc inside __asan_memcpy, whatever function called memcpy).
# None of these options weakens the red-zone checks this property relies on.  When the runner did
# not pass them, re-execute the same `python -m vf.child ...` command line in place (same pid,
# same sanitizer log name) before anything heavy is imported.  No-op in the runner process.
_TUNE = {"quarantine_size_mb": "1", "thread_local_quarantine_size_kb": "16", "malloc_context_size": "0", "suppress_equal_pcs": "0"}


def _asan_tuned():
    have = dict(kv.split("=", 1) for kv in os.environ.get("ASAN_OPTIONS", "").split(":") if "=" in kv)
    return all(k in have for k in _TUNE), have


def _maybe_reexec():
    if "asan" not in os.environ.get("LD_PRELOAD", "") or os.environ.get("VF_C04_REEXEC"):
        return
    tuned, have = _asan_tuned()
    if tuned or len(sys.argv) < 4 or os.path.basename(sys.argv[0]) != "child.py" or sys.argv[1] != __name__:
        return
    env = dict(os.environ)
    extra = ":".join("%s=%s" % (k, v) for k, v in _TUNE.items() if k not in have)
    env["ASAN_OPTIONS"] = (env.get("ASAN_OPTIONS", "") + ":" + extra).strip(":")
    env["VF_C04_REEXEC"] = "1"
    sys.stdout.flush()
    sys.stderr.flush()
    os.execve(sys.executable, [sys.executable, "-m", "vf.child"] + sys.argv[1:4], env)


_maybe_reexec()

import random  # noqa: E402
import time  # noqa: E402

from ..c04_util import (  # noqa: E402
    SUITES,
    Contracts,
    Ref,
    Sandbox,
    SanWatch,
    constants,
    pre_apply,
    pre_decrypt,
    pre_encrypt,
    pre_remove,
    redzone_probe,
    report_violations,
)
from ..common import Result, SeededUrandom, prf_bytes  # noqa: E402

PROPERTY = "C04"
BUILD = "asan"
LEVEL = "exploration"
SIGNAL_IS_VIOLATION = True
BUDGET = {"quick": 70, "thorough": 1300}
BATCH_TIMEOUT = {"quick": 600, "thorough": 3000}
RULE = (
    "W1: exhaustive (capacity 0..9, position, method, boundary integer/bytes argument) grid + seeded random method "
    "sequences on a real Buffer vs a pure-Python bounded-buffer model + risky constructors, one per forked process; "
    "W2: AEAD encrypt/decrypt for every length 0..1600 x AD lengths x 3 suites, HeaderProtection.apply for header "
    "0..80 x 4 pn lengths x payload 0..1600, remove for packet 0..96 x offset 0..128 (+ far offsets / 64k packets once "
    "the near grid is clean); W3: hostile datagrams (all short lengths, long-header length/token/CID-length lies, "
    "truncated genuine packets, oversized tokens, authentic packets with malformed payload) into client and server "
    "connections in 8 states; W4: handshake + bulk transfer + close for max_datagram_size 1200..65527. "
    "A case is non-trivial when the C code was actually entered and either produced a result that matches the "
    "independent reference or rejected the input; distinct = distinct (workload, method, boundary-relative length "
    "bucket, outcome) signatures."
)
RULE += ' W1 sequences also call Buffer.__init__ again on the live object (usable arguments: fresh buffer; unusable ones: rejected, object unchanged and usable).'

ASSUMPTIONS = [
    "sanitizers instrument _crypto.c/_buffer.c only: reads done inside libcrypto (header-protection sample) are invisible to ASan "
    "and are decided by the boundary contracts instead",
    "intra-object overflows of the 1500-byte scratch arrays are visible to ASan only with hook H1 (red zones, counter redzones_active); "
    "without it they are decided by the boundary contracts and the reference comparison alone",
    "well-typed arguments: bytes where bytes are expected, Python ints (any magnitude) where ints are expected; objects are "
    "constructed through their constructors",
    "Python exceptions (any type) escaping the public API are the permitted outcome for this property",
]

BUF_ALLOWED = ("BufferReadError", "BufferWriteError", "ValueError", "OverflowError", "TypeError", "MemoryError")


def floors(tier):
    return {
        "probe_done": 1,
        "w1_calls_checked": 3000,
        "w1_valid_accepted": 1000,
        "w1_invalid_rejected": 500,
        "w2_calls_checked": 20000,
        "w2_valid_accepted": 5000,
        "w2_invalid_rejected": 2000,
        "w2_rejected_then_kat_ok": 500,
        "w3_datagrams": 2000,
        "w3_reached_crypto": 300,
        "w4_configs": 10,
        "w4_packets_built": 500,
        "boundary_calls_checked": 2000,
    }


def finalize(tier, merged):
    return {
        "redzones_active": bool(merged.get("redzones_active", 0)),
        "asan_active": bool(merged.get("asan_active", 0)),
        "exhaustive": False,
        "grids": "W2 remove/apply/encrypt grids are exhaustive within the ranges stated in RULE when no batch was skipped",
    }


# =====================================================================================
# plan
# =====================================================================================

W4_SIZES = list(range(1200, 1211)) + list(range(1450, 1561)) + [1600, 2048, 4096, 9000, 16383, 16384, 65527]
W3_STATES = [
    ("server", "first"), ("client", "first"), ("server", "mid"), ("client", "mid"),
    ("server", "connected"), ("client", "connected"), ("server", "keyupdate"), ("client", "keyupdate"),
]


def plan(tier, seed):
    quick = tier == "quick"
    b = []
    # ---- probe + constructors (small parts share one process: start-up under ASan is the main fixed cost)
    b.append({"gen": "multi", "parts": [{"gen": "probe"}, {"gen": "w1_ctor"}, {"gen": "w2_ctor"}]})
    # ---- W1
    b.append({"gen": "w1_grid", "caps": [0, 6]})
    b.append({"gen": "w1_grid", "caps": [7, 9]})
    for i in range(1 if quick else 24):
        b.append({"gen": "w1_seq", "seed": seed * 1000003 + i, "nseq": 240 if quick else 500, "steps": 120})
    # ---- W2
    for s in SUITES:
        b.append({"gen": "multi", "parts": [{"gen": "w2_aead", "suite": s, "seed": seed}, {"gen": "w2_remove", "suite": s, "seed": seed}]})
        if quick:
            # every payload length for a boundary set of header lengths; boundary windows for all others
            b.append({"gen": "w2_apply", "suite": s, "hlens": [0, 80], "mode": "windows", "seed": seed})
            b.append({"gen": "w2_apply", "suite": s, "hset": [1, 9, 27], "mode": "all", "seed": seed})
        else:
            for lo in range(0, 81, 9):
                b.append({"gen": "w2_apply", "suite": s, "hlens": [lo, min(lo + 8, 80)], "mode": "all", "seed": seed})
    # ---- W3
    parts = []
    for r in range(1 if quick else 4):
        for role, state in W3_STATES:
            for v in ("v1", "v2") if (not quick or state in ("first", "connected")) else ("v1",):
                parts.append({"gen": "w3", "role": role, "state": state, "version": v, "seed": seed * 7919 + r,
                              "n_random": 300 if quick else 2000})
    if quick:
        for i in range(0, len(parts), 2):
            b.append({"gen": "multi", "parts": parts[i : i + 2]})
    else:
        b.extend(parts)
    # ---- W4
    suites = ["AES_128_GCM_SHA256", "AES_256_GCM_SHA384", "CHACHA20_POLY1305_SHA256"]
    cfgs = []
    if quick:
        for i, mds in enumerate(W4_SIZES):
            cfgs.append({"mds": mds, "suite": suites[(i + seed) % 3], "cid": (8, 20, 4)[(i + seed) % 3],
                         "token": (0, 64, 200)[(i // 2 + seed) % 3], "version": "v1" if i % 5 else "v2"})
    else:
        for i, mds in enumerate(W4_SIZES):
            for si, su in enumerate(suites):
                for cid in (4, 8, 20):  # zero-length CIDs do not get past the handshake here
                    tok = (0, 64, 200)[(i + si + cid) % 3]
                    cfgs.append({"mds": mds, "suite": su, "cid": cid, "token": tok, "version": "v1" if (i + si) % 4 else "v2"})
    per = 13 if quick else 16
    # neighbouring sizes go to different batches so that a skipped batch does not lose a whole range
    nb = (len(cfgs) + per - 1) // per
    for k in range(nb):
        b.append({"gen": "w4", "configs": cfgs[k::nb], "seed": seed * 31 + k})
    # interleave the workloads so that a budget cut-off loses a bit of everything
    groups = {}
    for x in b:
        key = x["gen"] if x["gen"] != "multi" else x["parts"][-1]["gen"]
        groups.setdefault(key.split("_")[0], []).append(x)
    cap = 150 if quick else 700
    for x in b:
        for part in (x["parts"] if x["gen"] == "multi" else [x]):
            part["time_cap"] = cap
    lists = [groups[k] for k in sorted(groups)]
    order = []
    while any(lists):
        for lst in lists:
            if lst:
                order.append(lst.pop(0))
    return order


# =====================================================================================
# run_batch
# =====================================================================================


def run_batch(batch):
    res = Result()
    t0 = time.time()
    watch = SanWatch()
    parts = batch["parts"] if batch["gen"] == "multi" else [batch]
    for part in parts:
        gen = part["gen"]
        cap_s = part.get("time_cap", batch.get("time_cap", 200))
        sb = Sandbox(res, watch, max_reforks=part.get("max_reforks", 30), deadline=time.time() + cap_s)
        use_fork = not (part.get("nofork") or batch.get("nofork"))
        if gen == "probe":
            res.count("asan_options_tuned", 1 if _asan_tuned()[0] else 0)
        # violations carry `part` (a batch that run_batch executes on its own) as their case
        GENERATORS[gen](part, res, sb, watch, use_fork)
    # anything the batch process itself produced outside a sandbox (should be nothing)
    if watch.dirty():
        report_violations(res, watch.new_reports(), batch, "batch process:")
    key = batch["gen"] if batch["gen"] != "multi" else batch["parts"][-1]["gen"]
    cpu = int((time.process_time() + _children_cpu()) * 100)
    res.count("cpu_s_x100", cpu)
    res.count("cpu_s_x100_" + key.split("_")[0], cpu)
    res.count("wall_s_x100", int((time.time() - t0) * 100))
    return res.as_dict()


def _children_cpu():
    t = os.times()
    return t.children_user + t.children_system


def _only(batch, cases):
    """apply the replay filter: batch['only'] = list of case indices"""
    if batch.get("only") is not None:
        return [cases[i] for i in batch["only"] if 0 <= i < len(cases)]
    return cases


def _case_of(batch, idx):
    c = {k: v for k, v in batch.items() if k not in ("only",)}
    c["only"] = [idx]
    return c


# =====================================================================================
# probe
# =====================================================================================


def gen_probe(batch, res, sb, watch, use_fork):
    c = constants()
    info = redzone_probe()
    res.evaluations += 1
    res.count("probe_done")
    res.count("asan_active", 1 if (info["asan"] and watch.active()) else 0)
    active = bool(info["aead"]) and bool(info["hp"])
    res.count("redzones_active", 1 if active else 0)
    res.sample({"constants": c, "asan_runtime": info["asan"], "sanlog": bool(watch.prefix),
                "poisoned_ranges_in_AEAD_object": info["aead"], "poisoned_ranges_in_HeaderProtection_object": info["hp"]})
    res.nontrivial.add("probe:asan=%s:redzones=%s" % (info["asan"], active))
    if not (info["asan"] and watch.active()):
        res.inconclusive.append("probe: ASan runtime / sanitizer log not active in the child (asan=%s, VF_SANLOG=%s)" % (info["asan"], watch.prefix))


# =====================================================================================
# W1 - Buffer
# =====================================================================================

I63 = 1 << 63
INT_POOL_ABS = [-I63 - 1, -I63, -(1 << 31), -1, 0, 1, 2, 3, 4, 7, 8, 9, 63, 64, 255, 256, 16383, 16384, 1 << 16, (1 << 30) - 1, 1 << 30,
                (1 << 32) - 1, 1 << 32, (1 << 62) - 1, 1 << 62, I63 - 1, I63, (1 << 64) - 1, 1 << 64]


class BufModel:
    """bounded byte buffer; None = byte whose value is not known to the model"""

    def __init__(self, cap=None, data=None):
        self.mem = list(data) if data is not None else [None] * cap
        self.pos = 0

    @property
    def cap(self):
        return len(self.mem)

    def remaining(self):
        return len(self.mem) - self.pos


WIDTH = {"uint8": 1, "uint16": 2, "uint32": 4, "uint64": 8}


def _var_size(v):
    if v <= 0x3F:
        return 1
    if v <= 0x3FFF:
        return 2
    if v <= 0x3FFFFFFF:
        return 4
    return 8


def _var_encode(v):
    s = _var_size(v)
    return (v | ({1: 0, 2: 0x4000, 4: 0x80000000, 8: 0xC000000000000000}[s])).to_bytes(s, "big")


def buf_expect(m: BufModel, op, arg):
    """Expected outcome of op(arg) in model state m:
    ('ok', value, effect)    must return value (value None = do not compare), then apply effect
    ('raise',)               must raise, state unchanged
    ('either', sizes)        may return (then position advances by one of sizes, bytes unknown) or raise
    effect = ('adv', n, bytes-or-None) | ('seek', p) | None"""
    rem = m.remaining()
    if op in ("tell",):
        return ("ok", m.pos, None)
    if op == "eof":
        return ("ok", m.pos == m.cap, None)
    if op == "capacity":
        return ("ok", m.cap, None)
    if op == "data":
        return ("ok", ("bytes", m.mem[: m.pos]), None)
    if op == "seek":
        if not (-I63 <= arg < I63):
            return ("raise",)
        return ("ok", None, ("seek", arg)) if 0 <= arg <= m.cap else ("raise",)
    if op == "data_slice":
        s, e = arg
        if not (-I63 <= s < I63 and -I63 <= e < I63):
            return ("raise",)
        if 0 <= s <= e <= m.cap:
            return ("ok", ("bytes", m.mem[s:e]), None)
        return ("raise",)
    if op == "pull_bytes":
        if not (-I63 <= arg < I63):
            return ("raise",)
        if 0 <= arg <= rem:
            return ("ok", ("bytes", m.mem[m.pos : m.pos + arg]), ("adv", arg, None))
        return ("raise",)
    if op.startswith("pull_uint") and op != "pull_uint_var":
        w = WIDTH[op[5:]]
        if rem < w:
            return ("raise",)
        chunk = m.mem[m.pos : m.pos + w]
        val = None if None in chunk else int.from_bytes(bytes(chunk), "big")
        return ("ok", val, ("adv", w, None))
    if op == "pull_uint_var":
        if rem < 1:
            return ("raise",)
        first = m.mem[m.pos]
        if first is None:
            return ("either", (1, 2, 4, 8))
        w = 1 << (first >> 6)
        if rem < w:
            return ("raise",)
        chunk = m.mem[m.pos : m.pos + w]
        val = None
        if None not in chunk:
            val = int.from_bytes(bytes(chunk), "big") & ((1 << (8 * w - 2)) - 1)
        return ("ok", val, ("adv", w, None))
    if op == "push_bytes":
        if len(arg) <= rem:
            return ("ok", None, ("adv", len(arg), list(arg)))
        return ("raise",)
    if op.startswith("push_uint") and op != "push_uint_var":
        w = WIDTH[op[5:]]
        if 0 <= arg < (1 << (8 * w)):
            if rem < w:
                return ("raise",)
            return ("ok", None, ("adv", w, list(arg.to_bytes(w, "big"))))
        # out-of-range integer: the C formats B/H/I/K do not check overflow (truncation is C17's
        # subject); memory-wise the call may store w bytes or raise
        return ("either", (w,)) if rem >= w else ("raise",)
    if op == "push_uint_var":
        if 0 <= arg < (1 << 62):
            w = _var_size(arg)
            if rem < w:
                return ("raise",)
            return ("ok", None, ("adv", w, list(_var_encode(arg))))
        # not encodable (or masked by the K format): may raise, or store 1/2/4/8 bytes that fit
        sizes = tuple(w for w in (1, 2, 4, 8) if w <= rem)
        return ("either", sizes) if sizes else ("raise",)
    raise ValueError(op)


READ_OPS = ("pull_uint8", "pull_uint16", "pull_uint32", "pull_uint64", "pull_uint_var")
INT_PUSH_OPS = ("push_uint8", "push_uint16", "push_uint32", "push_uint64", "push_uint_var")
ALL_OPS = ("capacity", "data", "data_slice", "eof", "seek", "tell", "pull_bytes", "push_bytes") + READ_OPS + INT_PUSH_OPS


def buf_call(buf, op, arg):
    if op in ("capacity", "data"):
        return getattr(buf, op)
    if op in ("tell", "eof") or op in READ_OPS:
        return getattr(buf, op)()
    if op == "data_slice":
        return buf.data_slice(arg[0], arg[1])
    return getattr(buf, op)(arg)


def _match_bytes(got, exp_list):
    if not isinstance(got, (bytes, bytearray)) or len(got) != len(exp_list):
        return False
    return all(e is None or e == g for g, e in zip(got, exp_list))


def _argdesc(arg):
    if isinstance(arg, (bytes, bytearray)):
        return "bytes[%d]" % len(arg)
    return repr(arg)


class BufChecker:
    """Applies one operation to the real Buffer and the model and compares."""

    def __init__(self, local: Result, case):
        self.local = local
        self.case = case
        self.trace = []

    def fail(self, sig, what):
        self.local.violation(sig, what, self.case, {"trace_tail": self.trace[-12:]})

    def step(self, buf, m: BufModel, op, arg):
        local = self.local
        exp = buf_expect(m, op, arg)
        local.count("w1_calls_checked")
        self.trace.append("%s(%s) @pos=%d cap=%d" % (op, _argdesc(arg) if arg is not None else "", m.pos, m.cap))
        if len(self.trace) > 40:
            del self.trace[:20]
        try:
            got = buf_call(buf, op, arg)
            raised = None
        except Exception as exc:  # the call under observation
            raised = exc
            got = None
        if raised is not None:
            name = type(raised).__name__
            if name not in BUF_ALLOWED:
                local.count("obs_w1_exception_outside_usual_set")
            if exp[0] == "ok":
                # an in-contract call must work: this is what "leaves the helper usable" means
                self.fail("buffer:%s:in-bounds-call-raised" % op,
                          "%s(%s) at pos %d of capacity %d raised %r although it is inside the bounds" % (op, _argdesc(arg), m.pos, m.cap, raised))
                return "mismatch"
            local.count("w1_invalid_rejected" if exp[0] == "raise" else "obs_w1_either_raised")
            # state must be unchanged after a rejected call
            self.check_state(buf, m, "after-rejected-" + op)
            return "raised"
        # returned
        if exp[0] == "raise":
            self.fail("buffer:%s:out-of-bounds-accepted" % op,
                      "%s(%s) at pos %d of capacity %d returned %r: the model says the access is outside the buffer" % (op, _argdesc(arg), m.pos, m.cap, got if not isinstance(got, bytes) else got[:16]))
            self.resync(buf, m)
            return "mismatch"
        if exp[0] == "either":
            local.count("obs_w1_either_returned")
            try:
                newpos = buf.tell()
            except Exception as exc:
                self.fail("buffer:tell-raised", "tell() raised %r" % exc)
                return "mismatch"
            adv = newpos - m.pos
            if adv not in exp[1] or newpos > m.cap:
                self.fail("buffer:%s:position-outside-model" % op,
                          "%s(%s) at pos %d of capacity %d moved the position to %d" % (op, _argdesc(arg), m.pos, m.cap, newpos))
                self.resync(buf, m)
                return "mismatch"
            for i in range(m.pos, newpos):
                if op.startswith("push"):
                    m.mem[i] = None
            m.pos = newpos
            return "ok"
        _, val, eff = exp
        good = True
        if isinstance(val, tuple) and val[0] == "bytes":
            good = _match_bytes(got, val[1])
        elif val is not None:
            good = got == val and type(got) is type(val)
        if not good:
            self.fail("buffer:%s:result-differs-from-model" % op,
                      "%s(%s) at pos %d of capacity %d returned %r, model expects %r" % (op, _argdesc(arg), m.pos, m.cap, got, val))
            return "mismatch"
        if eff is not None:
            if eff[0] == "seek":
                m.pos = eff[1]
            else:
                _, n, data = eff
                if data is not None:
                    m.mem[m.pos : m.pos + n] = data
                m.pos += n
        local.count("w1_valid_accepted")
        return "ok"

    def resync(self, buf, m):
        try:
            p = buf.tell()
            if 0 <= p <= m.cap:
                m.pos = p
        except Exception:
            pass

    def check_state(self, buf, m, where):
        try:
            t, c = buf.tell(), buf.capacity
        except Exception as exc:
            self.fail("buffer:unusable:%s" % where.split("-")[0], "tell()/capacity raised %r %s" % (exc, where))
            return False
        if t != m.pos or c != m.cap:
            self.fail("buffer:state-changed-by-rejected-call",
                      "%s: tell()=%d capacity=%d, model pos=%d cap=%d" % (where, t, c, m.pos, m.cap))
            self.resync(buf, m)
            return False
        return True

    def check_contents(self, buf, m):
        self.local.count("w1_content_checks")
        try:
            whole = buf.data_slice(0, m.cap)
            upto = buf.data
        except Exception as exc:
            self.fail("buffer:unusable:contents", "data_slice(0, capacity)/data raised %r" % (exc,))
            return
        if not _match_bytes(whole, m.mem) or not _match_bytes(upto, m.mem[: m.pos]):
            self.fail("buffer:contents-differ-from-model", "buffer contents %r, model %r (pos %d)" % (whole[:40], m.mem[:40], m.pos))

    def usable(self, buf, m):
        """after a rejected call: one in-bounds push (if room) and pull must behave like the model"""
        self.local.count("w1_usability_probes")
        if m.remaining() >= 1:
            here = m.pos
            if self.step(buf, m, "push_uint8", 0xA5) == "ok":
                self.step(buf, m, "seek", here)
                self.step(buf, m, "pull_uint8", None)
                self.step(buf, m, "seek", here)
        elif m.cap >= 1:
            here = m.pos
            self.step(buf, m, "seek", m.cap - 1)
            self.step(buf, m, "pull_uint8", None)
            self.step(buf, m, "seek", here)
        else:
            self.step(buf, m, "tell", None)


def _fresh(cap=None, data=None, fill=True):
    """real Buffer + model in the same state; with fill, contents are made known"""
    from aioquic._buffer import Buffer

    if data is not None:
        return Buffer(data=data), BufModel(data=data)
    buf = Buffer(capacity=cap)
    m = BufModel(cap=cap)
    if fill and cap:
        pat = bytes((0x31 + 7 * i) & 0xFF for i in range(cap))
        buf.push_bytes(pat)
        buf.seek(0)
        m.mem = list(pat)
    return buf, m


def _grid_args(op, cap):
    pool = sorted(set(INT_POOL_ABS + [cap - 1, cap, cap + 1, cap + 8]))
    if op in ("capacity", "data", "eof", "tell") or op in READ_OPS:
        return [None]
    if op == "push_bytes":
        return [bytes((0x80 + i) & 0xFF for i in range(n)) for n in range(0, cap + 10)]
    if op == "data_slice":
        small = sorted(set([-1, 0, 1, cap - 1, cap, cap + 1, I63 - 1, -I63, I63, 1 << 62]))
        return [(s, e) for s in small for e in small]
    return pool


def gen_w1_grid(batch, res, sb, watch, use_fork):
    lo, hi = batch["caps"]
    cases = []
    for cap in range(lo, hi + 1):
        for via_data in (False, True):
            for pos in range(cap + 1):
                for op in ALL_OPS:
                    cases.append((cap, via_data, pos, op))
    indexed = list(enumerate(cases))
    todo = _only(batch, indexed)

    def fn(ctx, item, local):
        idx, (cap, via_data, pos, op) = item
        case = _case_of(batch, idx)
        chk = BufChecker(local, case)
        outcomes = set()
        for arg in _grid_args(op, cap):
            if via_data:
                buf, m = _fresh(data=bytes((0xC0 + 3 * i) & 0xFF for i in range(cap)))
            else:
                buf, m = _fresh(cap=cap)
            buf.seek(pos)
            m.pos = pos
            out = chk.step(buf, m, op, arg)
            outcomes.add(out)
            if out == "raised":
                chk.usable(buf, m)
            chk.check_state(buf, m, "after-" + op)
            chk.check_contents(buf, m)
        local.evaluations += 1
        if outcomes - {"mismatch"}:
            local.nontrivial.add("w1grid:cap%d:%s:pos%d:%s:%s" % (cap, "data" if via_data else "cap", pos, op, "+".join(sorted(outcomes))))

    sb.run(todo, fn, lambda item: _case_of(batch, item[0]), use_fork=use_fork)


def _seq_ops(rng, cap, steps):
    """seeded operation list biased to the boundaries of a buffer of capacity cap"""
    ops = []
    near = [0, 1, 2, 3, 4, 7, 8, 9, cap - 1, cap, cap + 1, cap + 9]
    for _ in range(steps):
        op = rng.choice(ALL_OPS)
        if op in ("capacity", "data", "eof", "tell") or op in READ_OPS:
            arg = None
        elif op == "push_bytes":
            n = rng.choice([0, 1, 2, 3, rng.randrange(0, cap + 10), cap, cap + 1])
            arg = bytes(rng.randrange(256) for _ in range(n))
        elif op == "data_slice":
            arg = (rng.choice(near + INT_POOL_ABS[:6]), rng.choice(near + INT_POOL_ABS[-6:]))
        elif op in ("seek", "pull_bytes"):
            arg = rng.choice(near * 3 + INT_POOL_ABS) if rng.random() < 0.8 else rng.randrange(0, cap + 2)
        else:  # integer pushes
            r = rng.random()
            if r < 0.5:
                arg = rng.choice(INT_POOL_ABS)
            elif r < 0.8:
                arg = rng.randrange(0, 1 << rng.choice([6, 8, 14, 16, 30, 32, 62]))
            else:
                arg = rng.randrange(0, 1 << 64)
        ops.append((op, arg))
    return ops


def gen_w1_seq(batch, res, sb, watch, use_fork):
    nseq, steps, seed = batch["nseq"], batch["steps"], batch["seed"]
    todo = _only(batch, list(range(nseq)))

    def fn(ctx, k, local):
        rng = random.Random("w1seq/%d/%d" % (seed, k))
        cap = rng.choice([0, 1, 2, 3, 4, 7, 8, 9, 15, 16, 17, 33, 64])
        case = _case_of(batch, k)
        chk = BufChecker(local, case)
        if rng.random() < 0.5:
            buf, m = _fresh(data=bytes(rng.randrange(256) for _ in range(cap)))
            how = "data"
        else:
            buf, m = _fresh(cap=cap, fill=rng.random() < 0.6)
            how = "cap"
        hist = {}
        r_init = random.Random("w1seq-reinit/%d/%d" % (seed, k))
        for i, (op, arg) in enumerate(_seq_ops(rng, cap, steps)):
            if r_init.random() < 0.04:
                # __init__ called again on the live object (legal Python): a usable argument gives a fresh buffer, an
                # unusable one is rejected and leaves the object exactly as it was — position, limit and storage
                kind = r_init.choice(["bad", "bad", "cap", "data"])
                local.count("w1_reinit_calls")
                try:
                    if kind == "bad":
                        buf.__init__(capacity=r_init.choice([-1, -2, -(1 << 31), -I63]))
                    elif kind == "cap":
                        c2 = r_init.choice([0, 1, 8, 33])
                        buf.__init__(capacity=c2)
                        m.mem, m.pos = [None] * c2, 0
                    else:
                        d2 = bytes(r_init.randrange(256) for _ in range(r_init.choice([0, 1, 9, 40])))
                        buf.__init__(data=d2)
                        m.mem, m.pos = list(d2), 0
                    if kind == "bad":
                        chk.fail("buffer:reinit:unusable-argument-accepted", "Buffer.__init__(capacity<0) on a live object returned")
                        break
                    chk.trace.append("__init__(%s) again: fresh buffer" % kind)
                except (ValueError, OverflowError, MemoryError) as exc:
                    chk.trace.append("__init__(%s) again: rejected %r" % (kind, exc))
                    local.count("w1_reinit_rejected")
                    chk.check_state(buf, m, "after-rejected-reinit")
                    chk.usable(buf, m)
                    chk.check_contents(buf, m)
            out = chk.step(buf, m, op, arg)
            hist[out] = hist.get(out, 0) + 1
            if out == "raised" and rng.random() < 0.5:
                chk.usable(buf, m)
            if out == "mismatch":
                break
            if i % 8 == 7:
                chk.check_state(buf, m, "periodic")
                chk.check_contents(buf, m)
        chk.check_contents(buf, m)
        local.evaluations += 1
        if hist.get("ok", 0) >= 5 and hist.get("raised", 0) >= 5:
            local.nontrivial.add("w1seq:cap%d:%s:ok%d:rej%d" % (cap, how, hist.get("ok", 0) // 10, hist.get("raised", 0) // 10))
        if k == 0:
            local.sample({"w1_seq": k, "cap": cap, "outcomes": hist})

    sb.run(todo, fn, lambda k: _case_of(batch, k), use_fork=use_fork)


W1_CTOR_CASES = (
    [{"capacity": c} for c in (-I63 - 1, -I63, -(1 << 31), -2, -1, 0, 1, 2, 7, 8, 9, 64, 1 << 16, 1 << 31, 1 << 40, 1 << 62, I63 - 1, I63, 1 << 64)]
    + [{"data_len": n} for n in (0, 1, 2, 7, 8, 9, 63, 64, 65535)]
    + [{"capacity": c, "data_len": n} for c, n in ((-1, 4), (1 << 62, 4), (0, 0), (3, 8))]
    + [{}]
)
# risky specs a second time with "poke": when the constructor accepts an unusable argument the first
# case records that, the second shows what the object then does to memory (it may kill the process)
W1_CTOR_CASES = W1_CTOR_CASES + [dict(c, poke=1) for c in W1_CTOR_CASES if c.get("capacity", 0) < 0]


def gen_w1_ctor(batch, res, sb, watch, use_fork):
    """Buffer(...) either raises, or yields an object that behaves like a bounded buffer of the
    requested size (a crash costs one case: the sandbox resumes with the next one)"""
    todo = _only(batch, list(enumerate(W1_CTOR_CASES)))

    def fn(ctx, item, local):
        from aioquic._buffer import Buffer

        idx, spec = item
        case = _case_of(batch, idx)
        chk = BufChecker(local, case)
        kw = {}
        if "capacity" in spec:
            kw["capacity"] = spec["capacity"]
        if "data_len" in spec:
            kw["data"] = bytes((0x11 * (i + 1)) & 0xFF for i in range(spec["data_len"]))
        local.evaluations += 1
        local.count("w1_calls_checked")
        try:
            buf = Buffer(**kw)
        except Exception as exc:
            name = type(exc).__name__
            valid = ("data" in kw) or (0 <= kw.get("capacity", 0) <= (1 << 16))
            if valid:
                chk.fail("buffer:ctor:valid-arguments-rejected", "Buffer(%r) raised %r" % (spec, exc))
            else:
                local.count("w1_invalid_rejected")
                local.nontrivial.add("w1ctor:%s:rejected:%s" % (_specdesc(spec), name))
            return None
        # constructed: it must be a bounded buffer of the requested size
        want = len(kw["data"]) if "data" in kw else kw.get("capacity", 0)
        chk.trace.append("Buffer(%s) returned" % _specdesc(spec))
        try:
            capv, tellv = buf.capacity, buf.tell()
        except Exception as exc:
            chk.fail("buffer:ctor:unusable-object", "capacity/tell raised %r after Buffer(%s)" % (exc, _specdesc(spec)))
            return None
        if capv != want or tellv != 0 or want < 0:
            chk.fail("buffer:ctor:unusable-argument-accepted",
                     "Buffer(%s) returned an object with capacity=%r tell()=%r instead of raising" % (_specdesc(spec), capv, tellv))
            # the decisive observation is what the object then does to memory: one push, one pull
            for op, arg in (("push_uint8", 0x41), ("seek", 0), ("pull_uint8", None)) if spec.get("poke") else ():
                local.count("w1_calls_checked")
                try:
                    buf_call(buf, op, arg)
                except Exception:
                    pass
            return None
        if want > (1 << 20):
            # large but honoured allocation: only touch both ends
            m = BufModel(cap=0)
            local.count("w1_valid_accepted")
            try:
                buf.seek(want)
                try:
                    buf.push_uint8(1)
                    chk.fail("buffer:push_uint8:out-of-bounds-accepted", "push at end of a %d-byte buffer returned" % want)
                except ValueError:
                    local.count("w1_invalid_rejected")
                buf.seek(want - 1)
                buf.push_uint8(0x5A)
                buf.seek(want - 1)
                if buf.pull_uint8() != 0x5A:
                    chk.fail("buffer:contents-differ-from-model", "last byte of a %d-byte buffer reads back wrong" % want)
                buf.seek(0)
                buf.push_uint64(0x0102030405060708)
                if buf.data != bytes(range(1, 9)):
                    chk.fail("buffer:contents-differ-from-model", "first bytes of a %d-byte buffer read back wrong" % want)
            except Exception as exc:
                chk.fail("buffer:ctor:unusable-object", "large buffer (%d) not usable: %r" % (want, exc))
            local.nontrivial.add("w1ctor:%s:large-ok" % _specdesc(spec))
            return None
        m = BufModel(data=kw["data"]) if "data" in kw else BufModel(cap=want)
        local.count("w1_valid_accepted")
        rng = random.Random("w1ctor/%d" % idx)
        for op, arg in _seq_ops(rng, m.cap, 60):
            if chk.step(buf, m, op, arg) == "mismatch":
                break
        chk.check_contents(buf, m)
        local.nontrivial.add("w1ctor:%s:model-ok" % _specdesc(spec))
        return None

    sb.max_reforks = len(todo) + 5
    sb.run(todo, fn, lambda item: _case_of(batch, item[0]), use_fork=use_fork, group_of=lambda item: "ctor:" + _specdesc(item[1]).split("=")[-1][:5],
           risky_of=lambda item: bool(item[1].get("poke")) or item[1].get("capacity", 0) >= (1 << 32))


def _specdesc(spec):
    def mag(v):
        if v < 0:
            return "neg" if v >= -I63 else "below-ssize"
        if v >= I63:
            return "above-ssize"
        return str(v) if v <= (1 << 16) else "2^%d" % (v.bit_length() - 1)

    parts = []
    if "capacity" in spec:
        parts.append("capacity=" + mag(spec["capacity"]))
    if "data_len" in spec:
        parts.append("data[%d]" % spec["data_len"])
    return ",".join(parts) or "no-args"


# =====================================================================================
# W2 - AEAD / HeaderProtection called directly
# =====================================================================================

PATTERN = bytes((i * 73 + 11) & 0xFF for i in range(70000))
AD_LENS = (0, 1, 20, 60, 300)
PN_POOL = (0, 1, 0xFFFFFFFF, (1 << 62) - 1)
KAT_PT = b"C04 known answer plaintext 0123456789"
KAT_AD = b"\x43\x00\x01\x02\x03\x04\x05\x06\x07\x00\x2a"
KAT_HDR = b"\x41" + bytes(range(8)) + b"\x12\x34"
KAT_PAYLOAD = bytes(range(40))


class Grid:
    """lazy cartesian product; item i -> tuple"""

    def __init__(self, *dims):
        self.dims = [list(d) for d in dims]
        n = 1
        for d in self.dims:
            n *= len(d)
        self.n = n

    def __len__(self):
        return self.n

    def __getitem__(self, i):
        if not 0 <= i < self.n:
            raise IndexError(i)
        out = []
        for d in reversed(self.dims):
            i, k = divmod(i, len(d))
            out.append(d[k])
        return tuple(reversed(out))


class Indexed:
    """sequence of (index, item) restricted by the replay filter"""

    def __init__(self, seq, only=None):
        self.seq = seq
        self.idx = [i for i in only if 0 <= i < len(seq)] if only is not None else None

    def __len__(self):
        return len(self.idx) if self.idx is not None else len(self.seq)

    def __getitem__(self, k):
        i = self.idx[k] if self.idx is not None else k
        return (i, self.seq[i])


def _suite_objs(suite):
    """fresh C objects + references for a suite with fixed keys"""
    from aioquic._crypto import AEAD, HeaderProtection

    aead_name, hp_name, klen, kind = SUITES[suite]
    key = bytes((0x10 + 3 * i) & 0xFF for i in range(klen))
    iv = bytes((0xA0 + 5 * i) & 0xFF for i in range(12))
    hpk = bytes((0x77 + 11 * i) & 0xFF for i in range(klen))
    ref_aead, ref_hp = Ref(kind, key=key, iv=iv), Ref(kind, hp=hpk)
    return {
        "aead": AEAD(aead_name, key, iv),
        "hp": HeaderProtection(hp_name, hpk),
        "ref_aead": ref_aead,
        "ref_hp": ref_hp,
        "kat_seal": ref_aead.seal(KAT_PT, KAT_AD, 7),
        "kat_apply": ref_hp.apply(KAT_HDR, KAT_PAYLOAD),
        "suite": suite,
    }


def _lenb(n, c):
    """boundary-relative bucket of a length"""
    mx = c["PACKET_LENGTH_MAX"]
    for name, edge in (("0", 0), ("TAG", c["AEAD_TAG_LENGTH"]), ("MAX-TAG", mx - c["AEAD_TAG_LENGTH"]), ("MAX", mx)):
        if abs(n - edge) <= 2:
            return "%s%+d" % (name, n - edge)
    return "~%d" % (n // 128 * 128)


def _crypto_errors():
    from aioquic._crypto import CryptoError

    return CryptoError


def _kat_aead(ctx, local, case, after):
    """the object must still answer like the independent implementation"""
    try:
        ct = ctx["aead"].encrypt(KAT_PT, KAT_AD, 7)
        pt = ctx["aead"].decrypt(ct, KAT_AD, 7)
    except Exception as exc:
        local.violation("unusable:AEAD:after-rejected-%s" % after, "known-answer encrypt/decrypt raised %r after a rejected %s" % (exc, after), case)
        ctx.update(_suite_objs(ctx["suite"]))
        return
    if ct != ctx["kat_seal"] or pt != KAT_PT:
        local.violation("unusable:AEAD:after-rejected-%s" % after, "known-answer encrypt/decrypt differs from the reference after a rejected %s" % after, case)
        ctx.update(_suite_objs(ctx["suite"]))
        return
    local.count("w2_rejected_then_kat_ok")


def _kat_hp(ctx, local, case, after):
    try:
        out = ctx["hp"].apply(KAT_HDR, KAT_PAYLOAD)
        back = ctx["hp"].remove(out, len(KAT_HDR) - 2)
    except Exception as exc:
        local.violation("unusable:HeaderProtection:after-rejected-%s" % after, "known-answer apply/remove raised %r after a rejected %s" % (exc, after), case)
        ctx.update(_suite_objs(ctx["suite"]))
        return
    if out != ctx["kat_apply"] or tuple(back) != (KAT_HDR, 0x1234):
        local.violation("unusable:HeaderProtection:after-rejected-%s" % after, "known-answer apply/remove differs from the reference after a rejected %s" % after, case)
        ctx.update(_suite_objs(ctx["suite"]))
        return
    local.count("w2_rejected_then_kat_ok")


def gen_w2_aead(batch, res, sb, watch, use_fork):
    suite = batch["suite"]
    c = constants()
    lens = list(range(0, 1601)) + [1700, 2048, 4096, 16384, 65535]
    cases = Indexed(lens, batch.get("only"))
    mx, tag = c["PACKET_LENGTH_MAX"], c["AEAD_TAG_LENGTH"]

    def group_of(item):
        n = item[1]
        return "aead:valid" if n <= mx - tag else ("aead:enc-oversize" if n <= mx else "aead:oversize")

    def fn(ctx, item, local):
        idx, n = item
        case = _case_of(batch, idx)
        CryptoError = _crypto_errors()
        data = PATTERN[7 : 7 + n]
        outcomes = set()
        for ai, adl in enumerate(AD_LENS):
            ad = PATTERN[300 + ai : 300 + ai + adl]
            pn = PN_POOL[(n + ai) % len(PN_POOL)]
            # ---- encrypt n plaintext bytes
            local.count("w2_calls_checked")
            ok = pre_encrypt(c, n)
            try:
                out = ctx["aead"].encrypt(data, ad, pn)
                exc = None
            except Exception as e:  # call under observation
                exc, out = e, None
            if exc is None:
                if not ok:
                    local.violation("contract:AEAD.encrypt:data+tag>PACKET_LENGTH_MAX:accepted",
                                    "AEAD.encrypt(%d bytes, ad %d) returned %d bytes: %d+%d exceeds the %d-byte scratch buffer and the C code did not reject it"
                                    % (n, adl, len(out), n, tag, mx), case)
                    ctx.update(_suite_objs(suite))
                    outcomes.add("enc-oversize-accepted")
                elif out != ctx["ref_aead"].seal(data, ad, pn):
                    local.violation("kat:AEAD.encrypt:result-differs-from-reference", "AEAD.encrypt(%d bytes, ad %d, pn %d) differs from the independent AEAD" % (n, adl, pn), case)
                    ctx.update(_suite_objs(suite))
                else:
                    local.count("w2_valid_accepted")
                    outcomes.add("enc-ok")
            else:
                if ok:
                    local.count("obs_w2_in_contract_call_rejected")
                else:
                    local.count("w2_invalid_rejected")
                    outcomes.add("enc-rejected")
                _kat_aead(ctx, local, case, "encrypt")
            # ---- decrypt n bytes: a genuine ciphertext of that total length, then garbage
            inputs = [("garbage", PATTERN[900 + ai : 900 + ai + n], None)]
            if n >= tag:
                pt = PATTERN[11 : 11 + n - tag]
                inputs.insert(0, ("genuine", ctx["ref_aead"].seal(pt, ad, pn), pt))
            for kind, blob, pt in inputs:
                local.count("w2_calls_checked")
                okd = pre_decrypt(c, n)
                try:
                    out = ctx["aead"].decrypt(blob, ad, pn)
                    exc = None
                except Exception as e:  # call under observation
                    exc, out = e, None
                if exc is None:
                    if not okd:
                        local.violation("contract:AEAD.decrypt:length-outside-[TAG,PACKET_LENGTH_MAX]:accepted",
                                        "AEAD.decrypt(%d bytes) returned instead of rejecting the length" % n, case)
                        ctx.update(_suite_objs(suite))
                    elif kind == "genuine" and out == pt:
                        local.count("w2_valid_accepted")
                        outcomes.add("dec-ok")
                    else:
                        local.violation("kat:AEAD.decrypt:result-differs-from-reference",
                                        "AEAD.decrypt(%s %d bytes) returned %d bytes that the independent AEAD does not produce" % (kind, n, len(out)), case)
                        ctx.update(_suite_objs(suite))
                else:
                    if okd and kind == "genuine":
                        local.count("obs_w2_in_contract_call_rejected")
                    else:
                        local.count("w2_invalid_rejected")
                        outcomes.add("dec-rejected")
                    _kat_aead(ctx, local, case, "decrypt")
        local.evaluations += 1
        if outcomes:
            local.nontrivial.add("w2aead:%s:%s:%s" % (suite, _lenb(n, c), "+".join(sorted(outcomes))))

    mk = lambda item: _case_of(batch, item[0])  # noqa: E731
    if batch.get("only") is not None:
        sb.run(cases, fn, mk, setup=lambda: _suite_objs(suite), use_fork=use_fork, group_of=group_of)
        return
    n_near = 1601
    seen0 = res.counters.get("violations_seen", 0)
    sb.run(Indexed(lens, range(n_near)), fn, mk, setup=lambda: _suite_objs(suite), use_fork=use_fork, group_of=group_of)
    if res.counters.get("violations_seen", 0) > seen0:
        # an implementation that accepts 1501..1600 bytes would overrun by kilobytes on the long inputs
        res.count("w2_far_cases_skipped_after_near_violation", len(lens) - n_near)
    else:
        sb.run(Indexed(lens, range(n_near, len(lens))), fn, mk, setup=lambda: _suite_objs(suite), use_fork=use_fork, group_of=group_of)


def _apply_payload_lens(hlen, c, mode):
    mx = c["PACKET_LENGTH_MAX"]
    if mode == "all":
        return list(range(0, 1601))
    s = set(range(0, 41)) | set(range(1580, 1601)) | set(range(0, 1601, 37))
    s |= set(range(max(0, mx - hlen - 24), min(1600, mx - hlen + 24) + 1))
    return sorted(s)


def _hdr(hlen, pnl, long_form):
    if hlen == 0:
        return b""
    first = (0xC0 if long_form else 0x40) | (pnl - 1)
    return bytes([first]) + PATTERN[2000 : 2000 + hlen - 1]


def gen_w2_apply(batch, res, sb, watch, use_fork):
    suite, mode = batch["suite"], batch["mode"]
    c = constants()
    hlens = batch["hset"] if "hset" in batch else list(range(batch["hlens"][0], batch["hlens"][1] + 1))
    triples = []
    if mode == "all":
        seq = Grid(hlens, (1, 2, 3, 4), range(0, 1601))
    else:
        for h in hlens:
            pl = _apply_payload_lens(h, c, mode)
            for pnl in (1, 2, 3, 4):
                for p in pl:
                    triples.append((h, pnl, p))
        seq = triples
    cases = Indexed(seq, batch.get("only"))

    def group_of(item):
        h, pnl, p = item[1]
        bad = pre_apply(c, _hdr(h, pnl, h & 1), b"\0" * min(p, 64) if p < 64 else PATTERN[:p])
        return "apply:" + (bad or "valid")

    def fn(ctx, item, local):
        idx, (h, pnl, p) = item
        header = _hdr(h, pnl, h & 1)
        payload = PATTERN[3000 : 3000 + p]
        bad = pre_apply(c, header, payload)
        local.count("w2_calls_checked")
        local.evaluations += 1
        try:
            out = ctx["hp"].apply(header, payload)
            exc = None
        except Exception as e:  # call under observation
            exc, out = e, None
        if exc is None:
            if bad:
                local.violation("contract:HeaderProtection.apply:%s:accepted" % bad,
                                "HeaderProtection.apply(header %d bytes with %d-byte pn, payload %d bytes) returned %d bytes: %s and the C code did not reject it"
                                % (h, pnl, p, len(out), bad), _case_of(batch, idx))
                ctx.update(_suite_objs(suite))
                oc = "accepted-" + bad
            elif h > pnl and out != ctx["ref_hp"].apply(header, payload):
                local.violation("kat:HeaderProtection.apply:result-differs-from-reference",
                                "HeaderProtection.apply(header %d, pn %d, payload %d) differs from the independent implementation" % (h, pnl, p), _case_of(batch, idx))
                ctx.update(_suite_objs(suite))
                oc = "wrong"
            elif len(out) != h + p:
                local.violation("kat:HeaderProtection.apply:result-differs-from-reference", "result length %d != %d" % (len(out), h + p), _case_of(batch, idx))
                oc = "wrong"
            else:
                local.count("w2_valid_accepted")
                oc = "ok"
        else:
            if bad:
                local.count("w2_invalid_rejected")
                oc = "rejected-" + bad
            else:
                local.count("obs_w2_in_contract_call_rejected")
                oc = "valid-rejected"
            _kat_hp(ctx, local, _case_of(batch, idx), "apply")
        total = h + p
        local.nontrivial.add("w2apply:%s:pn%d:h%s:t%s:%s" % (suite, pnl, "0" if h == 0 else ("<=pn" if h <= pnl else "~%d" % (h // 32 * 32)), _lenb(total, c), oc))

    sb.run(cases, fn, lambda item: _case_of(batch, item[0]), setup=lambda: _suite_objs(suite), use_fork=use_fork, group_of=group_of)


def _protected_packet(ctx, total_len, off):
    """a packet of total_len bytes; when it is long enough, a genuinely header-protected one
    whose packet number field starts at off"""
    body = bytearray(PATTERN[5000 : 5000 + total_len])
    if total_len >= 1:
        body[0] = 0x41 if (total_len & 1) else 0xC2
    return bytes(body)


def gen_w2_remove(batch, res, sb, watch, use_fork):
    suite = batch["suite"]
    c = constants()
    near = Grid(range(0, 97), list(range(0, 129)) + [-1])
    far_offsets = [1 << 16, (1 << 31) - 1, 1 << 31, (1 << 32) - 1, 1 << 32, (1 << 32) + 5, -(1 << 31), 1 << 63, (1 << 64) - 1]
    far = [(pl, off) for pl in (0, 20, 96, 1500, 1520, 65535) for off in far_offsets]
    far += [(65535, off) for off in (0, 1, 1479, 1480, 1495, 1496, 1497, 1500, 1600, 65000, 65514, 65515, 65516, 65531, 65535)]
    far += [(pl, off) for pl in (1500, 1516, 1520, 1521, 1600, 2048) for off in (1470, 1480, 1495, 1496, 1497, 1498, 1500, 1501)]
    # around PACKET_LENGTH_MAX: an accepted out-of-contract call overruns the scratch buffer by at most 14 bytes
    mild = [(pl, off) for pl in (1500, 1516, 1517, 1520, 1521, 1540) for off in range(1470, 1511)]
    allcases = [("near", near[i]) for i in range(len(near))] + [("near", x) for x in mild] + [("far", x) for x in far]
    n_near = len(near) + len(mild)

    def group_of(item):
        _, (pl, off) = item[1]
        bad = pre_remove(c, b"\0" * min(pl, 70000), off)
        return "remove:" + (bad or "valid")

    def fn(ctx, item, local):
        idx, (_region, (pl, off)) = item
        packet = _protected_packet(ctx, pl, off)
        bad = pre_remove(c, packet, off)
        case = _case_of(batch, idx)
        local.count("w2_calls_checked")
        local.evaluations += 1
        try:
            out = ctx["hp"].remove(packet, off)
            exc = None
        except Exception as e:  # call under observation
            exc, out = e, None
        if exc is None:
            if bad:
                local.violation("contract:HeaderProtection.remove:%s:accepted" % bad,
                                "HeaderProtection.remove(packet %d bytes, offset %d) returned (%d-byte header, pn): %s and the C code did not reject it"
                                % (pl, off, len(out[0]), bad), case)
                ctx.update(_suite_objs(suite))
                oc = "accepted-" + bad
            elif off >= 1 and (out[0], out[1] & 0xFFFFFFFF) != tuple(ctx["ref_hp"].remove(packet, off)):
                local.violation("kat:HeaderProtection.remove:result-differs-from-reference",
                                "HeaderProtection.remove(packet %d, offset %d) differs from the independent implementation" % (pl, off), case)
                ctx.update(_suite_objs(suite))
                oc = "wrong"
            else:
                local.count("w2_valid_accepted")
                oc = "ok"
        else:
            if bad or not (0 <= off < (1 << 32)):
                local.count("w2_invalid_rejected")
                oc = "rejected-" + (bad or "offset-not-representable")
            else:
                local.count("obs_w2_in_contract_call_rejected")
                oc = "valid-rejected"
            _kat_hp(ctx, local, case, "remove")
        offb = "neg" if off < 0 else ("far" if off > 4096 else _lenb(off + 4, c))
        local.nontrivial.add("w2remove:%s:pl%s:off%s:%s" % (suite, _lenb(pl, c) if pl > 100 else str(pl // 8 * 8), offb, oc))

    setup = lambda: _suite_objs(suite)  # noqa: E731
    if batch.get("only") is not None:
        sb.run(Indexed(allcases, batch["only"]), fn, lambda item: _case_of(batch, item[0]), setup=setup, use_fork=use_fork, group_of=group_of)
        return
    seen0 = res.counters.get("violations_seen", 0)
    sb.run(Indexed(allcases, range(n_near)), fn, lambda item: _case_of(batch, item[0]), setup=setup, use_fork=use_fork, group_of=group_of)
    if res.counters.get("violations_seen", 0) > seen0:
        # far offsets / 64 kB packets would overrun by kilobytes: only meaningful once the near grid is clean
        res.count("w2_far_cases_skipped_after_near_violation", len(far))
    else:
        sb.max_reforks += len(far)
        sb.run(Indexed(allcases, range(n_near, len(allcases))), fn, lambda item: _case_of(batch, item[0]), setup=setup, use_fork=use_fork, group_of=group_of)


def gen_w2_ctor(batch, res, sb, watch, use_fork):
    """constructors with every key / iv length and unknown cipher names: either a Python exception
    or an object that works (and matches the reference when the parameters are the standard ones)"""
    # only the cipher names the library itself uses (aioquic.quic.crypto.CIPHER_SUITES) and unknown names:
    # handing a non-AEAD cipher to AEAD() is API misuse outside the property's quantifier
    names_aead = [b"aes-128-gcm", b"aes-256-gcm", b"chacha20-poly1305", b"no-such-cipher", b""]
    names_hp = [b"aes-128-ecb", b"aes-256-ecb", b"chacha20", b"no-such-cipher", b""]
    cases = [("aead", nm, kl, il) for nm in names_aead for kl in list(range(0, 41)) for il in (0, 1, 8, 11, 12, 13, 16)]
    cases += [("hp", nm, kl, 0) for nm in names_hp for kl in range(0, 70)]
    seq = Indexed(cases, batch.get("only"))

    def fn(ctx, item, local):
        from aioquic._crypto import AEAD, HeaderProtection

        idx, (what, name, kl, il) = item
        case = _case_of(batch, idx)
        key = PATTERN[40 : 40 + kl]
        iv = PATTERN[90 : 90 + il]
        local.evaluations += 1
        local.count("w2_calls_checked")
        try:
            obj = AEAD(name, key, iv) if what == "aead" else HeaderProtection(name, key)
        except Exception as exc:  # constructor under observation
            local.count("w2_invalid_rejected")
            local.nontrivial.add("w2ctor:%s:%s:rejected:%s" % (what, name.decode("latin1")[:20], type(exc).__name__))
            return
        ref = None
        if what == "aead":
            from ..c04_util import ref_for_aead

            ref = ref_for_aead(name, key, iv)
            try:
                ct = obj.encrypt(KAT_PT, KAT_AD, 9)
                pt = obj.decrypt(ct, KAT_AD, 9)
            except Exception:
                local.count("obs_w2_ctor_object_raises")
                return
            if ref is not None and (ct != ref.seal(KAT_PT, KAT_AD, 9) or pt != KAT_PT):
                local.violation("kat:AEAD.encrypt:result-differs-from-reference", "AEAD(%r, key %d, iv %d) constructed but differs from the reference" % (name, kl, il), case)
                return
        else:
            from ..c04_util import ref_for_hp

            ref = ref_for_hp(name, key)
            try:
                out = obj.apply(KAT_HDR, KAT_PAYLOAD)
                obj.remove(out, len(KAT_HDR) - 2)
            except Exception:
                local.count("obs_w2_ctor_object_raises")
                return
            if ref is not None and out != ref.apply(KAT_HDR, KAT_PAYLOAD):
                local.violation("kat:HeaderProtection.apply:result-differs-from-reference", "HeaderProtection(%r, key %d) constructed but differs from the reference" % (name, kl), case)
                return
        local.count("w2_valid_accepted" if ref is not None else "obs_w2_nonstandard_parameters_accepted")
        local.nontrivial.add("w2ctor:%s:%s:k%d:iv%d:constructed" % (what, name.decode("latin1")[:20], kl, il))

    sb.run(seq, fn, lambda item: _case_of(batch, item[0]), use_fork=use_fork, group_of=lambda item: "ctor:" + item[1][0])


# =====================================================================================
# W3 - hostile datagrams into real connections
# =====================================================================================

VERSION_NUM = {"v1": 0x00000001, "v2": 0x6B3343CF}
LONG_TYPE_BITS = {"v1": {"initial": 0, "0rtt": 1, "handshake": 2, "retry": 3}, "v2": {"initial": 1, "0rtt": 2, "handshake": 3, "retry": 0}}


def _varint(v, size=None):
    from .. import frames as F

    return F.enc_varint(v, size) if size else F.enc_varint(v)


def _w3_prepare(batch):
    """real connections brought into the requested state inside the (clean) batch process"""
    from aioquic.quic.connection import QuicConnection

    from ..puppet import HandshakePair

    role, state, version = batch["role"], batch["state"], batch["version"]
    opts = {"versions_client": [version, "v1"] if version == "v2" else ["v1", "v2"],
            "versions_server": ["v2", "v1"] if version == "v2" else ["v1", "v2"],
            "original_version": version}
    pair = HandshakePair(opts, seed=batch["seed"])
    genuine = []  # datagrams addressed to the victim
    if state == "first":
        pair.start()
        first = [d for d, _a in pair.client.datagrams_to_send(now=0.0)]
        if role == "server":
            pair.server = QuicConnection(configuration=pair.scfg, original_destination_connection_id=pair.client_odcid)
            genuine = first
    elif state == "mid":
        pair.start()
        pair.now += 0.01
        pair.transfer("client")
        if role == "client":
            pair.now += 0.01
            pending = pair.server.datagrams_to_send(now=pair.now)
            if pending:
                pair.wire.append(("server", pending[0][0]))
                pair.client.receive_datagram(pending[0][0], ("2.3.4.5", 4433), now=pair.now)
                genuine = [d for d, _a in pending[1:]]
    else:
        pair.complete()
        if state == "keyupdate":
            peer = pair.server if role == "client" else pair.client
            peer.request_key_update()
            peer.send_ping(77)
            pair.roundtrips(2)
        # some application traffic so that genuine short-header packets exist
        peer = pair.server if role == "client" else pair.client
        sid = peer.get_next_available_stream_id()
        peer.send_stream_data(sid, prf_bytes("w3", 3000), end_stream=False)
        pair.roundtrips(2)
    me = "server" if role == "client" else "client"
    genuine += [d for snd, d in pair.wire if snd == me]
    victim = pair.server if role == "server" else pair.client
    return pair, victim, genuine


def _w3_datagrams(batch, pair, victim, genuine):
    """deterministic list of (kind, description, bytes)"""
    role, state, version = batch["role"], batch["state"], batch["version"]
    rng = random.Random("w3/%s/%s/%s/%d" % (role, state, version, batch["seed"]))
    ver = VERSION_NUM[version]
    hc = bytes(victim.host_cid)
    if role == "server" and state == "first":
        hc = bytes(pair.client_odcid)
    pc = bytes(victim._peer_cid.cid) if victim._peer_cid.cid else bytes(8)
    out = []

    def rb(n):
        return rng.getrandbits(8 * n).to_bytes(n, "big") if n else b""

    # a. short header, every small length
    lens = list(range(1, 81)) + list(range(81, 2049, 61)) + [1199, 1200, 1201, 1472, 1484, 1485, 1499, 1500, 1501, 1516, 1517, 2048, 4096, 16384, 65527]
    for L in lens:
        for cid in ((hc, b"\xEE" * len(hc)) if L < 80 else (hc,)):
            first = 0x40 | (rng.getrandbits(6) & 0x3F)
            d = (bytes([first]) + cid + rb(max(0, L - 1 - len(cid))))[:L]
            out.append(("short", "len=%d cid=%s" % (L, "host" if cid is hc else "unknown"), d))

    # b. long headers: length-field lies and short remainders; c. CID-length lies
    def long_hdr(ptype, dcid, scid, token=None, dl=None, sl=None):
        first = 0xC0 | (LONG_TYPE_BITS[version][ptype] << 4) | (rng.getrandbits(4) & 0x0F)
        h = bytes([first]) + ver.to_bytes(4, "big")
        h += bytes([len(dcid) if dl is None else dl]) + dcid + bytes([len(scid) if sl is None else sl]) + scid
        if ptype == "initial":
            tok = token or b""
            h += _varint(len(tok)) + tok
        return h

    pad_to = 1200
    for ptype in ("initial", "handshake", "0rtt"):
        for rest in (0, 1, 3, 4, 5, 19, 20, 21, 24, 40, 200):
            for lie in (None, 0, 1, 3, 4, 16, 19, 20, 21, "rest-1", "rest+1", "rest+1000", 16383, (1 << 30) - 1, (1 << 62) - 1):
                body = rb(rest)
                declared = rest if lie is None else (rest - 1 if lie == "rest-1" else rest + 1 if lie == "rest+1" else rest + 1000 if lie == "rest+1000" else lie)
                if declared < 0:
                    continue
                pkt = long_hdr(ptype, hc, pc) + _varint(declared) + body
                for padded in (False, True):
                    d = pkt + (bytes(max(0, pad_to - len(pkt))) if padded else b"")
                    out.append(("long-length", "%s rest=%d declared=%s padded=%s" % (ptype, rest, declared, padded), d))
    for dl in (0, 1, 8, 20, 21, 255):
        for sl in (0, 8, 20, 21, 255):
            for tail in (0, 1, 30, 1200):
                first_hdr = long_hdr("initial", hc if dl == len(hc) else rb(min(dl, 20)), pc if sl == len(pc) else rb(min(sl, 20)), dl=dl, sl=sl)
                out.append(("cid-length", "dcil=%d scil=%d tail=%d" % (dl, sl, tail), first_hdr + _varint(max(0, tail - 0)) + rb(tail)))

    # d. Initial packets with tokens around and far beyond the 1500-byte scratch buffer
    for tl in (0, 1, 63, 64, 200, 1000, 1400, 1450, 1460, 1470, 1475, 1480, 1485, 1490, 1495, 1500, 1505, 1520, 1600, 2000, 4000, 16000, 60000):
        for rest in (0, 4, 19, 20, 21, 40):
            pkt = long_hdr("initial", hc, pc, token=rb(tl)) + _varint(rest, 2) + rb(rest)
            d = pkt + bytes(max(0, pad_to - len(pkt)))
            out.append(("token", "token=%d rest=%d" % (tl, rest), d))
    for tl_decl in (1, 64, 1500, 16383, 65535, (1 << 30) - 1):
        pkt = long_hdr("initial", hc, pc)[:-1] + _varint(tl_decl) + rb(20)
        out.append(("token", "token-declared=%d actual<=20" % tl_decl, pkt + bytes(max(0, pad_to - len(pkt)))))

    # e. genuine datagrams, truncated
    for gi, g in enumerate(genuine[:12]):
        n = len(g)
        cut = set(range(0, min(n, 90))) | set(range(max(0, n - 45), n)) | set(range(90, n, 13 if batch.get("n_random", 0) > 1000 else 41))
        for L in sorted(cut):
            out.append(("truncated-genuine", "datagram#%d[%d] cut at %d" % (gi, n, L), g[:L]))
        # genuine packet followed by a remainder too short to be a packet
        for extra in (1, 5, 19, 20, 21):
            if n > 25:
                out.append(("truncated-genuine", "datagram#%d cut at %d + %d trailing bytes" % (gi, n - 17, extra), g[: n - 17] + rb(extra)))

    # f. random bytes
    for i in range(batch.get("n_random", 300)):
        L = rng.choice([rng.randrange(0, 64), rng.randrange(0, 2049), rng.randrange(0, 2049), rng.choice([1200, 1500, 1501, 9000, 65527])])
        d = bytearray(rb(L))
        if L and rng.random() < 0.6:
            d[0] = rng.choice([0x40, 0x41, 0x43, 0x5F, 0xC0, 0xC3, 0xD0, 0xE3, 0xF0, 0xFF, 0x80])
            if d[0] & 0x80 and L >= 5 and rng.random() < 0.8:
                d[1:5] = ver.to_bytes(4, "big")
            elif not d[0] & 0x80 and rng.random() < 0.7:
                d[1 : 1 + len(hc)] = hc[: max(0, L - 1)]
        out.append(("random", "len=%d first=%s" % (L, ("%02x" % d[0]) if L else "-"), bytes(d)))
    return out


def _mag(n):
    return "0" if n == 0 else "<20" if n < 20 else "<29" if n < 29 else "<1490" if n < 1490 else "<=1500" if n <= 1500 else ">1500"


def _w3_auth_payloads(rng, many):
    """frame payloads for authentic packets: truncated / oversized / lying fields"""
    pl = []
    for ftype in list(range(0x00, 0x1F)) + [0x30, 0x31, 0x40, 0xFF]:
        for tail in ((0, 1, 2, 3, 8) if many else (0, 2)):
            pl.append(bytes([ftype]) + rng.getrandbits(8 * tail).to_bytes(tail, "big") if tail else bytes([ftype]))
    pl.append(b"\x06\x00\x7f\xff" + b"x" * 10)  # CRYPTO length beyond packet
    pl.append(b"\x0a\x00\xbf\xff\xff\xff" + b"y" * 5)  # STREAM length beyond packet
    pl.append(b"\x18\x05\x00\xff" + b"z" * 30)  # NEW_CONNECTION_ID with length 255
    pl.append(b"\x1c\x00\x00\xff\xff\xff\xff\xff\xff\xff\xff")  # CONNECTION_CLOSE with huge reason length
    pl.append(b"\x02\xc0\x00\x00\x00\x00\x00\x00\x05\x00\xff\xff")  # ACK with huge range count
    pl.append(b"\x31\xff\xff" + b"d" * 3)  # DATAGRAM with length beyond
    return pl


def gen_w3(batch, res, sb, watch, use_fork):
    from ..simnet import CLIENT_ADDR, SERVER_ADDR

    SeededUrandom("w3/%d" % batch["seed"]).install()
    book = Contracts().install()
    pair, victim, genuine = _w3_prepare(batch)
    role, state = batch["role"], batch["state"]
    # the preparation itself is library traffic through the proxies
    prep_breaches = book.drain()
    for sig, what in prep_breaches:
        res.violation(sig, "while preparing the connection state: " + what, batch)
    res.count("boundary_calls_checked", book.calls)
    book.calls = 0
    dgrams = _w3_datagrams(batch, pair, victim, genuine)
    n_plain = len(dgrams)
    auth = []
    pup = None
    if state == "connected":
        from ..puppet import Puppet

        auth = _w3_auth_payloads(random.Random("w3auth/%d" % batch["seed"]), batch.get("n_random", 0) > 1000)
        pup = Puppet(pair, me="server" if role == "client" else "client")
    items = [("dgram", i) for i in range(n_plain)] + [("auth", i) for i in range(len(auth))]
    cases = Indexed(items, batch.get("only"))
    addr = CLIENT_ADDR if role == "server" else SERVER_ADDR
    c = constants()

    def setup():
        return {"now": pair.now + 1.0}

    import re as _re

    def group_of(item):
        # same kind + same description with every number reduced to its magnitude class: reports
        # of one group repeat one mechanism, a different layout gets its own quota
        kind, i = item[1]
        if kind != "dgram":
            return "w3:auth"
        k, desc, _d = dgrams[i]
        if k in ("random", "truncated-genuine"):
            return "w3:" + k
        return "w3:" + k + ":" + _re.sub(r"\d+", lambda m: _mag(int(m.group(0))), desc)

    def fn(ctx, item, local):
        idx, (kind, i) = item
        case = _case_of(batch, idx)
        if kind == "dgram":
            k, desc, data = dgrams[i]
        else:
            k, desc = "auth", "authentic 1-RTT packet, payload %s" % auth[i][:12].hex()
            data = pup.packet("1rtt", auth[i], pn=pup.next_pn["A"] + i)
        ctx["now"] += 0.001
        before = book.calls
        rej_before = book.rejected
        outcome = "returned"
        try:
            victim.receive_datagram(data, addr, now=ctx["now"])
            if kind == "auth" and i % 8 != 7 and victim._close_pending and victim._state.name == "CONNECTED":
                # a malformed authentic packet makes the victim queue a CONNECTION_CLOSE. Replacing the
                # process after each of them costs ~1 s; instead take the pending close back (harness-only
                # state reset) and let every 8th one run to completion (close packet built, process replaced)
                victim._close_pending = False
                victim._close_event = None
                local.count("w3_auth_close_withdrawn")
            victim.datagrams_to_send(now=ctx["now"])
            while victim.next_event() is not None:
                pass
        except Exception as exc:  # any Python exception is a permitted outcome for this property (C05 judges it)
            outcome = "exception:" + type(exc).__name__
            local.count("obs_w3_api_exception")
        reached = book.calls - before
        local.evaluations += 1
        local.count("w3_datagrams")
        local.count("boundary_calls_checked", reached)
        for sig, what in book.drain():
            local.violation(sig, "%s datagram (%s, %d bytes) to %s in state %s: %s" % (k, desc, len(data), role, state, what), case)
        if reached:
            local.count("w3_reached_crypto")
            if book.rejected > rej_before:
                local.count("w3_rejected_by_helper")
            sz = len(data)
            lb = str(sz) if sz < 48 else _lenb(sz, c)
            local.nontrivial.add("w3:%s:%s:%s:%s:%s:%s" % (role, state, k, lb, "rej" if book.rejected > rej_before else "acc", outcome))
        if idx % 197 == 0:
            local.sample({"w3": "%s/%s" % (role, state), "kind": k, "desc": desc, "bytes": len(data), "helper_calls": reached, "outcome": outcome})
        if victim._state.name in ("CLOSING", "DRAINING", "TERMINATED"):
            local.count("w3_victim_closed_restart")
            return "victim-closed"

    sb.max_reforks = 60 + len(auth)
    sb.group_cap = 2
    sb.run(cases, fn, lambda item: _case_of(batch, item[0]), setup=setup, use_fork=use_fork, group_of=group_of)


# =====================================================================================
# W4 - packets the library builds for every max_datagram_size
# =====================================================================================


def _w4_one(cfg, seed, book, local, case):
    """handshake + bulk transfer in both directions + close, for one configuration.
    Any Python exception from the API ends the run and is a permitted outcome."""
    from aioquic.buffer import Buffer
    from aioquic.quic.connection import QuicConnection
    from aioquic.quic.packet import encode_quic_retry, pull_quic_header

    from ..simnet import CLIENT_ADDR, SERVER_ADDR, make_configs

    SeededUrandom("w4/%d/%d" % (seed, cfg["mds"])).install()
    v = cfg["version"]
    opts = {"mds_client": cfg["mds"], "mds_server": cfg["mds"], "cipher_suites_client": [cfg["suite"]],
            "versions_client": [v, "v1"] if v == "v2" else ["v1", "v2"], "versions_server": ["v2", "v1"] if v == "v2" else ["v1", "v2"],
            "original_version": v, "max_data_client": 4 << 20, "max_data_server": 4 << 20,
            "max_stream_data_client": 4 << 20, "max_stream_data_server": 4 << 20}
    ccfg, scfg = make_configs(opts)
    ccfg.connection_id_length = cfg["cid"]
    scfg.connection_id_length = cfg["cid"]
    st = {"now": 0.0, "phase": "construct", "exc": None, "dgrams": 0, "max_dgram": 0}
    calls0 = book.calls

    def api(phase, f, *a, **kw):
        st["phase"] = phase
        return f(*a, **kw)

    client = server = None
    try:
        client = api("client-init", QuicConnection, configuration=ccfg)
        api("connect", client.connect, SERVER_ADDR, now=0.0)
        retry_done = cfg["token"] == 0
        retry_scid = None
        odcid = client.original_destination_connection_id
        done_c = done_s = False
        sent_bulk = False
        closed = False
        got = {"client": 0, "server": 0}
        bulk = 20000
        idle = 0
        for rnd in range(80):
            st["now"] += 0.02
            n_before = st["dgrams"]
            out = api("client.datagrams_to_send", client.datagrams_to_send, now=st["now"])
            for data, _addr in out:
                st["dgrams"] += 1
                st["max_dgram"] = max(st["max_dgram"], len(data))
                if not retry_done:
                    # what a server front-end with address validation does: answer the first Initial with a Retry
                    hdr = pull_quic_header(Buffer(data=data), host_cid_length=cfg["cid"])
                    retry_scid = bytes((0x5C + i) & 0xFF for i in range(max(cfg["cid"], 8)))
                    token = bytes((0x70 + 3 * i) & 0xFF for i in range(cfg["token"]))
                    retry = encode_quic_retry(version=hdr.version, source_cid=retry_scid, destination_cid=hdr.source_cid,
                                              original_destination_cid=hdr.destination_cid, retry_token=token)
                    api("client.receive_datagram(retry)", client.receive_datagram, retry, SERVER_ADDR, now=st["now"])
                    retry_done = True
                    break
                if server is None:
                    server = api("server-init", QuicConnection, configuration=scfg, original_destination_connection_id=odcid,
                                 retry_source_connection_id=retry_scid)
                api("server.receive_datagram", server.receive_datagram, data, CLIENT_ADDR, now=st["now"])
            if server is not None:
                st["now"] += 0.02
                for data, _addr in api("server.datagrams_to_send", server.datagrams_to_send, now=st["now"]):
                    st["dgrams"] += 1
                    st["max_dgram"] = max(st["max_dgram"], len(data))
                    api("client.receive_datagram", client.receive_datagram, data, SERVER_ADDR, now=st["now"])
            for name, conn in (("client", client), ("server", server)):
                if conn is None:
                    continue
                while True:
                    ev = api(name + ".next_event", conn.next_event)
                    if ev is None:
                        break
                    tn = type(ev).__name__
                    if tn == "HandshakeCompleted":
                        if name == "client":
                            done_c = True
                        else:
                            done_s = True
                    elif tn == "StreamDataReceived":
                        got[name] += len(ev.data)
                    elif tn == "ConnectionTerminated":
                        closed = True
            for name, conn in (("client", client), ("server", server)):
                if conn is not None:
                    t = api(name + ".get_timer", conn.get_timer)
                    if t is not None and t <= st["now"]:
                        api(name + ".handle_timer", conn.handle_timer, now=st["now"])
            if done_c and done_s and not sent_bulk:
                sent_bulk = True
                sid = api("client.stream", client.get_next_available_stream_id)
                api("client.send_stream_data", client.send_stream_data, sid, prf_bytes("w4c", bulk), end_stream=True)
                sid2 = api("server.stream", server.get_next_available_stream_id)
                api("server.send_stream_data", server.send_stream_data, sid2, prf_bytes("w4s", bulk), end_stream=True)
                api("client.send_datagram_frame", client.send_datagram_frame, prf_bytes("w4d", 900))
            if sent_bulk and got["client"] >= bulk and got["server"] >= bulk and not closed:
                api("client.close", client.close, error_code=0, reason_phrase="done " * 20)
                closed = True
                st["closing_round"] = rnd
            if closed and rnd >= st.get("closing_round", rnd) + 2:
                break
            idle = idle + 1 if st["dgrams"] == n_before else 0
            if idle >= 3:
                # nothing on the wire: jump to the earliest timer, give up when there is none
                timers = [t for t in (client.get_timer(), server.get_timer() if server is not None else None) if t is not None]
                if not timers or idle >= 8:
                    break
                st["now"] = max(st["now"], min(timers))
        st["result"] = "transferred+closed" if (closed and got["client"] >= bulk) else ("handshake-only" if (done_c and done_s) else "no-handshake")
    except Exception as exc:  # permitted outcome: the configuration cannot be served and says so
        st["exc"] = exc
        st["result"] = "python-exception:%s@%s" % (type(exc).__name__, st["phase"])
        local.count("obs_w4_python_exception")
    n_calls = book.calls - calls0
    local.evaluations += 1
    local.count("w4_configs")
    local.count("w4_packets_built", st["dgrams"])
    local.count("boundary_calls_checked", n_calls)
    desc = "max_datagram_size=%d suite=%s cid=%d token=%d %s" % (cfg["mds"], cfg["suite"], cfg["cid"], cfg["token"], cfg["version"])
    for sig, what in book.drain():
        local.violation(sig, desc + ": " + what, case)
    if st["dgrams"] >= 2:
        mds = cfg["mds"]
        c = constants()
        local.nontrivial.add("w4:mds%s:%s:cid%d:tok%d:%s:%s" % (_lenb(mds, c) if mds <= 1700 else str(mds), cfg["suite"][:7], cfg["cid"], cfg["token"], cfg["version"], st["result"].split("@")[0]))
    local.count("w4_result_" + st["result"].split(":")[0].replace("+", "_").replace("-", "_"))
    return {"config": desc, "result": st["result"], "datagrams": st["dgrams"], "largest_datagram": st["max_dgram"],
            "largest_encrypt_plaintext": book.max_encrypt, "largest_apply_total": book.max_apply, "helper_calls": n_calls,
            "exception": repr(st["exc"])[:200] if st["exc"] else None}


def gen_w4(batch, res, sb, watch, use_fork):
    cfgs = batch["configs"]
    cases = Indexed(cfgs, batch.get("only"))
    holder = {}

    def setup():
        holder["book"] = Contracts().install()
        return holder

    def fn(ctx, item, local):
        idx, cfg = item
        book = ctx["book"]
        book.max_encrypt = book.max_apply = 0
        info = _w4_one(cfg, batch["seed"], book, local, _case_of(batch, idx))
        if idx % 3 == 0 or info["exception"]:
            local.sample(info, limit=4)

    sb.group_cap = 1000
    sb.run(cases, fn, lambda item: _case_of(batch, item[0]), setup=setup, use_fork=use_fork, group_of=lambda item: "w4")


GENERATORS = {
    "probe": gen_probe,
    "w1_grid": gen_w1_grid,
    "w1_seq": gen_w1_seq,
    "w1_ctor": gen_w1_ctor,
    "w2_aead": gen_w2_aead,
    "w2_apply": gen_w2_apply,
    "w2_remove": gen_w2_remove,
    "w2_ctor": gen_w2_ctor,
    "w3": gen_w3,
    "w4": gen_w4,
}
